"""Generates MANIFEST.json from the table below (kept as code so it stays valid)."""
import json
import os

HERE = os.path.dirname(os.path.abspath(__file__))

CHECKS = {
    'C09': dict(
        category='exploration', design_ref='DESIGN.md §4 C09',
        technique='runtime differential monitor: real SequenceDataSource/ShardedIterable/MergedSequences executed on an exhaustively enumerated small space (plus seeded random larger cases) against a plain-list oracle',
        text='Exhaustive-within-bounds execution of the real sharding and merged-sequence code with a list oracle: every (n,k) up to the bound, every 2-level nesting, every in-shard offset, every composition into possibly-empty parts x read-ahead sizes x every index and slice pair. Sharding arithmetic is pure and low-dimensional, so small exhaustive bounds plus random large cases are the right level.',
        note='Trusted: CPython list semantics as the oracle; behaviour beyond the explored bounds (n<=12/40 exhaustive, <=2000 random) is not covered.'),
}

NOT_APPLICABLE = {}
ALL_IDS = [f'C{i:02d}' for i in range(1, 21)]


def main():
  checks = []
  for pid in sorted(CHECKS):
    c = CHECKS[pid]
    checks.append({
        'property_id': pid,
        'quick_cmd': f'./check {pid} --tier quick',
        'thorough_cmd': f'./check {pid} --tier thorough',
        'evidence_file': f'evidence/{pid}.json',
        'replay_cmd_template': f'./check {pid} --replay {{path}}',
        'engine': c.get('engine', 'E1-differential'),
        'level_claimed': {'category': c['category'], 'text': c['text'],
                          'design_ref': c['design_ref']},
        'level_note': c['note'],
        'technique': c['technique'],
    })
  manifest = {
      'version': 1,
      'setup_cmd': './setup.sh',
      'hooks': {
          'guard': 'ML_METRICS_VERIF',
          'enable': 'no source hooks: ./check sets ML_METRICS_VERIF=1 in the check processes and attaches all instrumentation from the harness (module-global shims, sys.monitoring, wrappers, simulated courier package on PYTHONPATH)',
          'baseline_off_cmd': 'cd /repo && /venv/bin/python -m pytest -ra -q -p no:cacheprovider --timeout=900 --continue-on-collection-errors',
          'source_commits': [],
          'add_only': True,
      },
      'engines': [
          {'name': 'E1-differential', 'path': 'vlib/runner.py', 'kind_free_text': 'seeded/exhaustive case generation, real API vs independent oracle or metamorphic twin, subprocess fan-out'},
      ],
      'checks': checks,
      'not_applicable': [
          {'property_id': k, 'reason': v} for k, v in sorted(NOT_APPLICABLE.items())
      ] + [
          {'property_id': p, 'reason': 'check not built yet (work in progress; see DESIGN.md §4 for the planned monitor)'}
          for p in ALL_IDS if p not in CHECKS and p not in NOT_APPLICABLE
      ],
      'notes': 'All checks: exit 0 held, 1 violation (VIOLATION line + replay file), 2 inconclusive (INCONCLUSIVE line). Known findings: known_findings.json.',
  }
  with open(os.path.join(HERE, 'MANIFEST.json'), 'w') as f:
    json.dump(manifest, f, indent=1)
    f.write('\n')


if __name__ == '__main__':
  main()
