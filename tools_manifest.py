"""Generates MANIFEST.json from the table below (kept as code so it stays valid)."""
import json
import os

HERE = os.path.dirname(os.path.abspath(__file__))

CHECKS = {
    'C09': dict(
        category='exploration', design_ref='DESIGN.md §4 C09',
        technique='runtime differential monitor: real SequenceDataSource/ShardedIterable/MergedSequences executed on an exhaustively enumerated small space (plus seeded random larger cases) against a plain-list oracle; nested round-robin shards of ShardedIterable, and sources with unreadable records behind lazily / eagerly sliced parts (exactly-once with error skipping); law: a shard rebuilt from its recorded state reports an equal state',
        text='Exhaustive-within-bounds execution of the real sharding and merged-sequence code with a list oracle: every (n,k) up to the bound, every 2-level nesting, every in-shard offset, every composition into possibly-empty parts x read-ahead sizes x every index and slice pair. Sharding arithmetic is pure and low-dimensional, so small exhaustive bounds plus random large cases are the right level.',
        note='Trusted: CPython list semantics as the oracle; behaviour beyond the explored bounds (n<=12/40 exhaustive, <=2000 random) is not covered.'),
    'C04': dict(
        category='exploration', design_ref='DESIGN.md §3.2, §4 C04', engine='E2-deterministic-scheduler',
        technique='runtime monitoring under a deterministic thread scheduler: the real IteratorQueue is driven by producer/consumer threads whose interleaving (at every lock/condition operation and at statement boundaries of the queue methods via sys.monitoring) is chosen by seeded random-walk/PCT strategies; an offline checker over the unique-id event log decides exactly-once, per-producer order, end-of-stream values; hangs are exact deadlock witnesses; consumers / producers that poll with get_nowait / put_nowait against blocking peers (parked pollers cannot mask a deadlock), asyncio producers handed over as awaitables; batch_then_away (a consumer parked between its queue operations: a producer left asleep beside a free slot is starved and the scheduler fires its timeout)',
        text='Schedule exploration of the real queue code (about 19k schedules quick, about 1M thorough) with exact deadlock detection and an offline history checker. Unit tests sample one OS schedule each; this explores tens of thousands of distinct interleavings including pre-emption inside the release/re-acquire window.',
        note='Trusted: the scheduler shim (FIFO notify, no spurious wake-ups, re-entrant RLock), CPython queue classes; pre-emption granularity is a Python statement; only explored schedules are covered.'),
    'C05': dict(
        category='exploration', design_ref='DESIGN.md §3.2, §4 C05', engine='E2-deterministic-scheduler',
        technique='as C04, with enumerated fault positions: every (producer, position) iterator failure, every stop point with/without exception, starvation with a timeout; offline checker over the event log (every consumer sees the failure, no duplicates, all producers return) plus exact deadlock witnesses; faults include a source whose iter() raises, failures of the exception types the queue itself uses, failed ignore_error queues, and asyncio producers with practically endless sources; an empty batch after exhaustion is a violation; exceptions that reject notes as producer failures; batch_then_away; native-thread scenario of a num_steps stop request arriving while every thread of the async queue\'s own executor is blocked in put()',
        text='Every failure position and stop point of every generated configuration is combined with several explored schedules; a timed wait may only expire under global starvation, so a masked lost wake-up shows up as an unexpected TimeoutError.',
        note='As C04. Elements still queued when a failure is observed may be dropped (the property only forbids duplicates).'),
    'C13': dict(
        category='exploration', design_ref='DESIGN.md §3.2, §4 C13', engine='E2-deterministic-scheduler',
        technique='runtime monitoring under the deterministic scheduler with a shim thread-pool executor: piter_multiplex/piter_fn/piter/pmap/MultiplexIterator run to exhaustion, to every early-stop position and to every failure position; oracle = multiset equality with the sequential evaluation, generator return values, pool shut-down flags and exact all-threads-finished / deadlock witnesses; piter with a library-created pool and as many inputs as default workers; inputs given as list / tuple objects, also empty ones',
        text='Explores thousands of schedules per tier of the real parallel-iteration code; thread release is decided exactly (every controlled worker finished, library-owned pool shut down) instead of by thread enumeration after a sleep.',
        note='As C04; element-wise iterator functions; implicit pools only have to end idle. Known finding recorded: piter with several inputs leaves the upstream queue producers blocked on early stop/failure.'),
    'C15': dict(
        category='exploration', design_ref='DESIGN.md §3.2, §4 C15', engine='E2-deterministic-scheduler',
        technique='runtime monitoring under the deterministic scheduler: a PrefetchedCourierServer (built on the simulated transport, not started) has its handlers invoked by controlled request threads while its shimmed prefetch thread runs; every generator length/failure position, re-initialisation point and concurrent init/stop/shutdown point is combined with explored schedules; an offline checker over the batch log decides order, exactly-once, single end marker, no mixing, and hangs are exact deadlock witnesses; a second client re-initialises the generator while a request is blocked on the first one',
        text='Explores the prefetch-thread/request interleavings the unit tests cannot control, with enumerated failure, re-init and shutdown points.',
        note='As C04; the handlers are invoked directly (no wire). Known finding recorded: partial batch dropped on generator failure.'),
    'C02': dict(
        category='exploration', design_ref='DESIGN.md §4 C02',
        technique='runtime differential monitor: generated pipelines with aggregates and slicers run through the real runner (call, iterate, StopIteration value, update/merge paths) and are compared with an independent brute-force group-by using exact aggregators; metamorphic twins without/with fewer slicers; an extra case family adds 2-D columns, SELF-keyed aggregates with slicers, restricted feature crosses, ragged / mixed list columns, literal inputs and structured (tuple / namedtuple / ndarray) results; container types of results are compared; the same pipeline also laid out as a chain of 2-3 separately built blocks (fused when same-named, stages otherwise) each declaring a random subset of the same slices, compared with the brute-force group-by per block',
        text='About 1.5k generated pipelines per quick run (100k thorough) with streams where slices appear late or only in some batches; exact harness aggregators make any mis-routed row visible.',
        note='Oracle validated against the literal slice expectations of transform_test.py. Two known findings recorded.'),
    'C07': dict(
        category='exploration', design_ref='DESIGN.md §4 C07',
        technique='runtime differential monitor: every metric family is evaluated through function API, AggregateFn call and accumulator paths on generated inputs and compared with independent brute-force Fraction oracles (validated against 358 literal expectations of the repository tests); alias and range monitors; input classes include 1e5-4e5 examples, probabilities equal to thresholds, large-offset / int32 data, all-negative data, empty rows, unsorted / repeated k lists and exact 0 / 1 probabilities; rankings with repeated ids (range law first, set-based value as a separately keyed second oracle); SymmetricPredictionDifference and math_utils operands rescaled exactly by powers of two (2**-60 .. 2**40); configured accumulators through one-shot call / add+result / as_agg_fn / merge; thresholded retrieval with repeated ids and an order twin (rows reversed / rotated)',
        text='About 7.8k (input, configuration) cases and 330k value checks per quick run, 500k cases thorough, against textbook definitions computed from the raw examples.',
        note='Domain restrictions listed in the evidence assumptions (zero-denominator convention, dyadic grids for histograms, retrieval rows non-empty). Three known findings recorded.'),
    'C17': dict(
        category='exploration', design_ref='DESIGN.md §4 C17',
        technique='runtime monitor with a reference model: generated lazy expression trees are materialised (also after a pickle round trip) against an eager twin with call counters; operation histories exceeding the cache bounds are checked step by step against a 15-line reference LRU (hits, misses, eviction order, identity, missing-object errors) and LruCache invariants; concurrent cached calls and LRU insert / evict races run as 2-3 controlled threads under the deterministic scheduler (exact interleaving witnesses); identity-hashed callables and arguments are sent through pickle round trips',
        text='About 2k expression trees and 100 long make/clear histories per quick run (430k cases thorough).',
        note='Expression identity follows Python equality/hash as for functools.lru_cache; single-threaded histories.'),
    'C18': dict(
        category='exploration', design_ref='DESIGN.md §4 C18',
        technique='runtime monitor with a reference model: sequences of copying set/update operations on generated trees are compared with an independent persistent-update model; deep snapshots and node identities of the originals are compared before/after; independent DFS and recursive map for items/apply; leaf roots, non-list sequence leaves and key_paths views are checked for listing / read-back / apply; a set outside the documented domain that is accepted must read back its value; views with total and partial leaf functions (raising KeyError / IndexError / ValueError) with and without key_paths',
        text='16k operation sequences per quick run (480k thorough) with about 3M snapshot checks.',
        note='Only the documented set/get forms are generated (see assumptions).'),
    'C19': dict(
        category='exploration', design_ref='DESIGN.md §4 C19',
        technique='runtime monitor on an exhaustively enumerated space: every size sequence of length <= 5 over sizes 0-6 x targets 1-7 x 1-3 columns x container kinds is re-batched by the real rebatched_args (and through apply/select/batch pipelines) and checked for row conservation, order, alignment, batch sizes and tail-only padding using unique cell ids; ragged input may never be emitted misaligned; multi-output functions into one key, threaded batch() with barriers, and iterate_fn(multithread) are compared with the plain-Python result; assign with batch sizes over SELF / literal / nested-path inputs at all small size sequences without and with ignore_error, failing elements in front of, inside and behind the re-batchers with an exact which-rows-may-be-missing oracle; selected literals under batch_size',
        text='1.86M cases per quick run (exhaustive small space), 21M thorough incl. random long streams.',
        note='The stream is passed as an iterator; columns of a batch have equal length.'),
    'C01': dict(
        category='exploration', design_ref='DESIGN.md §4 C01',
        technique='runtime metamorphic monitor: every shipped mergeable metric (80 adapter configurations, object and AggregateFn APIs, auto-discovered inventory) is fed the same dataset as one batch into one accumulator and as arbitrary shard/batch compositions merged together; results compared numerically / by concatenation order / reservoir invariants; per-row outputs compared with batch-of-one; plus the merge-free one-batch evaluation as a second reference; reservoirs of unequal max_size merged in both directions at every fill level (a raise must leave the receiver unchanged, never on a fresh state)',
        text='32k compositions per quick run, 786k thorough, over datasets with NaNs, ragged rankings, empty shards.',
        note='Generator restrictions in the evidence assumptions. Known findings: TopKRetrieval per-batch k truncation.'),
    'C11': dict(
        category='exploration', design_ref='DESIGN.md §4 C11',
        technique='runtime metamorphic monitor on merge: all bracketings (and permutations for commutative metrics) of 2-5 states incl. fresh ones must agree; operands are snapshotted and re-read after the merge, after updating the receiver and after updating the operand (aliasing detection with deep-copied twins); result() interleaved against a twin that never read it; returned arrays scribbled for histogram-like metrics; n-ary merges of 3-7 states must leave every non-first state unchanged; reservoirs of unequal max_size merged in both directions at every fill level; Mean-family states holding +inf and -inf (values and a NaN mean) as receivers and operands',
        text='4k state sets per quick run (80k grouping checks), 210k thorough.',
        note='As C01.'),
    'C14': dict(
        category='exploration', design_ref='DESIGN.md §3.4, §4 C14', engine='E4-simulated-courier',
        technique='runtime differential monitor over the simulated Courier transport: generated lazy expressions (values and raising callables) are evaluated locally and through the real CourierServer/CourierClient (sync and async); remote-object chains are mirrored on a local twin; remote iterators/queues are drained and compared with the generator; concurrent client threads; calls on a server with shutdown requested; concurrent clients on cached expressions (slow constructors / hashes force the overlap), exception-valued results and iterator elements, construction errors of remote iterables, stop / start cycles of the server; exceptions carrying code / errno attributes, bounded iteration (num_steps) over remote queues compared with the local queue incl. producer release, liveness with only the client clock dilated (judged only when the transport log shows every heartbeat answered in time)',
        text='4.8k cases per quick run (23k transport calls), 190k thorough, on real threads.',
        note='Trusted: the transport stand-in (validated by running the 186 upstream courier tests against it in the thorough tier of C16).'),
    'C08': dict(
        category='exploration', design_ref='DESIGN.md §4 C08',
        technique='runtime differential monitor with a reference interpreter: generated select/apply/assign/filter/batch/sink chains over all key shapes run through the real runner and through an independent 270-line interpreter (validated on 51 literal expectations of the repository tests); caller inputs compared by deep snapshot and node identity; deliberately invalid key combinations must be rejected when built; duplicate output keys of apply / select are among the invalid combinations; re-batching chains also run over ndarray columns; aggregates and assigns whose output keys contain SKIP, aggregate results compared with a brute-force aggregate',
        text='13k chains per quick run, 1.1M thorough.',
        note='Only keys that resolve are generated; assign/batch only where documented-valid (see assumptions). Two known findings recorded.'),
    'C12': dict(
        category='exploration', design_ref='DESIGN.md §4 C12',
        technique='runtime differential monitor with enumerated failure positions: every subset of <= 3 failing positions of <= 8-unit streams (operators and data source, with/without slice support) x batching options x num_threads 0-2, compared with the reference interpreter run on the stream without the failing units; with skipping off: exception chain, no further data, sink closed, helper threads ended; failing source rows in front of every kind of first operator and of re-batching operators; aggregate / downstream-stage errors behind threaded stages followed by a bounded wait for the helper threads; threaded sinks with slow records; operator functions that return normally but whose result the operator cannot use (filter result without truth value), checkpoint + restore + dropped original with a shared sink (written once, closed once, nothing after close)',
        text='19k (chain, failure set, options) cases per quick run, 500k thorough.',
        note='Threaded runs compared as multisets. Two known findings recorded.'),
    'C16': dict(
        category='exploration', design_ref='DESIGN.md §3.4, §4 C16', engine='E4-simulated-courier',
        technique='runtime differential monitor over the simulated transport on real threads: generated pipelines run through sharded_pipelines_as_iterator and run_pipeline_interleaved on real WorkerPool/PrefetchedCourierServer objects and are compared (batch multiset, exactly one final aggregate, exact integer aggregators) with the in-process run and an independent plain-Python reference; merge_states with every wrong strict_states_cnt must raise; round-robin sources and worker-side threads in the generated pipelines; failing shards (application error, give-up after deadline) with inspection of what result_queue delivered after every raising run, concurrent pools with differing settings over shared servers; sharded runs with client max_parallelism 1-4',
        text='640 distributed runs per quick run (8k transport calls), 16k thorough; the thorough tier also runs the 186 upstream courier tests against the stand-in as a fidelity suite.',
        note='Fault-free; a case that misses a 120 s watchdog twice is reported as a hang.'),
    'C06': dict(
        category='fault_enumeration', design_ref='DESIGN.md §3.4, §4 C06', engine='E4-simulated-courier',
        technique='runtime monitoring with fault injection: real as_completed / WorkerPool.run / sharded_pipelines_as_iterator over real PrefetchedCourierServer workers on the simulated transport with a dilated clock; a fault plan assigns lost request / lost reply / slow-beyond-deadline / death before / death after / application error to the i-th data-plane call of each worker (all single faults on the first 4 calls of every faultable worker for W<=3 enumerated, pairs sampled); oracle over client-side delivery log vs fault-free reference: exactly-once task results, output batches at least once, exactly one final aggregate equal to the in-process one, application errors surface, workers released; two-phase scenarios (a worker pronounced dead rejoins; an aborted iterate) run a second pipeline through the affected worker only; interleaved runs with a failing in-process stage and ignore_error servers are checked for released workers and silent truncation; worker death / alive=False placed between the final reply of the worker and its processing by the client; application errors drawn from a family (coded user errors incl. code 4, ParseError, OSError) at the data-source site with small retry budgets',
        text='About 1k fault plans per quick run, 20k thorough, each executed against the real retry/heartbeat logic.',
        note='Trusted: transport stand-in and time dilation (S=60). One worker is never faulted. Known finding recorded: a next-batch handler that runs after its deadline can steal a batch from a re-initialised generator.'),
    'C20': dict(
        category='exploration', design_ref='DESIGN.md §3.2, §3.5, §4 C20', engine='E2-deterministic-scheduler',
        technique='runtime monitoring in four modes: (registry) fresh WorkerRegistry with a recording dict logging every mutation from inside its critical section, driven by controlled threads under the deterministic scheduler, offline checker for dead-stays-dead / monotone heartbeats / linearizable get; (liveness) CourierClient with stub futures and a settable clock, is_alive compared with a 10-line reference model over random histories with late completions; (ownership) pools sharing workers under the scheduler with pre-emption between check and act, belief-based single-owner log; (poolops) pool operations over the simulated transport must leave no worker acquired; pools whose first-listed workers are dead or busy, a second pool probing acquire during as_completed, and all delivery orders of pushed alive / dead heartbeats of several incarnations; ownership logged per server address with pools that differ in one setting, real-transport cross_pool case; WorkerPool.run() beside low-level calls held in flight on the same worker (max_parallelism 2-3)',
        text='3k registry schedules, 15k liveness queries, 6k ownership schedules and 48 pool operations per quick run; x30 thorough.',
        note='Trusted: scheduler shim, stub transport futures, fake clock.'),
    'C03': dict(
        category='exploration', design_ref='DESIGN.md §3.2, §3.3, §4 C03', engine='E2-deterministic-scheduler',
        technique='runtime differential monitor across execution strategies: the same generated pipeline (exact integer aggregators) runs single-threaded fused (reference, also against an independent plain-Python evaluation), with num_threads 1-4 under the deterministic scheduler (shard fan-out and shared thread-safe iterator, 26 explored schedules per configuration) and on native threads, as fused vs chained named stages, over make(shard=i/k) for all shards with merged states, and through the in-process interleaved stage runner; batch multisets and aggregates must agree; the final aggregate may be sliced per row (shards hold different slice keys), shard states are also merged from a one-shot iterable, sharded runs also use thread fan-out; scenario f: one failing aggregate in a random (also non-final) stage, fused / chained / threaded strategies with ignore_error on and off must agree on the outcome class and, when completed, on batches and aggregates; operator faults raised outside the skippable call (wrong output arity, non-batch result) in a non-final stage',
        text='40k strategy runs per quick run (10k explored schedules), 940k thorough.',
        note='Element-wise operators, pre-batched records, no re-batching, no sinks.'),
    'C10': dict(
        category='exploration', design_ref='DESIGN.md §4 C10',
        technique='runtime metamorphic monitor with enumerated crash points: data sources (plain, sharded, nested-sharded, merged, round-robin iterables) and pipelines over them (exact aggregators, sliced aggregates, chained aggregating stages, ignore_error sources, num_threads 0-3) are interrupted at every cut position for up to three successive checkpoints, restored through both APIs and every receiver, with the state passed as is / deep-copied / pickled; delivered-before + delivered-after and the final aggregate must equal the uninterrupted run; re-batching pipelines are checkpointed at every output batch; law from_state(s).state == s at every restore, chains of 100-1100 successive restores (bare sources, sharded, inside pipelines; states passed as is, deep-copied or pickled); shard paths with a level resumed at an offset before further sharding',
        text='283k cases per quick run (exhaustive for n<=10, all cut lists of 1-3 checkpoints), 3.1M thorough.',
        note='Threaded cases compare multisets under a watchdog. Three known findings recorded.'),
}

NOT_APPLICABLE = {}
ALL_IDS = [f'C{i:02d}' for i in range(1, 21)]


def main():
  checks = []
  for pid in sorted(CHECKS):
    c = CHECKS[pid]
    checks.append({
        'property_id': pid,
        'quick_cmd': f'./check {pid} --tier quick',
        'thorough_cmd': f'./check {pid} --tier thorough',
        'evidence_file': f'evidence/{pid}.json',
        'replay_cmd_template': f'./check {pid} --replay {{path}}',
        'engine': c.get('engine', 'E1-differential'),
        'level_claimed': {'category': c['category'], 'text': c['text'],
                          'design_ref': c['design_ref']},
        'level_note': c['note'],
        'technique': c['technique'],
    })
  manifest = {
      'version': 1,
      'setup_cmd': './setup.sh',
      'hooks': {
          'guard': 'ML_METRICS_VERIF',
          'enable': 'no source hooks: ./check sets ML_METRICS_VERIF=1 in the check processes and attaches all instrumentation from the harness (module-global shims, sys.monitoring, wrappers, simulated courier package on PYTHONPATH)',
          'baseline_off_cmd': 'cd /repo && /venv/bin/python -m pytest -ra -q -p no:cacheprovider --timeout=900 --continue-on-collection-errors',
          'source_commits': [],
          'add_only': True,
      },
      'engines': [
          {'name': 'E2-deterministic-scheduler', 'path': 'vlib/sched/', 'serves_properties': ['C03', 'C04', 'C05', 'C13', 'C15', 'C20'], 'kind_free_text': 'threading/futures shims + seeded scheduler (random walk, PCT) + sys.monitoring LINE yield injection; exact deadlock witnesses; replayable choice traces'},
          {'name': 'E4-simulated-courier', 'path': 'vlib/fakecourier/', 'serves_properties': ['C06', 'C14', 'C15', 'C16', 'C20'], 'kind_free_text': 'in-process stand-in for the Courier RPC surface the library uses, with call log, fault plans and time dilation'},
          {'name': 'E1-differential', 'path': 'vlib/runner.py', 'kind_free_text': 'seeded/exhaustive case generation, real API vs independent oracle or metamorphic twin, subprocess fan-out'},
      ],
      'checks': checks,
      'not_applicable': [
          {'property_id': k, 'reason': v} for k, v in sorted(NOT_APPLICABLE.items())
      ] + [
          {'property_id': p, 'reason': 'check not built yet (work in progress; see DESIGN.md §4 for the planned monitor)'}
          for p in ALL_IDS if p not in CHECKS and p not in NOT_APPLICABLE
      ],
      'notes': 'All checks: exit 0 held, 1 violation (VIOLATION line + replay file), 2 inconclusive (INCONCLUSIVE line). Known findings: known_findings.json.',
  }
  with open(os.path.join(HERE, 'MANIFEST.json'), 'w') as f:
    json.dump(manifest, f, indent=1)
    f.write('\n')


if __name__ == '__main__':
  main()
