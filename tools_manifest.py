"""Generates MANIFEST.json from the table below (kept as code so it stays valid)."""
import json
import os

HERE = os.path.dirname(os.path.abspath(__file__))

CHECKS = {
    'C09': dict(
        category='exploration', design_ref='DESIGN.md §4 C09',
        technique='runtime differential monitor: real SequenceDataSource/ShardedIterable/MergedSequences executed on an exhaustively enumerated small space (plus seeded random larger cases) against a plain-list oracle',
        text='Exhaustive-within-bounds execution of the real sharding and merged-sequence code with a list oracle: every (n,k) up to the bound, every 2-level nesting, every in-shard offset, every composition into possibly-empty parts x read-ahead sizes x every index and slice pair. Sharding arithmetic is pure and low-dimensional, so small exhaustive bounds plus random large cases are the right level.',
        note='Trusted: CPython list semantics as the oracle; behaviour beyond the explored bounds (n<=12/40 exhaustive, <=2000 random) is not covered.'),
    'C04': dict(
        category='exploration', design_ref='DESIGN.md §3.2, §4 C04', engine='E2-deterministic-scheduler',
        technique='runtime monitoring under a deterministic thread scheduler: the real IteratorQueue is driven by producer/consumer threads whose interleaving (at every lock/condition operation and at statement boundaries of the queue methods via sys.monitoring) is chosen by seeded random-walk/PCT strategies; an offline checker over the unique-id event log decides exactly-once, per-producer order, end-of-stream values; hangs are exact deadlock witnesses',
        text='Schedule exploration of the real queue code (about 19k schedules quick, about 1M thorough) with exact deadlock detection and an offline history checker. Unit tests sample one OS schedule each; this explores tens of thousands of distinct interleavings including pre-emption inside the release/re-acquire window.',
        note='Trusted: the scheduler shim (FIFO notify, no spurious wake-ups, re-entrant RLock), CPython queue classes; pre-emption granularity is a Python statement; only explored schedules are covered.'),
    'C05': dict(
        category='exploration', design_ref='DESIGN.md §3.2, §4 C05', engine='E2-deterministic-scheduler',
        technique='as C04, with enumerated fault positions: every (producer, position) iterator failure, every stop point with/without exception, starvation with a timeout; offline checker over the event log (every consumer sees the failure, no duplicates, all producers return) plus exact deadlock witnesses',
        text='Every failure position and stop point of every generated configuration is combined with several explored schedules; a timed wait may only expire under global starvation, so a masked lost wake-up shows up as an unexpected TimeoutError.',
        note='As C04. Elements still queued when a failure is observed may be dropped (the property only forbids duplicates).'),
    'C13': dict(
        category='exploration', design_ref='DESIGN.md §3.2, §4 C13', engine='E2-deterministic-scheduler',
        technique='runtime monitoring under the deterministic scheduler with a shim thread-pool executor: piter_multiplex/piter_fn/piter/pmap/MultiplexIterator run to exhaustion, to every early-stop position and to every failure position; oracle = multiset equality with the sequential evaluation, generator return values, pool shut-down flags and exact all-threads-finished / deadlock witnesses',
        text='Explores thousands of schedules per tier of the real parallel-iteration code; thread release is decided exactly (every controlled worker finished, library-owned pool shut down) instead of by thread enumeration after a sleep.',
        note='As C04; element-wise iterator functions; implicit pools only have to end idle. Known finding recorded: piter with several inputs leaves the upstream queue producers blocked on early stop/failure.'),
}

NOT_APPLICABLE = {}
ALL_IDS = [f'C{i:02d}' for i in range(1, 21)]


def main():
  checks = []
  for pid in sorted(CHECKS):
    c = CHECKS[pid]
    checks.append({
        'property_id': pid,
        'quick_cmd': f'./check {pid} --tier quick',
        'thorough_cmd': f'./check {pid} --tier thorough',
        'evidence_file': f'evidence/{pid}.json',
        'replay_cmd_template': f'./check {pid} --replay {{path}}',
        'engine': c.get('engine', 'E1-differential'),
        'level_claimed': {'category': c['category'], 'text': c['text'],
                          'design_ref': c['design_ref']},
        'level_note': c['note'],
        'technique': c['technique'],
    })
  manifest = {
      'version': 1,
      'setup_cmd': './setup.sh',
      'hooks': {
          'guard': 'ML_METRICS_VERIF',
          'enable': 'no source hooks: ./check sets ML_METRICS_VERIF=1 in the check processes and attaches all instrumentation from the harness (module-global shims, sys.monitoring, wrappers, simulated courier package on PYTHONPATH)',
          'baseline_off_cmd': 'cd /repo && /venv/bin/python -m pytest -ra -q -p no:cacheprovider --timeout=900 --continue-on-collection-errors',
          'source_commits': [],
          'add_only': True,
      },
      'engines': [
          {'name': 'E2-deterministic-scheduler', 'path': 'vlib/sched/', 'serves_properties': ['C03', 'C04', 'C05', 'C13', 'C15', 'C20'], 'kind_free_text': 'threading/futures shims + seeded scheduler (random walk, PCT) + sys.monitoring LINE yield injection; exact deadlock witnesses; replayable choice traces'},
          {'name': 'E1-differential', 'path': 'vlib/runner.py', 'kind_free_text': 'seeded/exhaustive case generation, real API vs independent oracle or metamorphic twin, subprocess fan-out'},
      ],
      'checks': checks,
      'not_applicable': [
          {'property_id': k, 'reason': v} for k, v in sorted(NOT_APPLICABLE.items())
      ] + [
          {'property_id': p, 'reason': 'check not built yet (work in progress; see DESIGN.md §4 for the planned monitor)'}
          for p in ALL_IDS if p not in CHECKS and p not in NOT_APPLICABLE
      ],
      'notes': 'All checks: exit 0 held, 1 violation (VIOLATION line + replay file), 2 inconclusive (INCONCLUSIVE line). Known findings: known_findings.json.',
  }
  with open(os.path.join(HERE, 'MANIFEST.json'), 'w') as f:
    json.dump(manifest, f, indent=1)
    f.write('\n')


if __name__ == '__main__':
  main()
