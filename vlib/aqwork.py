"""AsyncIteratorQueue workloads on real threads + an asyncio loop (engine E3).

The async queue is what the interleaved stage runner uses between stages:
async producers (`async_enqueue_from_iterator` over async generators, as remote
iterators are) enqueue through a thread pool while sync or async consumers
dequeue.  The deterministic scheduler cannot host an event loop, so these run
natively with seeded micro-delays; a watchdog expiry is retried once.
"""

from __future__ import annotations

import asyncio
import concurrent.futures as cf
import random
import threading
import time


class InjectedError(Exception):
  pass


def run_async_case(case, watchdog_s=30.0):
  """Returns (finished, log). case: P, lens, C, cap, consumers kind, fault."""
  from ml_metrics._src.utils import iter_utils
  P, lens, C, cap = case['P'], case['lens'], case['C'], case['cap']
  fault = case.get('fault')
  rng = random.Random(case.get('delay_seed', 0))
  delays = [rng.choice([0, 0, 0.0005, 0.002]) for _ in range(64)]
  log = []
  lock = threading.Lock()

  def rec(*e):
    with lock:
      log.append(e)

  pool = cf.ThreadPoolExecutor(max_workers=P + C + 4, thread_name_prefix='aq')
  q = iter_utils.AsyncIteratorQueue(cap, name='aq', thread_pool=pool,
                                    timeout=case.get('timeout'))

  async def agen(p):
    n = lens[p]
    if fault and fault['p'] != p and case.get('endless_others'):
      # The other producers have (practically) endless sources: only a producer
      # that notices the failure stops pulling from them.
      n = 3000
    for i in range(n):
      if fault and fault['p'] == p and fault['at'] == i:
        rec('fail', p, i)
        raise InjectedError(f'p{p}@{i}')
      d = delays[(p * 7 + i) % len(delays)] if i < 40 else 0
      if d:
        await asyncio.sleep(d)
      elif i % 16 == 15:
        await asyncio.sleep(0)
      rec('produce', p, i)
      yield (p, i)
    if fault and fault['p'] == p and fault['at'] == n:
      rec('fail', p, n)
      raise InjectedError(f'p{p}@{n}')

  async def producer(p):
    try:
      await q.async_enqueue_from_iterator(agen(p))
      rec('prod_return', p)
    except BaseException as e:  # pylint: disable=broad-exception-caught
      rec('prod_raise', p, type(e).__name__)

  async def aconsumer(c):
    try:
      async for v in q:
        rec('recv', c, v[0], v[1])
      rec('end', c, 'stop', ())
    except BaseException as e:  # pylint: disable=broad-exception-caught
      rec('end', c, 'exc', type(e).__name__)

  def sconsumer(c, mode):
    try:
      while True:
        if mode == 'get':
          vals = [q.get()]
        else:
          vals = q.get_batch(2, block=(mode == 'batch_b'))
        for v in vals:
          rec('recv', c, v[0], v[1])
        d = delays[(c * 13 + len(vals)) % len(delays)]
        if d:
          time.sleep(d)
    except StopIteration as e:
      rec('end', c, 'stop', tuple(e.args))
    except BaseException as e:  # pylint: disable=broad-exception-caught
      rec('end', c, 'exc', type(e).__name__)

  loop = asyncio.new_event_loop()
  lt = threading.Thread(target=loop.run_forever, daemon=True, name='aq-loop')
  lt.start()
  futs = []
  threads = []
  try:
    async def start_producers():
      return [asyncio.ensure_future(producer(p)) for p in range(P)]

    tasks = asyncio.run_coroutine_threadsafe(start_producers(), loop).result(10)
    modes = case['modes']
    for c in range(C):
      m = modes[c % len(modes)]
      if m == 'async':
        futs.append(asyncio.run_coroutine_threadsafe(aconsumer(c), loop))
      else:
        t = threading.Thread(target=sconsumer, args=(c, m), daemon=True, name=f'aq-c{c}')
        t.start()
        threads.append(t)
    deadline = time.time() + watchdog_s
    for f in futs:
      try:
        f.result(max(0.1, deadline - time.time()))
      except Exception:  # pylint: disable=broad-exception-caught
        pass
    for t in threads:
      t.join(max(0.1, deadline - time.time()))

    async def wait_tasks():
      await asyncio.wait(tasks, timeout=max(0.1, deadline - time.time()))
      return [t.done() for t in tasks]

    done = asyncio.run_coroutine_threadsafe(wait_tasks(), loop).result(watchdog_s + 5)
    finished = (all(done) and all(f.done() for f in futs)
                and not any(t.is_alive() for t in threads))
  finally:
    loop.call_soon_threadsafe(loop.stop)
    pool.shutdown(wait=False, cancel_futures=True)
  with lock:
    return finished, list(log)


def analyse(case, log):
  P, C, lens = case['P'], case['C'], case['lens']
  fault = case.get('fault')
  out = []
  produced = {(e[1], e[2]) for e in log if e[0] == 'produce'}
  recv = [(e[1], e[2], e[3]) for e in log if e[0] == 'recv']
  ids = [(p, i) for (_, p, i) in recv]
  if len(set(ids)) != len(ids):
    out.append(('duplicate', sorted({x for x in ids if ids.count(x) > 1})[:5]))
  if not set(ids) <= produced:
    out.append(('phantom', sorted(set(ids) - produced)[:5]))
  last = {}
  for (c, p, i) in recv:
    if last.get((c, p), -1) >= i:
      out.append(('order', {'consumer': c, 'producer': p, 'got': i}))
      break
    last[(c, p)] = i
  ends = {e[1]: e for e in log if e[0] == 'end'}
  if not fault:
    want = {(p, i) for p in range(P) for i in range(lens[p])}
    if set(ids) != want:
      out.append(('lost', sorted(want - set(ids))[:5]))
    for c in range(C):
      e = ends.get(c)
      if e is None:
        out.append(('consumer_no_end', c))
      elif e[2] != 'stop':
        out.append(('consumer_bad_end', e[1:]))
    for p in range(P):
      if ('prod_return', p) not in log:
        out.append(('producer_no_return', p))
  else:
    for c in range(C):
      e = ends.get(c)
      if e is None:
        out.append(('consumer_no_end', c))
      elif e[2] == 'stop':
        out.append(('clean_end_after_failure', c))
      elif e[3] != 'InjectedError':
        out.append(('wrong_exception', e[1:]))
    for p in range(P):
      if not any(e[0] in ('prod_return', 'prod_raise') and e[1] == p for e in log):
        out.append(('producer_no_return', p))
    if case.get('endless_others') and any(e[0] == 'fail' for e in log):
      # After the failure was recorded a producer may finish the put it is in and
      # look at the queue once more; it must not keep draining its source.
      at = max(i for i, e in enumerate(log) if e[0] == 'fail')
      for p in range(P):
        if p == fault['p']:
          continue
        late = sum(1 for e in log[at:] if e[0] == 'produce' and e[1] == p)
        if late > case['cap'] + 50:
          out.append(('producer_keeps_pulling_after_failure',
                      {'producer': p, 'pulled_after_failure': late}))
  return out
