"""AsyncIteratorQueue workloads on real threads + an asyncio loop (engine E3).

The async queue is what the interleaved stage runner uses between stages:
async producers (`async_enqueue_from_iterator` over async generators, as remote
iterators are) enqueue through a thread pool while sync or async consumers
dequeue.  The deterministic scheduler cannot host an event loop, so these run
natively with seeded micro-delays; a watchdog expiry is retried once.
"""

from __future__ import annotations

import asyncio
import concurrent.futures as cf
import random
import threading
import time


class InjectedError(Exception):
  pass


def run_async_case(case, watchdog_s=30.0):
  """Returns (finished, log). case: P, lens, C, cap, consumers kind, fault.

  Scenario cases (case['scn']):
    'cancel'   - case['cancel'] = {'p', 'at', 'where'}: the task of producer p is cancelled
                 when its source reaches element `at`, either while the source is awaited
                 ('anext') or while the element is being put ('put').
    'numsteps' - consumers 'aiter_n' (async_dequeue_as_iterator(num_steps=k)) / 'iter_n'
                 (the sync twin dequeue_as_iterator(num_steps=k)), k = case['num_steps'][c];
                 producers are asyncio tasks or (case['prod_kind'] == 'thread') threads
                 running enqueue_from_iterator; sources are practically endless.
    'awaitable' - case['late'][p] = None | ['yields', k] | ['sleep', seconds]: producer p hands
                 async_enqueue_from_iterator an AWAITABLE that resolves to its source after k
                 event-loop yields / a delay (as orchestrate does with worker.async_iter(...));
                 case['iterables'][p]: the source is a plain async iterable (aiter() needed).
                 Sources have return values (StopAsyncIteration('r<p>')); async consumers
                 record the arguments of the end of stream.
  For these the log ends with a ('final', {...}) snapshot of the queue / task state.
  """
  from ml_metrics._src.utils import iter_utils
  P, lens, C, cap = case['P'], case['lens'], case['C'], case['cap']
  fault = case.get('fault')
  scn = case.get('scn')
  cancel = case.get('cancel')
  thread_producers = case.get('prod_kind') == 'thread'
  rng = random.Random(case.get('delay_seed', 0))
  delays = [rng.choice([0, 0, 0.0005, 0.002]) for _ in range(64)]
  log = []
  lock = threading.Lock()

  def rec(*e):
    with lock:
      log.append(e)

  pool = cf.ThreadPoolExecutor(max_workers=P + C + 4, thread_name_prefix='aq')
  q = iter_utils.AsyncIteratorQueue(cap, name='aq', thread_pool=pool,
                                    timeout=case.get('timeout'))

  async def agen(p):
    n = lens[p]
    if fault and fault['p'] != p and case.get('endless_others'):
      # The other producers have (practically) endless sources: only a producer
      # that notices the failure stops pulling from them.
      n = 3000
    for i in range(n):
      if fault and fault['p'] == p and fault['at'] == i:
        rec('fail', p, i)
        raise InjectedError(f'p{p}@{i}')
      if cancel and cancel['p'] == p and cancel['at'] == i:
        # The enqueue task is cancelled from outside (a dropped worker, a wait_for
        # around it, a TaskGroup sibling failing...). call_soon: the cancellation is
        # delivered at the task's next suspension point.
        rec('cancel', p, i, cancel['where'])
        asyncio.get_running_loop().call_soon(tasks[p].cancel)
        if cancel['where'] == 'anext':
          await asyncio.sleep(3600)
        # 'put': no suspension before the element is handed over, so the cancellation
        # arrives while the task awaits async_put(element).
        rec('produce', p, i)
        yield (p, i)
        continue
      d = delays[(p * 7 + i) % len(delays)] if i < 40 else 0
      if d:
        await asyncio.sleep(d)
      elif i % 16 == 15:
        await asyncio.sleep(0)
      rec('produce', p, i)
      yield (p, i)
    if fault and fault['p'] == p and fault['at'] == n:
      rec('fail', p, n)
      raise InjectedError(f'p{p}@{n}')

  late = case.get('late') or [None] * P
  iterables = case.get('iterables') or [False] * P

  class Source:
    """An async iterator with a return value, as a remote iterator has."""

    def __init__(self, p):
      self.p, self.i = p, 0

    def __aiter__(self):
      return self

    async def __anext__(self):
      p, i = self.p, self.i
      d = delays[(p * 7 + i) % len(delays)]
      if d:
        await asyncio.sleep(d)
      elif i % 4 == 3:
        await asyncio.sleep(0)
      if i == lens[p]:
        raise StopAsyncIteration(f'r{p}')
      self.i += 1
      rec('produce', p, i)
      return (p, i)

  class SourceIterable:

    def __init__(self, p):
      self.p = p

    def __aiter__(self):
      return Source(self.p)

  async def resolves_later(p, source):
    how, v = late[p]
    if how == 'yields':
      for _ in range(v):
        await asyncio.sleep(0)
    else:
      await asyncio.sleep(v)
    # Registration follows in the same event-loop step. If the queue already regards the
    # enqueueing as finished here, the producers registered so far were taken for all.
    rec('resolved', p, bool(q.enqueue_done or q.exhausted))
    return source

  def make_source(p):
    if scn != 'awaitable':
      return agen(p)
    source = SourceIterable(p) if iterables[p] else Source(p)
    return resolves_later(p, source) if late[p] else source

  async def producer(p):
    try:
      await q.async_enqueue_from_iterator(make_source(p))
      rec('prod_return', p)
    except BaseException as e:  # pylint: disable=broad-exception-caught
      rec('prod_raise', p, type(e).__name__)

  def sgen(p):
    for i in range(lens[p]):
      d = delays[(p * 7 + i) % len(delays)] if i < 40 else 0
      if d:
        time.sleep(d)
      rec('produce', p, i)
      yield (p, i)

  def tproducer(p):
    try:
      q.enqueue_from_iterator(sgen(p))
      rec('prod_return', p)
    except BaseException as e:  # pylint: disable=broad-exception-caught
      rec('prod_raise', p, type(e).__name__)

  async def aconsumer_n(c, k):
    try:
      async for v in q.async_dequeue_as_iterator(num_steps=k):
        rec('recv', c, v[0], v[1])
      rec('end', c, 'stop', ())
    except BaseException as e:  # pylint: disable=broad-exception-caught
      rec('end', c, 'exc', type(e).__name__)

  def sconsumer_n(c, k):
    try:
      for v in q.dequeue_as_iterator(num_steps=k):
        rec('recv', c, v[0], v[1])
      rec('end', c, 'stop', ())
    except BaseException as e:  # pylint: disable=broad-exception-caught
      rec('end', c, 'exc', type(e).__name__)

  async def aconsumer(c):
    try:
      async for v in q:
        rec('recv', c, v[0], v[1])
      rec('end', c, 'stop', ())
    except BaseException as e:  # pylint: disable=broad-exception-caught
      rec('end', c, 'exc', type(e).__name__)

  async def aconsumer_rv(c):
    # Like aconsumer, but keeps the arguments of the end of stream (the return values).
    it = q.async_dequeue_as_iterator()
    try:
      while True:
        v = await it.__anext__()
        rec('recv', c, v[0], v[1])
    except StopAsyncIteration as e:
      rec('end', c, 'stop', tuple(e.args))
    except BaseException as e:  # pylint: disable=broad-exception-caught
      rec('end', c, 'exc', type(e).__name__)

  def sconsumer(c, mode):
    try:
      while True:
        if mode == 'get':
          vals = [q.get()]
        else:
          vals = q.get_batch(2, block=(mode == 'batch_b'))
        for v in vals:
          rec('recv', c, v[0], v[1])
        d = delays[(c * 13 + len(vals)) % len(delays)]
        if d:
          time.sleep(d)
    except StopIteration as e:
      rec('end', c, 'stop', tuple(e.args))
    except BaseException as e:  # pylint: disable=broad-exception-caught
      rec('end', c, 'exc', type(e).__name__)

  loop = asyncio.new_event_loop()
  lt = threading.Thread(target=loop.run_forever, daemon=True, name='aq-loop')
  lt.start()
  futs = []
  threads = []
  tasks = []
  finished = False
  try:
    async def start_producers():
      if thread_producers:
        return
      tasks.extend(asyncio.ensure_future(producer(p)) for p in range(P))

    asyncio.run_coroutine_threadsafe(start_producers(), loop).result(10)
    if thread_producers:
      for p in range(P):
        t = threading.Thread(target=tproducer, args=(p,), daemon=True, name=f'aq-p{p}')
        t.start()
        threads.append(t)
    modes = case['modes']
    for c in range(C):
      m = modes[c % len(modes)]
      if m == 'async':
        futs.append(asyncio.run_coroutine_threadsafe(
            aconsumer_rv(c) if scn == 'awaitable' else aconsumer(c), loop))
      elif m == 'aiter_n':
        futs.append(asyncio.run_coroutine_threadsafe(
            aconsumer_n(c, case['num_steps'][c]), loop))
      elif m == 'iter_n':
        t = threading.Thread(target=sconsumer_n, args=(c, case['num_steps'][c]),
                             daemon=True, name=f'aq-c{c}')
        t.start()
        threads.append(t)
      else:
        t = threading.Thread(target=sconsumer, args=(c, m), daemon=True, name=f'aq-c{c}')
        t.start()
        threads.append(t)
    deadline = time.time() + watchdog_s
    for f in futs:
      try:
        f.result(max(0.1, deadline - time.time()))
      except Exception:  # pylint: disable=broad-exception-caught
        pass
    for t in threads:
      t.join(max(0.1, deadline - time.time()))

    async def wait_tasks():
      if tasks:
        await asyncio.wait(tasks, timeout=max(0.1, deadline - time.time()))
      return [t.done() for t in tasks]

    done = asyncio.run_coroutine_threadsafe(wait_tasks(), loop).result(watchdog_s + 5)
    finished = (all(done) and all(f.done() for f in futs)
                and not any(t.is_alive() for t in threads))
    if scn:
      rec('final', {
          'enqueue_done': bool(q.enqueue_done),
          'exception': type(q.exception).__name__ if q.exception is not None else None,
          'exhausted': bool(q.exhausted),
          'producer_tasks_done': list(done),
          'consumer_coroutines_done': [f.done() for f in futs],
          'threads_alive': [t.name for t in threads if t.is_alive()],
      })
  finally:
    if scn and not finished:
      # The verdict is taken; release whatever is still parked in the queue.
      try:
        q.maybe_stop()
      except Exception:  # pylint: disable=broad-exception-caught
        pass
    loop.call_soon_threadsafe(loop.stop)
    pool.shutdown(wait=False, cancel_futures=True)
  with lock:
    return finished, list(log)


MECH_CANCELLED_ENQUEUER = 'cancelled-async-enqueuer-never-unregistered'
MECH_ASYNC_NUM_STEPS = 'async-num-steps-does-not-stop-queue'
MECH_LATE_REGISTRATION = 'async-producer-registered-after-await-premature-end'


def _final(log):
  for e in reversed(log):
    if e[0] == 'final':
      return e[1]
  return {}


def classify_hang(case, log):
  """Key of a case that did not complete within the watchdog twice (by scenario + state)."""
  scn = case.get('scn')
  fin = _final(log)
  ends = {e[1]: e for e in log if e[0] == 'end'}
  prod = {e[1]: e for e in log if e[0] in ('prod_return', 'prod_raise')}
  if scn == 'cancel':
    p = case['cancel']['p']
    # The cancelled task is gone, every other producer returned, nothing was recorded
    # on the queue and it still counts a running enqueuer: nobody is left to wake the
    # consumers.
    if (prod.get(p, (None, None, None))[0] == 'prod_raise' and prod[p][2] == 'CancelledError'
        and all(prod.get(o, (None,))[0] == 'prod_return' for o in range(case['P']) if o != p)
        and fin.get('enqueue_done') is False and fin.get('exception') is None):
      return MECH_CANCELLED_ENQUEUER
  if scn == 'numsteps':
    # Every consumer ended, an async num_steps consumer took all its elements, no sync
    # num_steps consumer got as far as stopping the queue, and the queue was never stopped.
    n_recv = {c: sum(1 for e in log if e[0] == 'recv' and e[1] == c) for c in range(case['C'])}
    modes, ks = case['modes'], case['num_steps']
    full = [c for c in range(case['C']) if c in ends and n_recv[c] == ks[c]]
    if (len(ends) == case['C'] and fin.get('enqueue_done') is False
        and any(modes[c] == 'aiter_n' for c in full)
        and not any(modes[c] == 'iter_n' for c in full)):
      return MECH_ASYNC_NUM_STEPS
  if scn == 'awaitable':
    # The queue counted as done before the awaitable of a producer had resolved, every
    # consumer was told the stream had ended; that producer's task is the one that is not
    # done (parked in put()).
    cut = premature_end(case, log)
    done = fin.get('producer_tasks_done') or []
    stuck = [p for p, d in enumerate(done) if not d]
    if (cut and stuck and set(stuck) <= set(cut) and len(ends) == case['C']
        and all(e[2] == 'stop' for e in ends.values())):
      return MECH_LATE_REGISTRATION
  return f'{scn}:async-queue-hang' if scn else 'async-queue-hang'


def premature_end(case, log):
  """Producers given as awaitables that resolved when the queue already counted as done.

  (The position of a consumer's 'end' record says nothing here: on native threads it is
  written some time after the queue decided on the end of the stream.)
  """
  late = case.get('late') or []
  if case['P'] < 2:
    return []
  return sorted({e[1] for e in log if e[0] == 'resolved' and e[2] and late[e[1]]})


def analyse_awaitable(case, log):
  """Producers given as awaitables: the fault-free oracle, with return values.

  Returns (kind, detail, mechanism) triples; the key is MECH_LATE_REGISTRATION only when the
  record shows that the queue counted as done before such a producer's awaitable resolved
  and the finding concerns exactly those producers.
  """
  P, C, lens = case['P'], case['C'], case['lens']
  out = []
  _, got = _stream_checks(log, out)
  out = [(k, d, f'awaitable:async-queue-{k}') for k, d in out]
  cut = premature_end(case, log)

  def key(kind, producers):
    if cut and producers and set(producers) <= set(cut):
      return MECH_LATE_REGISTRATION
    return f'awaitable:async-queue-{kind}'

  want = {(p, i) for p in range(P) for i in range(lens[p])}
  if got != want:
    lost = sorted(want - got)
    out.append(('lost', lost[:5], key('lost', {p for p, _ in lost})))
  ends = {e[1]: e for e in log if e[0] == 'end'}
  for c in range(C):
    e = ends.get(c)
    if e is None:
      out.append(('consumer_no_end', c, key('consumer_no_end', [])))
    elif e[2] != 'stop':
      out.append(('consumer_bad_end', e[1:], key('consumer_bad_end', [])))
    else:
      have = sorted(map(str, e[3]))
      if have != sorted(f'r{p}' for p in range(P)):
        missing = [p for p in range(P) if f'r{p}' not in have]
        extra = len(have) != len(set(have)) or not set(have) <= {f'r{p}' for p in range(P)}
        out.append(('returned_values', {'consumer': c, 'got': list(e[3])},
                    key('returned_values', [] if extra else missing)))
  for p in range(P):
    if ('prod_return', p) not in log:
      out.append(('producer_no_return', p, key('producer_no_return', [p])))
  return out


def _stream_checks(log, out):
  produced = {(e[1], e[2]) for e in log if e[0] == 'produce'}
  recv = [(e[1], e[2], e[3]) for e in log if e[0] == 'recv']
  ids = [(p, i) for (_, p, i) in recv]
  if len(set(ids)) != len(ids):
    out.append(('duplicate', sorted({x for x in ids if ids.count(x) > 1})[:5]))
  if not set(ids) <= produced:
    out.append(('phantom', sorted(set(ids) - produced)[:5]))
  last = {}
  for (c, p, i) in recv:
    if last.get((c, p), -1) >= i:
      out.append(('order', {'consumer': c, 'producer': p, 'got': i}))
      break
    last[(c, p)] = i
  return produced, set(ids)


def analyse_cancel(case, log):
  """A cancelled enqueue task: everybody ends; a clean end loses nothing of the others."""
  P, C, lens = case['P'], case['C'], case['lens']
  cp, at = case['cancel']['p'], case['cancel']['at']
  out = []
  _, got = _stream_checks(log, out)
  ends = {e[1]: e for e in log if e[0] == 'end'}
  for c in range(C):
    if c not in ends:
      out.append(('consumer_no_end', c))
  for p in range(P):
    e = [x for x in log if x[0] in ('prod_return', 'prod_raise') and x[1] == p]
    if not e:
      out.append(('producer_no_return', p))
    elif p != cp and e[0][0] != 'prod_return' and all(x[2] == 'stop' for x in ends.values()):
      out.append(('other_producer_raised', e[0][1:]))
  if ends and all(e[2] == 'stop' for e in ends.values()) and len(ends) == C:
    # Nobody was told about an error: only the cancelled producer's tail may be missing
    # (the element in flight at the cancellation may or may not have been put).
    want = {(p, i) for p in range(P) for i in range(lens[p]) if p != cp or i < at}
    if not want <= got:
      out.append(('lost', sorted(want - got)[:5]))
  fin = _final(log)
  if fin and not fin.get('enqueue_done'):
    out.append(('enqueue_not_done_at_end', fin))
  return out


def analyse_numsteps(case, log):
  """Early stop by num_steps: consumers get at most k in order, the queue is stopped."""
  P, C = case['P'], case['C']
  out = []
  _stream_checks(log, out)
  ends = {e[1]: e for e in log if e[0] == 'end'}
  n_recv = {c: sum(1 for e in log if e[0] == 'recv' and e[1] == c) for c in range(C)}
  for c in range(C):
    e = ends.get(c)
    if e is None:
      out.append(('consumer_no_end', c))
    elif e[2] != 'stop':
      out.append(('consumer_bad_end', e[1:]))
    if n_recv[c] > case['num_steps'][c]:
      out.append(('more_than_num_steps', {'consumer': c, 'got': n_recv[c]}))
  if not any(n_recv[c] == case['num_steps'][c] for c in range(C)):
    # The sources are practically endless: somebody must get all the steps asked for.
    out.append(('early_end', n_recv))
  for p in range(P):
    e = [x for x in log if x[0] in ('prod_return', 'prod_raise') and x[1] == p]
    if not e:
      out.append(('producer_no_return', p))
    elif e[0][0] != 'prod_return':
      out.append(('producer_raised_on_stop', e[0][1:]))
  fin = _final(log)
  if fin and not fin.get('enqueue_done'):
    out.append(('enqueue_not_done_at_end', fin))
  return out


def analyse(case, log):
  if case.get('scn') == 'cancel':
    return analyse_cancel(case, log)
  if case.get('scn') == 'numsteps':
    return analyse_numsteps(case, log)
  P, C, lens = case['P'], case['C'], case['lens']
  fault = case.get('fault')
  out = []
  produced = {(e[1], e[2]) for e in log if e[0] == 'produce'}
  recv = [(e[1], e[2], e[3]) for e in log if e[0] == 'recv']
  ids = [(p, i) for (_, p, i) in recv]
  if len(set(ids)) != len(ids):
    out.append(('duplicate', sorted({x for x in ids if ids.count(x) > 1})[:5]))
  if not set(ids) <= produced:
    out.append(('phantom', sorted(set(ids) - produced)[:5]))
  last = {}
  for (c, p, i) in recv:
    if last.get((c, p), -1) >= i:
      out.append(('order', {'consumer': c, 'producer': p, 'got': i}))
      break
    last[(c, p)] = i
  ends = {e[1]: e for e in log if e[0] == 'end'}
  if not fault:
    want = {(p, i) for p in range(P) for i in range(lens[p])}
    if set(ids) != want:
      out.append(('lost', sorted(want - set(ids))[:5]))
    for c in range(C):
      e = ends.get(c)
      if e is None:
        out.append(('consumer_no_end', c))
      elif e[2] != 'stop':
        out.append(('consumer_bad_end', e[1:]))
    for p in range(P):
      if ('prod_return', p) not in log:
        out.append(('producer_no_return', p))
  else:
    for c in range(C):
      e = ends.get(c)
      if e is None:
        out.append(('consumer_no_end', c))
      elif e[2] == 'stop':
        out.append(('clean_end_after_failure', c))
      elif e[3] != 'InjectedError':
        out.append(('wrong_exception', e[1:]))
    for p in range(P):
      if not any(e[0] in ('prod_return', 'prod_raise') and e[1] == p for e in log):
        out.append(('producer_no_return', p))
    if case.get('endless_others') and any(e[0] == 'fail' for e in log):
      # After the failure was recorded a producer may finish the put it is in and
      # look at the queue once more; it must not keep draining its source.
      at = max(i for i, e in enumerate(log) if e[0] == 'fail')
      for p in range(P):
        if p == fault['p']:
          continue
        late = sum(1 for e in log[at:] if e[0] == 'produce' and e[1] == p)
        if late > case['cap'] + 50:
          out.append(('producer_keeps_pulling_after_failure',
                      {'producer': p, 'pulled_after_failure': late}))
  return out


# ---------------------------------------------------------------------------
# 'tightpool' scenario (fourth seed round, C05d)
# ---------------------------------------------------------------------------
MECH_TIGHT_POOL = 'tightpool:stop-request-does-not-release-enqueuers-holding-every-pool-thread'


def run_tight_pool_case(case, watchdog_s):
  """A stop request while every thread of the queue's own executor is blocked in put().

  The executor given to the AsyncIteratorQueue has exactly P threads for P >= 2 async
  enqueuers with endless sources. One async consumer (num_steps = 1) asks FIRST - its get
  holds one thread until the first element arrives, so the run never depends on a get
  queued behind blocked puts - then pauses until the buffer is full and all P enqueuers
  sit in put(), and asks again: this step is behind num_steps, i.e. the stop request.

  Returns (status, record): status 'ok' | 'setup' (the all-blocked state was not reached:
  inconclusive) | 'hang' (the stop did not return / enqueuers still blocked after the
  watchdog).
  """
  from ml_metrics._src.utils import iter_utils
  P, cap = case['P'], case['cap']
  rng = random.Random(case.get('delay_seed', 0))
  naps = [rng.choice([0, 0.0005, 0.002]) for _ in range(16)]
  pool = cf.ThreadPoolExecutor(max_workers=P, thread_name_prefix='aqt')
  q = iter_utils.AsyncIteratorQueue(cap, name='aqt', thread_pool=pool)
  rec = {'P': P, 'cap': cap}

  async def source(p):
    i = 0
    while True:
      await asyncio.sleep(naps[(p * 5 + i) % len(naps)])
      yield (p, i)
      i += 1

  async def main():
    consumer = q.async_dequeue_as_iterator(num_steps=1)
    first_task = asyncio.ensure_future(consumer.__anext__())
    await asyncio.sleep(0.05)
    enq = [asyncio.ensure_future(q.async_enqueue_from_iterator(source(p))) for p in range(P)]
    try:
      rec['first'] = await asyncio.wait_for(first_task, max(watchdog_s, 30.0))
    except Exception as e:  # pylint: disable=broad-exception-caught
      rec['first_error'] = repr(e)
      return 'setup', enq
    # all P enqueuers in put(): the buffer is full and P more elements are in hand
    deadline = time.monotonic() + max(watchdog_s, 30.0)   # generous: reaching the state is not judged
    def blocked():
      return q._queue.full() and getattr(pool, '_work_queue').qsize() == 0 and len(  # pylint: disable=protected-access
          [t for t in getattr(pool, '_threads') if t.is_alive()]) == P
    while time.monotonic() < deadline and not blocked():
      await asyncio.sleep(0.01)
    await asyncio.sleep(0.3)
    rec['buffer_full'] = bool(q._queue.full())  # pylint: disable=protected-access
    rec['enqueuers_done_before_stop'] = [t.done() for t in enq]
    if not rec['buffer_full'] or any(t.done() for t in enq):
      return 'setup', enq
    t0 = time.monotonic()
    try:
      await asyncio.wait_for(consumer.__anext__(), watchdog_s)
      rec['second_step'] = 'yielded'
    except StopAsyncIteration:
      rec['second_step'] = 'stopped'
    except asyncio.TimeoutError:
      rec['second_step'] = 'no-return'
    except Exception as e:  # pylint: disable=broad-exception-caught
      rec['second_step'] = 'raised ' + repr(e)
    rec['stop_took_s'] = round(time.monotonic() - t0, 3)
    _, pending = await asyncio.wait(enq, timeout=max(1.0, watchdog_s / 2))
    rec['enqueuers_still_blocked'] = len(pending)
    rec['enqueue_done'] = bool(q.enqueue_done)
    return ('ok' if rec['second_step'] == 'stopped' and not pending else 'hang'), enq

  loop = asyncio.new_event_loop()
  status = 'setup'
  try:
    status, enq = loop.run_until_complete(main())
  finally:
    try:
      q.maybe_stop()          # the verdict is taken: release whatever is still parked
    except Exception:  # pylint: disable=broad-exception-caught
      pass
    try:
      loop.run_until_complete(asyncio.sleep(0.05))
      for t in asyncio.all_tasks(loop):
        t.cancel()
      loop.run_until_complete(asyncio.sleep(0))
    except Exception:  # pylint: disable=broad-exception-caught
      pass
    pool.shutdown(wait=False, cancel_futures=True)
    loop.close()
  return status, rec
