"""Module-level pipeline definitions for the distributed checks (C16, C06).

Everything shipped to a "remote" worker is importable here, so cloudpickle
ships it by reference.
"""

from __future__ import annotations

import time


class SumCount:
  """Exact integer aggregator (Aggregatable protocol): [sum, count, xor]."""

  def create_state(self):
    return [0, 0, 0]

  def update_state(self, state, xs):
    s, c, x = state
    for v in xs:
      s += v
      c += 1
      x ^= (v * 2654435761) & 0xFFFFFFFF
    return [s, c, x]

  def merge_states(self, states):
    s = c = x = 0
    for st in states:
      s += st[0]
      c += st[1]
      x ^= st[2]
    return [s, c, x]

  def get_result(self, state):
    return list(state)


class Collect:
  """Collects every element (sorted at the end: order is not promised)."""

  def create_state(self):
    return []

  def update_state(self, state, xs):
    return state + list(xs)

  def merge_states(self, states):
    out = []
    for st in states:
      out = out + list(st)
    return out

  def get_result(self, state):
    return sorted(state)


def op_affine(xs, a=2, b=1):
  return [a * x + b for x in xs]


def op_square(xs):
  return [x * x for x in xs]


def op_keep(xs):
  return len(xs) % 3 != 0 or sum(xs) % 2 == 0


def op_slow(xs, delay=0.0):
  if delay:
    time.sleep(delay)
  return list(xs)


FAIL_MARK = 'c16-application-error'


def op_fail_on(xs, value=-1):
  """Application error on the record that contains `value` (not retriable)."""
  if value in xs:
    raise ValueError(f'{FAIL_MARK}: record with {value} cannot be processed')
  return list(xs)


def op_stall_on(xs, value=-1, delay=0.0):
  """The record that contains `value` takes `delay` s (longer than a call deadline)."""
  if value in xs:
    time.sleep(delay)
  return list(xs)


# ('fail_on' / 'stall_on' are the identity for the reference: it describes the complete run)
_OPS = {'affine': op_affine, 'square': op_square, 'slow': op_slow,
        'fail_on': op_fail_on, 'stall_on': op_stall_on}


def records(n, rec):
  """n integers grouped in records (lists) of size `rec` (last may be short)."""
  out = []
  for start in range(0, n, rec):
    out.append(list(range(start, min(start + rec, n))))
  return out


def define_pipeline(spec, shard_index=0, num_shards=1, with_source=True):
  """Builds the TreeTransform described by spec for one shard."""
  from ml_metrics._src.chainables import io, transform
  T = transform.TreeTransform
  source = None
  if with_source:
    if spec.get('source') == 'rr':
      ds = io.ShardedIterable(records(spec['n'], spec['rec']))   # round-robin shards
    else:
      ds = io.SequenceDataSource(records(spec['n'], spec['rec']))  # contiguous shards
    if num_shards > 1 or shard_index:
      ds = ds.shard(shard_index, num_shards)
    source = T.new(name='datasource',
                   num_threads=spec.get('source_threads', 0)).data_source(ds)
  stage = T.new(name='apply', num_threads=spec.get('num_threads', 0))
  for op in spec['ops']:
    if op[0] == 'filter':
      stage = stage.filter(op_keep)
    else:
      kwargs = dict(op[1]) if len(op) > 1 else {}
      fn = _OPS[op[0]]
      if kwargs:
        import functools
        fn = functools.partial(fn, **kwargs)
      stage = stage.apply(fn=fn)
  agg_cls = {'sum': SumCount, 'collect': Collect}.get(spec.get('agg'))
  if agg_cls is not None and spec.get('fused', True):
    stage = stage.aggregate(fn=agg_cls(), output_keys='agg')
  result = source.chain(stage) if source is not None else stage
  if agg_cls is not None and not spec.get('fused', True):
    result = result.chain(T.new(name='agg').aggregate(fn=agg_cls(), output_keys='agg'))
  agg2_cls = {'sum': SumCount, 'collect': Collect}.get(spec.get('agg2'))
  if agg2_cls is not None:
    # A second aggregating stage downstream of the first one.
    result = result.chain(
        T.new(name='post').apply(fn=op_square).aggregate(fn=agg2_cls(), output_keys='agg2'))
  return result


def reference(spec):
  """Independent evaluation with plain Python (no pipeline code)."""
  outs = []
  for rec in records(spec['n'], spec['rec']):
    cur = rec
    keep = True
    for op in spec['ops']:
      if op[0] == 'filter':
        if not op_keep(cur):
          keep = False
          break
      elif op[0] == 'affine':
        cur = op_affine(cur, **(dict(op[1]) if len(op) > 1 else {}))
      elif op[0] == 'square':
        cur = op_square(cur)
      elif op[0] == 'slow':
        cur = list(cur)
    if keep:
      outs.append(cur)
  def _agg(kind, batches):
    if kind == 'sum':
      a = SumCount()
      st = a.create_state()
      for o in batches:
        st = a.update_state(st, o)
      return a.get_result(st)
    return sorted(x for o in batches for x in o)

  agg = None
  if spec.get('agg') in ('sum', 'collect'):
    agg = {'agg': _agg(spec['agg'], outs)}
  if spec.get('agg2') in ('sum', 'collect'):
    outs = [op_square(o) for o in outs]
    agg = dict(agg or {}, agg2=_agg(spec['agg2'], outs))
  return outs, agg


def task_fn(task_id, delay=0.0, fail=None):
  """Uniquely numbered task for as_completed / WorkerPool.run."""
  if delay:
    time.sleep(delay)
  if fail == 'value':
    raise ValueError(f'task {task_id} failed')
  if fail == 'runtime':
    raise RuntimeError(f'task {task_id} failed')
  return ('done', task_id)
