"""C14 scenario extensions (third audit round).

  * case_bounded_iter: bounded iteration (`dequeue_as_iterator(num_steps)` /
    `async_dequeue_as_iterator(num_steps)`) over a REMOTE queue against the same
    iteration over a local queue: elements, end signal and the end state of the producer.
  * scen_liveness: a server that stays healthy, observed by a client whose clock runs
    S times faster (only `courier_utils.time` is replaced: the client side of the
    library; the server keeps the clock it had): call sequences through unpickled
    handles with / without a CourierClient instance held by the process, and single
    evaluations shorter / longer than the client's heartbeat threshold.

Verdicts never come from wall-clock time: the producer state is read from counters
(elements taken from the source vs. elements put, buffer full); a 'disconnected' error
is only judged when the transport log shows that every heartbeat of the case was
answered well inside the probe deadline measured in CLIENT seconds (otherwise the case
is inconclusive: the machine was too slow for the dilation, not the server unhealthy).
"""

from __future__ import annotations

import math
import threading
import time as _time

BOUNDED = 'remote-queue-bounded-iteration'
LIVENESS = 'healthy-server-declared-disconnected'


def _exc(e):
  return ('exc', type(e).__name__, str(e))


# ---------------------------------------------------------------------------
# Bounded iteration over a remote queue
# ---------------------------------------------------------------------------


def _drain_sync(it, limit):
  from vlib import c14lib
  out = []
  for _ in range(limit):
    try:
      out.append(c14lib.norm(next(it)))
    except StopIteration:
      return out, ('stop',)
    except BaseException as e:  # pylint: disable=broad-exception-caught
      return out, _exc(e)
  return out, ('no_end',)


async def _drain_async(it, limit):
  from vlib import c14lib
  out = []
  for _ in range(limit):
    try:
      out.append(c14lib.norm(await it.__anext__()))
    except StopAsyncIteration:
      return out, ('stop',)
    except BaseException as e:  # pylint: disable=broad-exception-caught
      return out, _exc(e)
  return out, ('no_end',)


def _producer_state(q, key, alive, hard_s=20.0):
  """'released' (the producer returned) | 'blocked' (it holds an element that can never be
  put: buffer full, nobody consumes any more) | 'unknown'. Call only after the consumer ended.

  Once the buffer is full and no consumer exists, progress.cnt and YIELDED are frozen, so
  reading them one after the other is consistent.
  """
  from vlib import c14lib
  deadline = _time.monotonic() + hard_s
  while True:
    if not alive():
      return 'released'
    full = getattr(q._queue, 'full', None)  # pylint: disable=protected-access
    if (full is not None and full() and not q.enqueue_done
        and c14lib.YIELDED.get(key, 0) == q.progress.cnt + 1):
      return 'blocked'
    if _time.monotonic() > deadline:
      return 'unknown'
    _time.sleep(0.0005)


def _swallow(fn, *a):
  try:
    fn(*a)
  except BaseException:  # pylint: disable=broad-exception-caught
    pass


def case_bounded_iter(ctx, env, rng, cid):
  """(n elements, num_steps <,=,> n, sync/async, bounded/unbounded server-side queue, host)."""
  from vlib import c14lib
  from ml_metrics._src.utils import iter_utils
  n = rng.randint(0, 12)
  rel = rng.choice(['<', '<', '<', '=', '>']) if n else rng.choice(['=', '>'])
  k = rng.randint(0, n - 1) if rel == '<' else n if rel == '=' else n + rng.randint(1, 3)
  mode = rng.choice(['sync', 'async'])
  buf = rng.choice([0, 1, 1, 2, 3])
  host = rng.choice(['served_queue', 'async_iter'])
  desc = {'elements': n, 'num_steps': k, 'mode': mode, 'server_queue_maxsize': buf, 'host': host}
  case = {'kind': 'bounded_iter', 'cid': cid}
  ctx.count('bounded_iter_cases')
  ctx.count(f'bounded_iter_{mode}')
  if k <= n:
    ctx.count('bounded_iter_bound_reached')
  if buf:
    ctx.count('bounded_iter_server_queue_bounded')
  ctx.case(('bounded_iter', n, k, mode, buf, host), True)
  limit = n + 6
  lkey, rkey = f'bl{cid}', f'br{cid}'
  c14lib.YIELDED[lkey] = c14lib.YIELDED[rkey] = 0

  # ---- local twin ------------------------------------------------------------
  lq = (iter_utils.AsyncIteratorQueue if mode == 'async' else iter_utils.IteratorQueue)(
      buf, name=f'c14bl{cid}')
  lt = threading.Thread(target=_swallow, args=(lq.enqueue_from_iterator, c14lib.tracked_gen(lkey, n)),
                        daemon=True)
  lt.start()
  try:
    if mode == 'sync':
      l_elems, l_end = _drain_sync(lq.dequeue_as_iterator(num_steps=k), limit)
    else:
      l_elems, l_end = env.run_async(_drain_async(lq.async_dequeue_as_iterator(num_steps=k), limit))
    l_state = _producer_state(lq, lkey, lt.is_alive)
  finally:
    lq.maybe_stop()
    lt.join(5)

  # ---- remote ------------------------------------------------------------------
  rt = None
  n0 = len(env.pool.futs)
  if host == 'served_queue':
    rq_local = iter_utils.IteratorQueue(buf, name=f'c14br{cid}')
    rt = threading.Thread(target=_swallow,
                          args=(rq_local.enqueue_from_iterator, c14lib.tracked_gen(rkey, n)),
                          daemon=True)
    rt.start()
    rq = env.cu.RemoteIteratorQueue.new(rq_local, server_addr=env.client, name=f'rb{cid}')
    alive = rt.is_alive
  else:
    rq = env.run_async(env.client.async_iter(
        env.lazy_fns.trace(c14lib.tracked_gen)(rkey, n), buffer_size=buf, name=f'rb{cid}'))
    rq_local = env.lazy_fns.maybe_make(rq._queue.value)  # pylint: disable=protected-access
    # the enqueue task is fired without waiting: alive until its future exists and is done
    alive = lambda: len(env.pool.futs) <= n0 or not env.pool.futs[n0].done()
  try:
    if mode == 'sync':
      r_elems, r_end = _drain_sync(rq.dequeue_as_iterator(num_steps=k), limit)
    else:
      r_elems, r_end = env.run_async(_drain_async(rq.async_dequeue_as_iterator(num_steps=k), limit))
    r_state = _producer_state(rq_local, rkey, alive)
    r_stopped = bool(rq_local.enqueue_done)
  finally:
    # a producer left behind must not occupy a thread of the server for the rest of the chunk
    rq_local.maybe_stop()
    if rt is not None:
      rt.join(5)
    else:
      t_end = _time.monotonic() + 5
      while alive() and _time.monotonic() < t_end:
        _time.sleep(0.0005)

  if 'unknown' in (l_state, r_state):
    ctx.inconclusive_case('state of the producer not determined in 20s', case)
    return
  local, remote = (l_elems, l_end, l_state), (r_elems, r_end, r_state)
  if local == remote:
    return
  reached = k <= n     # the bound ends the iteration (not the exhaustion of the queue)
  if (mode == 'sync' and reached and r_elems == l_elems
      and r_end == ('exc', 'AssertionError', '')):
    kind, mech = 'bounded_remote_iteration_raises', f'{BOUNDED}:sync-assertion'
  elif (mode == 'async' and reached and r_elems == l_elems and r_end == l_end
        and (l_state, r_state) == ('released', 'blocked')):
    kind, mech = 'bounded_remote_iteration_leaves_producer_blocked', f'{BOUNDED}:async-producer-not-released'
  else:
    kind, mech = 'bounded_remote_iteration_differs', f'{BOUNDED}:other'
  ctx.violation(kind, case,
                dict(desc, local={'elements': repr(l_elems), 'end': repr(l_end), 'producer': l_state},
                     remote={'elements': repr(r_elems), 'end': repr(r_end), 'producer': r_state,
                             'server_queue_stopped': r_stopped}),
                mechanism=mech)


# ---------------------------------------------------------------------------
# Liveness of a healthy server seen by a client with a fast clock
# ---------------------------------------------------------------------------

# The probe the library sends has a deadline of _HRTBT_INTERVAL_SECS (30) client seconds;
# a differing case is only judged when every heartbeat was answered within two thirds of it
# (an implementation that waits for the answer of its probe would have got it in time).
_HB_HEALTHY_CLIENT_S = 20.0
_GAP_HEALTHY_CLIENT_S = 10.0   # a third of the library's 30 s probe window
_WALL_PER_THRESHOLD_S = 1.0   # the client's threshold passes in this much wall time


class _DilatedAsyncio:
  """`asyncio` look-alike for the client side: sleep(x) sleeps x / S, like DilatedTime.sleep
  (a client whose time() runs S times faster while its asyncio.sleep() does not would see
  one 0.1 s pause of a wait loop as 0.1 * S seconds)."""

  def __init__(self, scale):
    import asyncio
    self._real, self._scale = asyncio, scale

  async def sleep(self, delay, result=None):
    return await self._real.sleep(delay / self._scale if delay else 0, result)

  def __getattr__(self, name):
    return getattr(self._real, name)


def _heartbeat_latencies(courier, addr, i0, t_end, settle_s=5.0):
  """Real seconds between call and ok-return of every heartbeat / other call sent to addr since
  log index i0. Waits for the heartbeats still in flight (math.inf for one that stays unanswered
  or failed); another call that is still in flight counts with its age at t_end (the moment
  the client gave up or finished)."""
  deadline = _time.monotonic() + settle_s
  while True:
    calls, rets = {}, {}
    for ev in list(courier.sim.call_log[i0:]):
      if ev.get('server') != addr:
        continue
      if ev['ev'] == 'call':
        calls[ev['seq']] = (ev['method'], ev['t'])
      elif ev['ev'] == 'return':
        rets[ev['seq']] = (ev.get('outcome'), ev['t'])
    pending = [s for s, (m, _) in calls.items() if m == 'heartbeat' and s not in rets]
    if not pending or _time.monotonic() > deadline:
      break
    _time.sleep(0.002)
  hb, data = [], []
  for s, (m, t) in calls.items():
    out = rets.get(s)
    if out is None and m != 'heartbeat':
      lat = max(t_end - t, 0.0)
    else:
      lat = out[1] - t if out and out[0] == 'ok' else math.inf
    (hb if m == 'heartbeat' else data).append(lat)
  return hb, data


def scen_liveness(ctx, env, rng, cid):
  from vlib import c14lib
  from ml_metrics._src.utils import iter_utils
  cu, lf, courier = env.cu, env.lazy_fns, env.courier
  threshold = rng.choice([cu._HRTBT_THRESHOLD_SECS, cu._HRTBT_THRESHOLD_SECS, 240.0])  # pylint: disable=protected-access
  scale = threshold / _WALL_PER_THRESHOLD_S
  cls = rng.choice(['no_client_held', 'no_client_held', 'long_eval', 'long_eval',
                    'client_held', 'short_eval'])
  use_async = rng.random() < 0.3
  case = {'kind': 'liveness', 'cid': cid, 'mode': 'scen'}
  desc = {'input_class': cls, 'heartbeat_threshold_secs': threshold, 'client_clock_speed': scale,
          'async': use_async}
  if cls in ('no_client_held', 'client_held'):
    handle = rng.choice(['queue', 'object'])
    dt = rng.uniform(threshold / 12, threshold / 5)          # client seconds per call
    n = math.ceil(rng.uniform(1.25, 1.5) * threshold / dt)
    desc.update(handle=handle, calls=n, client_secs_per_call=round(dt, 1))
    ctx.case(('liveness', cls, threshold, handle, n, round(dt), use_async), True)
  else:
    dur = threshold * (rng.uniform(1.15, 1.45) if cls == 'long_eval' else rng.uniform(0.3, 0.6))
    value = rng.randint(0, 99)
    desc.update(evaluation_client_secs=round(dur, 1))
    ctx.case(('liveness', cls, threshold, round(dur), use_async), True)
  ctx.count('liveness_cases')
  ctx.count(f'liveness_{cls}')

  srv = env.cwork.start_servers(1, 'c14hb', prefetch=False)[0]
  addr = srv.address
  cfg = cu.ClientConfig(address=addr, max_parallelism=1, heartbeat_threshold_secs=threshold,
                        iterate_batch_size=1, call_timeout=0.0)
  saved_clock, saved_scale, saved_asyncio = cu.time, courier.sim.time_scale, cu.asyncio
  i0 = len(courier.sim.call_log)
  clock = env.cwork.DilatedTime(scale)
  producer = q = None
  keep = None

  def run():
    """Returns (values obtained, error or None, expected values)."""
    nonlocal producer, q, keep
    got = []
    if cls in ('no_client_held', 'client_held'):
      real_dt = dt / scale
      if handle == 'queue':
        q = iter_utils.IteratorQueue(name=f'c14hbq{cid}')
        producer = threading.Thread(target=_swallow, daemon=True,
                                    args=(q.enqueue_from_iterator, c14lib.paced_gen(n, real_dt)))
        producer.start()
        h = cu.RemoteIteratorQueue.new(q, server_addr=cfg, name=f'hb{cid}')
        want = list(range(n))
      else:
        h = cu.RemoteObject.new(c14lib.SlowBox(3), worker=cfg)
        twin = c14lib.SlowBox(3)
        want = [twin.bump(i % 3, 0.0) for i in range(n)]
      h = lf.pickler.loads(lf.pickler.dumps(h))   # what another process would hold
      if cls == 'client_held':
        keep = cfg.make()                         # a strong reference to the singleton
      try:
        for i in range(n + (handle == 'queue')):
          if handle == 'queue':
            got.append(env.run_async(h.async_get()) if use_async else h.get())
          else:
            call = h.bump(i % 3, real_dt)
            got.append(env.run_async(call.async_result_()) if use_async else call.result_())
      except (StopIteration, StopAsyncIteration):
        pass
      except Exception as e:  # pylint: disable=broad-exception-caught
        return got, e, want
      return got, None, want
    keep = cfg.make()
    lazy = lf.trace(c14lib.sleep_then)(dur / scale, value)
    want = [lf.maybe_make(lf.trace(c14lib.sleep_then)(0.0, value))]
    try:
      got.append(env.run_async(keep.async_get_result(lazy)) if use_async else keep.get_result(lazy))
    except Exception as e:  # pylint: disable=broad-exception-caught
      return got, e, want
    return got, None, want

  # How long a runnable thread of this process went without running (machine load, GIL):
  # the library polls `is_alive` with sleeps of 0.1 client-seconds inside a 30
  # client-second window, i.e. 83 ms of wall time at 360x; a thread that is not
  # scheduled for a third of that cannot tell an unanswered heartbeat from its own nap.
  gap = {'max': 0.0, 'stop': False}

  def monitor():
    last = _time.monotonic()
    while not gap['stop']:
      _time.sleep(0.001)
      now = _time.monotonic()
      gap['max'] = max(gap['max'], now - last - 0.001)
      last = now

  mon = threading.Thread(target=monitor, daemon=True)
  try:
    cu.time = clock
    cu.asyncio = _DilatedAsyncio(scale)
    courier.sim.time_scale = scale
    mon.start()
    finished, res, exc = env.cwork.run_with_watchdog(run, 30)
    gap['stop'] = True
    t_end = _time.monotonic()
    # an independent probe: does the server answer a heartbeat right now?
    t_probe = _time.monotonic()
    try:
      courier.Client(addr, call_timeout=5 * scale).futures.heartbeat().result(timeout=5)
      own_probe = _time.monotonic() - t_probe
    except Exception:  # pylint: disable=broad-exception-caught
      own_probe = math.inf
    hb, data = _heartbeat_latencies(courier, addr, i0, t_end)
  finally:
    gap['stop'] = True
    cu.time = saved_clock
    cu.asyncio = saved_asyncio
    courier.sim.time_scale = saved_scale
    if q is not None:
      q.maybe_stop()
    if producer is not None:
      producer.join(5)
    env.cwork.stop_servers([srv])
    keep = None
  if not finished or exc is not None:
    ctx.inconclusive_case(f'liveness case did not finish: {exc!r}', case)
    return
  got, err, want = res
  hb_client_s = max(hb + [own_probe]) * scale
  data_client_s = max(data, default=0.0) * scale
  desc.update(heartbeats_sent=len(hb) - 1, slowest_heartbeat_answer_client_secs=round(hb_client_s, 2),
              slowest_call_client_secs=round(data_client_s, 1))
  if err is None and got == want:
    ctx.count('liveness_judged')
    ctx.count(f'liveness_judged_{cls}')
    return
  # Something differs: only judged when the machine kept up with the fast clock.
  gap_client_s = gap['max'] * scale
  desc.update(longest_scheduling_gap_client_secs=round(gap_client_s, 1))
  healthy = hb_client_s <= _HB_HEALTHY_CLIENT_S and gap_client_s <= _GAP_HEALTHY_CLIENT_S
  if cls in ('no_client_held', 'client_held', 'short_eval'):
    healthy = healthy and data_client_s <= threshold / 2
  if not healthy:
    ctx.count('liveness_not_judged_machine_too_slow')
    ctx.inconclusive_case('machine too slow for the dilated client clock '
                          f'(heartbeat {hb_client_s:.1f} / call {data_client_s:.1f} / scheduling gap '
                          f'{gap_client_s:.1f} client-s)', case)
    return
  ctx.count('liveness_judged')
  ctx.count(f'liveness_judged_{cls}')
  disconnected = (err is not None and type(err).__name__ == 'RuntimeError'
                  and str(err).startswith(('Worker disconnected', 'Async worker disconnected'))
                  and got == want[:len(got)])
  if disconnected and cls == 'no_client_held':
    mech = f'{LIVENESS}:no-client-instance-held'
  elif disconnected and cls == 'long_eval':
    mech = f'{LIVENESS}:evaluation-longer-than-threshold'
  else:
    mech = f'{LIVENESS}:other'
  ctx.violation('healthy_server_declared_disconnected' if disconnected else 'liveness_case_differs',
                case, dict(desc, got=repr(got), error=repr(_exc(err)) if err else None,
                           want=repr(want), server_answers_heartbeat_after_the_error=own_probe != math.inf),
                mechanism=mech)
