"""Seeded generator of pipeline operator chains, key shapes and record streams.

Shared by C08 and C12.  Everything it emits is a JSON-able spec that both the
real-pipeline builder (`build`) and the reference interpreter
(`vlib/oracles/pipeline_interp.py`) consume; see the interpreter docstring for
the key / operator grammar.  Tuples inside records are tagged `{'__t__': [...]}`
in the JSON form (`enc` / `dec`).

The generator tracks the record schema *dynamically*: after every operator it
evaluates the interpreter on the concrete stream and only offers keys that
resolve in every record, so generated chains never contain a key-routing error.
It also mirrors how the library tracks "output keys since the last apply"
(`track`), only to know which assign / batch placements the library documents
as valid; this knowledge is never used to compute an expected value.
"""

from __future__ import annotations

import collections
import json
import zlib

from vlib.oracles import pipeline_interp as interp

# ---------------------------------------------------------------------------
# Key spec helpers
# ---------------------------------------------------------------------------

SELF = {'self': 1}
SKIP = {'skip': 1}
NAMES = ['a', 'b', 'c', 'd', 'e', 'f', 'g', 'h', 'k1', 'k2']
# Ordinary string keys that merely spell a reserved key's name.
LOOKALIKES = ['SELF', 'SKIP']


def idx(i):
  return {'idx': i}


def path(*steps):
  return {'path': list(steps)}


def lit(v):
  return {'lit': v}


def kmap(*pairs):
  return {'map': [list(p) for p in pairs]}


def K(*keys, form=None):
  return {'form': form or ('single' if len(keys) == 1 else 'tuple'),
          'keys': list(keys)}


def KW(**kw):
  return {'form': 'kw', 'names': list(kw), 'keys': list(kw.values())}


def hk(key):
  return json.dumps(key, sort_keys=True)


HSELF, HSKIP = hk(SELF), hk(SKIP)


def enc(o):
  """JSON-able form of a record (tuples tagged)."""
  if isinstance(o, tuple):
    return {'__t__': [enc(x) for x in o]}
  if isinstance(o, list):
    return [enc(x) for x in o]
  if isinstance(o, dict):
    return {k: enc(v) for k, v in o.items()}
  return o


def dec(o):
  if isinstance(o, dict):
    if '__t__' in o:
      return tuple(dec(x) for x in o['__t__'])
    return {k: dec(v) for k, v in o.items()}
  if isinstance(o, list):
    return [dec(x) for x in o]
  return o


def key_shapes(op):
  """Names of the key shapes an operator uses (evidence counters)."""
  shapes = set()
  for side in ('in', 'out', 'cols'):
    c = op.get(side)
    if not c:
      continue
    if c['form'] == 'kw':
      shapes.add('kwargs')
    elif c['form'] in ('tuple', 'list'):
      shapes.add('tuple')
    else:
      shapes.add('single')
    for k in c['keys']:
      if isinstance(k, dict):
        for tag, name in (('self', 'SELF'), ('skip', 'SKIP'), ('lit', 'literal'),
                          ('idx', 'index'), ('path', 'path'), ('map', 'dictout')):
          if tag in k:
            shapes.add(name)
        if 'path' in k and any(isinstance(s, dict) for s in k['path']):
          shapes.add('index')
        if 'map' in k and any(isinstance(o, dict) and 'path' in o
                              for _, o in k['map']):
          shapes.add('path')
  return shapes


# ---------------------------------------------------------------------------
# Function pool (user code: pure, total on every value, never mutates)
# ---------------------------------------------------------------------------


def canon(o):
  """Order-independent canonical text of a nested value (ndarray = list, np int = int)."""
  if hasattr(o, 'tolist') and not isinstance(o, (list, tuple, dict, str)):
    o = o.tolist()
  if isinstance(o, dict):
    return '{' + ','.join(sorted(f'{canon(k)}:{canon(v)}' for k, v in o.items())) + '}'
  if isinstance(o, list):
    return '[' + ','.join(canon(x) for x in o) + ']'
  if isinstance(o, tuple):
    return '(' + ','.join(canon(x) for x in o) + ')'
  return repr(o) if not isinstance(o, str) else repr(str(o))


def dg(tag, *args):
  return zlib.crc32((tag + canon(args)).encode()) % 997


NT = collections.namedtuple('NT', ['p', 'q'])


def _d1(x): return dg('d1', x)
def _d2(x, y): return dg('d2', x, y)
def _d3(x, y, z): return dg('d3', x, y, z)
def _t2(x): return dg('t2a', x), dg('t2b', x)
def _sw(x, y): return y, x                       # returns its inputs themselves
def _t3(x): return dg('t3a', x), [dg('t3b', x)], dg('t3c', x)
def _t4(x): return dg('t4a', x), [dg('t4b', x)], dg('t4c', x), {'p': dg('t4d', x)}
def _mk(x): return {'o1': dg('o1', x), 'o2': [dg('o2', x), dg('o2b', x)], 'o3': {'p': dg('o3', x)}}
def _mk2(x, y): return {'o1': dg('o1', x, y), 'o2': [x, y], 'o3': {'p': dg('o3', y)}}
def _mt(x): return {'o1': dg('m1', x), 'o2': [dg('m2', x), 7]}, dg('m3', x)
def _ls(x): return [x, dg('ls', x)]               # a list holding the input object
def _echo(x): return x
def _nt(x): return NT(dg('ntp', x), dg('ntq', x))  # a tuple subclass is ONE output
def _r1(x): return [dg('r1', v) for v in x]
def _r2(x, y): return [dg('r2a', v) for v in x], [dg('r2b', v) for v in y]
def _r21(x, y): return [dg('r21', v, w) for v, w in zip(x, y, strict=True)]
def _r12(x): return [dg('r12a', v) for v in x], [dg('r12b', v) for v in x]
def _pb(x): return dg('pb', x) % 3 != 0
def _pi(x): return dg('pi', x) % 3
def _pl(x): return [1][:dg('pl', x) % 4 > 0]
def _pn(x): return None if dg('pn', x) % 4 == 0 else 'y'
def _p2(x, y): return dg('p2', x, y) % 3 != 0
def _pt(x): return True


# name -> (callable, arity, output shape)
POOL = {
    'd1': (_d1, 1, 'one'), 'd2': (_d2, 2, 'one'), 'd3': (_d3, 3, 'one'),
    't2': (_t2, 1, 'tuple2'), 'sw': (_sw, 2, 'tuple2'), 't3': (_t3, 1, 'tuple3'),
    't4': (_t4, 1, 'tuple4'),   # only used by the directed several-SKIP cases
    'mk': (_mk, 1, 'dict'), 'mk2': (_mk2, 2, 'dict'), 'mt': (_mt, 1, 'dict+one'),
    'ls': (_ls, 1, 'one'), 'echo': (_echo, 1, 'one'), 'nt': (_nt, 1, 'one'),
    'r1': (_r1, 1, 'rows1'), 'r2': (_r2, 2, 'rows2'), 'r21': (_r21, 2, 'rows1'),
    'r12': (_r12, 1, 'rows2'),
    'pb': (_pb, 1, 'pred'), 'pi': (_pi, 1, 'pred'), 'pl': (_pl, 1, 'pred'),
    'pn': (_pn, 1, 'pred'), 'p2': (_p2, 2, 'pred'), 'pt': (_pt, 1, 'pred'),
}
GENERIC = ['d1', 'd2', 'd3', 't2', 'sw', 't3', 'mk', 'mk2', 'mt', 'ls', 'echo', 'nt']
ROWWISE = ['r1', 'r2', 'r21', 'r12']
PREDS = ['pb', 'pi', 'pl', 'pn', 'p2']
ARGNAMES = ['x', 'y', 'z']


def resolve(op):
  """op -> user callable (None for select / no function / plain sink)."""
  name = op.get('fn')
  return POOL[name][0] if name else None


# ---------------------------------------------------------------------------
# Real pipeline builder
# ---------------------------------------------------------------------------


class RecSink:
  """A sink with write()/close(); records everything it is told."""

  def __init__(self, hook=None):
    self.hook = hook
    self.data = []
    self.closed = False
    self.close_calls = 0
    self.writes_after_close = 0

  def write(self, *args, **kwargs):
    if self.hook is not None:
      self.hook(*args, **kwargs)
    if self.closed:
      self.writes_after_close += 1
    self.data.append((args, kwargs))

  def close(self):
    self.closed = True
    self.close_calls += 1


def lib_key(k):
  from ml_metrics._src.chainables import tree
  if isinstance(k, dict):
    if 'self' in k:
      return tree.Key.SELF
    if 'skip' in k:
      return tree.Key.SKIP
    if 'idx' in k:
      return tree.Key.Index(k['idx'])
    if 'lit' in k:
      return tree.Key.Literal(k['lit'])
    if 'path' in k:
      return tree.Key(tuple(lib_key(s) for s in k['path']))
    if 'map' in k:
      return {lib_key(n): lib_key(o) for n, o in k['map']}
    raise ValueError(k)
  return k


def lib_keys(c):
  ks = [lib_key(k) for k in c['keys']]
  if c['form'] == 'single':
    return ks[0]
  if c['form'] == 'tuple':
    return tuple(ks)
  if c['form'] == 'list':
    return list(ks)
  if c['form'] == 'kw':
    return dict(zip(c['names'], ks, strict=True))
  raise ValueError(c['form'])


def add_op(t, op, fn, sinks):
  """Appends one operator spec to a TreeTransform through the public API."""
  kind = op['op']
  kw = {}
  if op.get('fbs'):
    kw['fn_batch_size'] = op['fbs']
  if op.get('bs'):
    kw['batch_size'] = op['bs']
  if 'in' in op and (kind == 'select' or not op.get('in_default')):
    kw['input_keys'] = lib_keys(op['in'])
  if kind == 'apply':
    if not op.get('out_default'):
      kw['output_keys'] = lib_keys(op['out'])
    return t.apply(fn, **kw)
  if kind == 'assign':
    return t.assign(lib_keys(op['out']), fn=fn, **kw)
  if kind == 'select':
    ik = kw.pop('input_keys')
    if not op.get('out_default'):
      kw['output_keys'] = lib_keys(op['out'])
    return t.select(ik, **kw)
  if kind == 'filter':
    return t.filter(fn, **kw)
  if kind == 'sink':
    sink = RecSink(fn)
    sinks.append(sink)
    return t.sink(sink, **kw)
  if kind == 'batch':
    return t.batch(op['n']) if not op.get('n_default') else t.batch()
  raise ValueError(kind)


def build(chain, resolve_fn=resolve, *, num_threads=0, name=''):
  """Returns (TreeTransform, [RecSink per sink operator, in chain order])."""
  from ml_metrics._src.chainables import transform
  t = transform.TreeTransform.new(name=name, num_threads=num_threads)
  sinks = []
  for op in chain:
    t = add_op(t, op, resolve_fn(op), sinks)
  return t, sinks


# ---------------------------------------------------------------------------
# Library bookkeeping mirrored by the generator (validity of placements only)
# ---------------------------------------------------------------------------


def flat_out(out):
  keys = set()
  for k in out['keys']:
    if isinstance(k, dict) and 'map' in k:
      keys.update(hk(n) for n, _ in k['map'])
    else:
      keys.add(hk(k))
  return keys


def track(tracked, op):
  """Output keys produced since the last apply (a sink adds none, SKIP is none)."""
  kind = op['op']
  if kind in ('apply', 'select'):
    # Both replace the record by their outputs.
    return frozenset(flat_out(op['out']) - {HSKIP})
  if kind == 'assign':
    return tracked | (flat_out(op['out']) - {HSKIP})
  if kind == 'sink':
    return tracked
  if kind == 'batch':
    return frozenset(tracked or {HSELF})
  return tracked


def assign_is_documented_valid(tracked, out):
  new = flat_out(out)
  plain = [hk(k) for k in out['keys'] if not (isinstance(k, dict) and 'map' in k)]
  mapped = [hk(n) for k in out['keys'] if isinstance(k, dict) and 'map' in k
            for n, _ in k['map']]
  if len(plain) + len(mapped) != len(new):
    return False                      # repeats itself
  if new & tracked:
    return False
  allk = new | tracked
  return not (HSELF in allk and len(allk) > 1)


def batch_cols(tracked, stream):
  """Reference columns of `batch` where the documentation defines them."""
  plain = [json.loads(h) for h in tracked if h not in (HSELF, HSKIP)]
  if not plain:
    return K(SELF)
  if not all(isinstance(k, str) for k in plain):
    return None
  plain = sorted(plain)
  if all(isinstance(r, dict) and sorted(r) == plain for r in stream):
    return K(*plain, form='tuple')
  return None


# Known-defect triggers (see the C08 module docstring); static per operator.
def op_triggers(op, tracked):
  kind = op['op']
  trig = []
  if kind == 'filter' and not tracked:
    trig.append('filter-before-any-output-key')
  if kind in ('apply', 'select') and op.get('out'):
    for k in op['out']['keys']:
      if k == SKIP:
        trig.append('skip-as-first-stored-output-of-apply')
        break
      if not (isinstance(k, dict) and 'lit' in k):
        break
  if kind == 'sink' and op['in']['form'] == 'kw':
    trig.append('sink-keyword-input-keys')
  if kind in ('assign', 'select') and not op.get('out_default') and \
      op['out']['form'] == 'single' and op['out']['keys'][0] in (idx(0), 0, ''):
    trig.append('falsy-index-0-output-key-of-' + kind)
  return trig


def chain_triggers(chain):
  tracked, out = frozenset(), []
  for op in chain:
    out.extend(op_triggers(op, tracked))
    tracked = track(tracked, op)
  return out


# ---------------------------------------------------------------------------
# Record streams
# ---------------------------------------------------------------------------


def gen_records(rng, shape=None, n=None):
  """Returns (shape, records); leaves are ints unique per record."""
  shape = shape or rng.choice(['dict', 'dict', 'dict', 'list', 'tuple', 'int',
                               'cols', 'cols'])
  n = rng.choice([0, 1, 2, 3, 4, 5, 6]) if n is None else n
  recs = []
  if shape == 'dict':
    keys = [k for k in 'abcde' if rng.random() < 0.7] or ['a']
    if rng.random() < 0.15:
      keys += rng.choice([['SELF'], ['SKIP'], ['SKIP', 'SELF']])
    deep = rng.random() < 0.7
    for r in range(n):
      b = 100 * (r + 1)
      full = {'a': b + 1, 'b': b + 2,
              'c': {'x': b + 3, 'y': [b + 4, b + 5]} if deep else b + 3,
              'd': (b + 6, b + 7),
              'e': [{'u': b + 8}, b + 9],
              'SELF': b + 10, 'SKIP': [b + 11]}
      recs.append({k: full[k] for k in keys})
  elif shape == 'list':
    for r in range(n):
      b = 100 * (r + 1)
      recs.append([b + 1, b + 2, {'x': b + 3, 'y': (b + 4,)}, [b + 5, b + 6]])
  elif shape == 'tuple':
    for r in range(n):
      b = 100 * (r + 1)
      recs.append((b + 1, [b + 2, b + 3]))
  elif shape == 'int':
    recs = [100 * (r + 1) for r in range(n)]
  elif shape == 'cols':
    keys = rng.choice([['a'], ['a', 'b'], ['a', 'b', 'c']])
    const = rng.choice([0, 0, 1, 2, 3])
    for r in range(n):
      rows = const or rng.randint(1, 3)
      if const and r == n - 1 and rng.random() < 0.5:
        rows = rng.randint(1, const)
      b = 100 * (r + 1)
      recs.append({k: [b + 10 * j + i for i in range(rows)]
                   for j, k in enumerate(keys)})
  return shape, recs


# ---------------------------------------------------------------------------
# Dynamic schema
# ---------------------------------------------------------------------------


def kind_of(v):
  if isinstance(v, bool):
    return 'other'
  if isinstance(v, int):
    return 'int'
  if isinstance(v, list):
    return 'col' if v and all(type(x) is int for x in v) else 'list'  # pylint: disable=unidiomatic-typecheck
  if isinstance(v, tuple):
    return 'tuple' if type(v) is tuple else 'ntuple'  # pylint: disable=unidiomatic-typecheck
  if isinstance(v, dict):
    return 'dict'
  return 'other'


def _walk(node, steps, depth):
  if steps:
    yield steps, node
  if len(steps) >= depth:
    return
  if isinstance(node, dict):
    for k, v in node.items():
      if type(k) is str:  # pylint: disable=unidiomatic-typecheck
        yield from _walk(v, steps + [k], depth)
  elif isinstance(node, (list, tuple)):
    for i, v in enumerate(node[:3]):
      yield from _walk(v, steps + [i], depth)


def candidates(stream):
  """[(steps, kind)] resolvable in every record (steps: str | int)."""
  if not stream:
    return []
  out = []
  for steps, v in _walk(stream[0], [], 3):
    key = path(*[idx(s) if isinstance(s, int) else s for s in steps])
    kind = kind_of(v)
    try:
      if all(kind_of(interp.get_key(r, key)) == kind for r in stream[1:]):
        out.append((steps, kind))
    except interp.RouteError:
      pass
  return out


def key_for(rng, steps):
  """A key spec (one of the equivalent spellings) for a step list."""
  def sp(s):  # a sequence index inside a path: Index(i) or a plain int
    return s if isinstance(s, str) else (idx(s) if rng.random() < 0.6 else s)
  if len(steps) == 1:
    s = steps[0]
    r = rng.random()
    if isinstance(s, str):
      return s if r < 0.75 else path(s)
    return idx(s) if r < 0.7 else (s if r < 0.85 else path(idx(s)))
  return path(*[sp(s) for s in steps])


def col_len(stream, cands):
  """B if every record has B rows in all its columns (last may be shorter)."""
  cols = [s for s, k in cands if k == 'col' and len(s) == 1]
  if not cols or not stream:
    return None
  lens = []
  for r in stream:
    ls = {len(interp.get_key(r, path(*[idx(x) if isinstance(x, int) else x for x in s])))
          for s in cols}
    if len(ls) != 1:
      return None
    lens.append(ls.pop())
  b = lens[0]
  if all(x == b for x in lens[:-1]) and lens[-1] <= b:
    return b
  return None


# ---------------------------------------------------------------------------
# Operator proposals
# ---------------------------------------------------------------------------


def _pick_inputs(rng, cands, n, kinds=None, allow_special=True):
  keys = []
  pool = [c for c in cands if kinds is None or c[1] in kinds]
  for _ in range(n):
    r = rng.random()
    if allow_special and r < 0.12:
      keys.append(SELF)
    elif allow_special and r < 0.2:
      keys.append(lit(rng.choice([7, 'v', [1, 2], None, {'q': 5}])))
    elif pool:
      keys.append(key_for(rng, rng.choice(pool)[0]))
    elif allow_special:
      keys.append(SELF)
    else:
      return None
  return keys


def _in_container(rng, keys, names=None):
  if rng.random() < 0.25:
    names = list(names or ARGNAMES[:len(keys)])
    order = list(range(len(keys)))
    rng.shuffle(order)
    return {'form': 'kw', 'names': [names[i] for i in order],
            'keys': [keys[i] for i in order]}
  if len(keys) == 1 and rng.random() < 0.7:
    return K(keys[0])
  return K(*keys, form=rng.choice(['tuple', 'tuple', 'list']))


def _fresh(rng, avoid, k):
  pool = NAMES + (LOOKALIKES if rng.random() < 0.12 else [])
  names = [n for n in pool if hk(n) not in avoid]
  rng.shuffle(names)
  return names[:k] if len(names) >= k else None


def _out_keys(rng, shape, avoid, *, base_kind, assign, stream):
  """Output key container for a function output shape."""
  n_out = {'one': 1, 'dict': 1, 'tuple2': 2, 'dict+one': 2, 'tuple3': 3,
           'rows1': 1, 'rows2': 2}[shape]
  names = _fresh(rng, avoid, 4)
  if names is None:
    return None
  r = rng.random()
  can_self = not assign or not avoid
  if can_self and r < (0.25 if not assign else 0.08):
    return K(SELF)
  if assign and base_kind in ('list', 'tuple') and stream:
    ln = len(stream[0])
    if n_out == 1:
      return K(idx(rng.choice([ln, rng.randrange(ln) if ln else 0])))
    if n_out == 2:
      return K(idx(ln)) if rng.random() < 0.5 else K(idx(ln), idx(ln + 1))
    return K(idx(ln))
  if assign and base_kind != 'dict':
    return None
  if shape in ('dict', 'dict+one') and r < 0.7:
    olds = [('o1', 'o1'), ('o2', path('o2', idx(1))), ('o2', path('o2', 0)),
            ('o2', 'o2'), ('o3', path('o3', 'p'))] if shape == 'dict' else \
           [('o1', 'o1'), ('o2', path('o2', idx(0))), ('o2', 'o2')]
    m = rng.randint(1, 3)
    pairs = [[names[i], rng.choice(olds)[1]] for i in range(m)]
    mk = {'map': pairs}
    if shape == 'dict':
      return K(mk) if rng.random() < 0.6 else K(mk, form='tuple')
    return K(mk, rng.choice([names[3], SKIP]))
  if n_out == 1:
    if r < 0.45:
      return K(names[0])
    if r < 0.6:
      return K(names[0], form=rng.choice(['tuple', 'list']))
    if r < 0.85:
      return K(path(names[0], names[1]) if rng.random() < 0.7
               else path(names[0], names[1], names[2]))
    if not assign:
      return K(idx(0)) if rng.random() < 0.6 else K(path(names[0], idx(0)))
    return K(path(names[0]))
  if r < 0.35:
    return K(names[0])                  # one key receives the tuple
  keys = names[:n_out]
  if r < 0.6:
    j = rng.randrange(n_out)
    keys[j] = SKIP
    if n_out == 3 and rng.random() < 0.3:
      keys[(j + 1) % 3] = SKIP
  elif r < 0.7:
    keys[rng.randrange(n_out)] = path(names[0] + 'n', names[3])
  elif r < 0.85 and assign and stream and all(isinstance(rec, dict) for rec in stream):
    # A non-first key that writes INTO a container the record already holds
    # (copy-on-write along the path: the caller's nested objects stay intact).
    dict_keys = [k for k, v in stream[0].items()
                 if isinstance(k, str) and hk(k) not in avoid
                 and all(isinstance(rec.get(k), dict) for rec in stream)]
    list_keys = [k for k, v in stream[0].items()
                 if isinstance(k, str) and hk(k) not in avoid
                 and all(isinstance(rec.get(k), list)
                         and len(rec[k]) == len(stream[0][k]) for rec in stream)]
    del list_keys
    j = rng.randrange(1, n_out)
    if dict_keys:
      keys[j] = path(rng.choice(dict_keys), names[3])
  return K(*keys, form=rng.choice(['tuple', 'tuple', 'list']))


def propose(rng, stream, tracked, *, kinds, rebatch_ok=True, c12_assign=False):
  """One random operator spec for the current stream (None = try again)."""
  cands = candidates(stream)
  base_kind = kind_of(stream[0]) if stream else 'other'
  kind = rng.choice(kinds)
  colb = col_len(stream, cands)
  has_cols = any(k == 'col' for _, k in cands)

  if kind in ('apply', 'assign'):
    assign = kind == 'assign'
    if assign and HSELF in tracked:
      return None
    rowwise = has_cols and rebatch_ok and rng.random() < 0.6
    if assign and rng.random() < 0.15 and not rowwise:
      # assign without a function: copies selected values to new keys
      keys = _pick_inputs(rng, cands, rng.choice([1, 1, 2]), allow_special=True)
      outk = _out_keys(rng, 'one' if len(keys) == 1 else 'tuple2', tracked,
                       base_kind=base_kind, assign=True, stream=stream)
      if outk is None:
        return None
      op = {'op': 'assign', 'fn': None, 'in': K(*keys, form='single' if len(keys) == 1
                                              and rng.random() < 0.7 else 'tuple'),
            'out': outk}
      return op
    name = rng.choice(ROWWISE if rowwise else GENERIC)
    _, arity, shape = POOL[name]
    if rowwise:
      keys = _pick_inputs(rng, [c for c in cands if len(c[0]) == 1], arity,
                          kinds=('col',), allow_special=False)
    else:
      keys = _pick_inputs(rng, cands, arity)
    if keys is None:
      return None
    op = {'op': kind, 'fn': name, 'in': _in_container(rng, keys)}
    if keys == [SELF] and op['in']['form'] == 'single' and rng.random() < 0.5:
      op['in_default'] = True
    outk = _out_keys(rng, shape, tracked if assign else frozenset(),
                     base_kind=base_kind, assign=assign, stream=stream)
    if outk is None:
      return None
    if rowwise:
      # batch options need as many list outputs as output keys
      n_out = 1 if shape == 'rows1' else 2
      plain = _fresh(rng, tracked if assign else frozenset(), n_out)
      if plain is None:
        return None
      if assign:
        if colb is None:
          return None
        bs = rng.choice([0, colb, colb])
        fbs = (rng.choice([0, colb]) if c12_assign
               else rng.choice([0, 0, 1, 2, 3])) if bs else 0
        if base_kind != 'dict':
          return None
      else:
        fbs = rng.choice([0, 0, 1, 2, 3])
        bs = rng.choice([1, 2, 3]) if fbs else rng.choice([0, 1, 2, 3])
      if bs or rng.random() < 0.5:
        outk = K(*plain, form='single' if n_out == 1 and rng.random() < 0.6
                 else 'tuple')
      if fbs:
        op['fbs'] = fbs
      if bs:
        op['bs'] = bs
    op['out'] = outk
    if not assign and outk == K(SELF) and rng.random() < 0.6:
      op['out_default'] = True
    return op

  if kind == 'select':
    if not cands and base_kind == 'other':
      return None
    n = rng.choice([1, 1, 2, 2, 3])
    bs = 0
    if has_cols and rebatch_ok and rng.random() < 0.5:
      keys = _pick_inputs(rng, [c for c in cands if len(c[0]) == 1], n,
                          kinds=('col',), allow_special=False)
      bs = rng.choice([0, 1, 2, 3])
    else:
      keys = _pick_inputs(rng, cands, n)
    if keys is None:
      return None
    form = 'single' if n == 1 and rng.random() < 0.6 else rng.choice(['tuple', 'list'])
    op = {'op': 'select', 'fn': None, 'in': K(*keys, form=form)}
    defaultable = all(isinstance(k, str) or k == SELF or
                      (isinstance(k, dict) and 'path' in k and
                       all(isinstance(s, str) for s in k['path']))
                      for k in keys) and len({hk(k) for k in keys}) == len(keys) \
        and (SELF not in keys or len(keys) == 1)
    if defaultable and rng.random() < 0.5:
      op['out'] = K(*keys, form=form)
      op['out_default'] = True
    else:
      names = _fresh(rng, frozenset(), n + 1)
      r = rng.random()
      if r < 0.2 and n == 1:
        op['out'] = K(SELF)
      elif r < 0.35 and n > 1 and not bs:
        op['out'] = K(names[0]) if r < 0.28 else K(SELF)   # gets the tuple
      else:
        outs = names[:n]
        if n > 1 and rng.random() < 0.3 and not bs:
          outs[rng.randrange(n)] = SKIP
        op['out'] = K(*outs, form='single' if n == 1 and rng.random() < 0.5
                      else rng.choice(['tuple', 'list']))
    if bs:
      op['bs'] = bs
    return op

  if kind == 'filter':
    name = rng.choice(PREDS)
    arity = POOL[name][1]
    if arity == 1 and rng.random() < 0.5:
      return {'op': 'filter', 'fn': name, 'in': K(SELF), 'in_default': True}
    keys = _pick_inputs(rng, cands, arity)
    if keys is None:
      return None
    return {'op': 'filter', 'fn': name, 'in': _in_container(rng, keys)}

  if kind == 'sink':
    if rng.random() < 0.5:
      return {'op': 'sink', 'fn': None, 'in': K(SELF), 'in_default': True}
    keys = _pick_inputs(rng, cands, rng.choice([1, 2, 3]))
    if keys is None:
      return None
    c = _in_container(rng, keys, names=['p', 'q', 'r'][:len(keys)])
    return {'op': 'sink', 'fn': None, 'in': c}

  if kind == 'batch':
    cols = batch_cols(tracked, stream)
    if cols is None:
      return None
    n = rng.choice([0, 1, 2, 2, 3, 3])
    op = {'op': 'batch', 'fn': None, 'n': n, 'cols': cols}
    if n == 0 and rng.random() < 0.5:
      op['n_default'] = True
    return op
  raise ValueError(kind)


KINDS = ['apply'] * 3 + ['assign'] * 3 + ['select'] * 2 + ['filter'] * 2 + \
    ['sink'] * 2 + ['batch']


def gen_chain(rng, records, n_ops, *, kinds=KINDS, rebatch_ok=True,
              c12_assign=False, resolve_fn=resolve, state=None):
  """Random chain, valid for `records`, free of known-defect triggers.

  state = (chain, stream, tracked) continues an existing prefix.
  Returns (chain, final interpreter stream, tracked).
  """
  if state is None:
    chain, stream, tracked = [], [dec(enc(r)) for r in records], frozenset()
  else:
    chain, stream, tracked = list(state[0]), state[1], state[2]
  for _ in range(n_ops):
    if not stream:
      break
    for _attempt in range(40):
      op = propose(rng, stream, tracked, kinds=kinds, rebatch_ok=rebatch_ok,
                   c12_assign=c12_assign)
      if op is None or op_triggers(op, tracked):
        continue
      if op['op'] == 'assign' and not assign_is_documented_valid(tracked, op['out']):
        continue
      try:
        new_stream = interp.run_op(op, stream, resolve_fn)
      except Exception:  # pylint: disable=broad-exception-caught
        continue
      break
    else:
      break
    chain.append(op)
    tracked = track(tracked, op)
    stream = new_stream
  return chain, stream, tracked


def _extend(state, op, resolve_fn=resolve):
  chain, stream, tracked = state
  stream = interp.run_op(op, stream, resolve_fn)
  return chain + [op], stream, track(tracked, op)


TRIGGERS = ['filter-before-any-output-key', 'skip-as-first-stored-output-of-apply',
            'batch-after-skip-output-key', 'batch-after-sink-mixes-self-with-keys',
            'sink-keyword-input-keys', 'falsy-index-0-output-key-of-assign',
            'falsy-index-0-output-key-of-select',
            'batch-after-select-mixes-self-with-keys']
# Directed regression chains whose defect is repaired and has no static trigger any more.
UNTRIGGERED = ('batch-after-skip-output-key', 'batch-after-sink-mixes-self-with-keys',
               'batch-after-select-mixes-self-with-keys')


def gen_trigger_chain(rng, records, trigger):
  """A short chain containing exactly one known-defect trigger (or None)."""
  try:
    if trigger == 'filter-before-any-output-key':
      state = ([], [dec(enc(r)) for r in records], frozenset())
      name = rng.choice(['pb', 'pi', 'pt'])
      state = _extend(state, {'op': 'filter', 'fn': name, 'in': K(SELF),
                              'in_default': True})
      return gen_chain(rng, records, rng.randint(0, 2), state=state)[0]
    state = gen_chain(rng, records, rng.randint(0, 2), rebatch_ok=False)
    if not state[1]:
      return None
    if trigger == 'skip-as-first-stored-output-of-apply':
      op = {'op': 'apply', 'fn': rng.choice(['t2', 't3']), 'in': K(SELF),
            'in_default': True}
      op['out'] = K(SKIP, 'a') if op['fn'] == 't2' else K(SKIP, 'a', 'b')
      return _extend(state, op)[0]
    if trigger == 'batch-after-skip-output-key':
      state = _extend(state, {'op': 'apply', 'fn': 't2', 'in': K(SELF),
                              'in_default': True, 'out': K('a', SKIP)})
      return _extend(state, {'op': 'batch', 'fn': None, 'n': rng.choice([1, 2, 3]),
                             'cols': K('a', form='tuple')})[0]
    if trigger == 'batch-after-sink-mixes-self-with-keys':
      state = _extend(state, {'op': 'apply', 'fn': 't2', 'in': K(SELF),
                              'in_default': True, 'out': K('a', 'b')})
      state = _extend(state, {'op': 'sink', 'fn': None, 'in': K(SELF),
                              'in_default': True})
      return _extend(state, {'op': 'batch', 'fn': None, 'n': rng.choice([1, 2, 3]),
                             'cols': K('a', 'b')})[0]
    if trigger == 'batch-after-select-mixes-self-with-keys':
      state = _extend(state, {'op': 'apply', 'fn': 'echo', 'in': K(SELF),
                              'in_default': True, 'out': K(SELF)})
      state = _extend(state, {'op': 'select', 'fn': None, 'in': K(SELF),
                              'out': K('k', form='tuple')})
      return _extend(state, {'op': 'batch', 'fn': None, 'n': rng.choice([1, 2, 3]),
                             'cols': K('k', form='tuple')})[0]
    if trigger == 'sink-keyword-input-keys':
      keys = _pick_inputs(rng, candidates(state[1]), rng.choice([1, 2]))
      names = ['p', 'q'][:len(keys)]
      return _extend(state, {'op': 'sink', 'fn': None,
                             'in': {'form': 'kw', 'names': names, 'keys': keys}})[0]
    if trigger == 'falsy-index-0-output-key-of-assign':
      state = ([], [dec(enc(r)) for r in records], frozenset())
      if kind_of(state[1][0]) != 'list':
        return None
      return _extend(state, {'op': 'assign', 'fn': 'd1', 'in': K(idx(1)),
                             'out': K(idx(0))})[0]
    if trigger == 'falsy-index-0-output-key-of-select':
      cands = [c for c in candidates(state[1]) if len(c[0]) == 1]
      if not cands:
        return None
      return _extend(state, {'op': 'select', 'fn': None,
                             'in': K(key_for(rng, rng.choice(cands)[0])),
                             'out': K(idx(0))})[0]
  except Exception:  # pylint: disable=broad-exception-caught
    return None
  raise ValueError(trigger)


# ---------------------------------------------------------------------------
# Aggregates behind a chain, outputs dropped with SKIP (C08 'aggskip' chunks)
# ---------------------------------------------------------------------------

AGG_NAMES = ['m', 'n', 'r', 's', 't', 'u', 'v', 'w', 'm2', 'n2', 'SKIP', 'SELF']


class DigestAgg:
  """User aggregate with n_out outputs; order sensitive, total on every value."""

  def __init__(self, tag, n_out):
    self.tag, self.n_out = tag, n_out

  def create_state(self):
    return []

  def update_state(self, state, *args, **kwargs):
    return state + [dg(self.tag, args, sorted(kwargs.items()))]

  def merge_states(self, states):
    return [x for s in states for x in s]

  def get_result(self, state):
    outs = (dg(self.tag + 'r', state), len(state), [dg(self.tag + 'l', state[:1])],
            {'p': sum(state) % 997})[:self.n_out]
    return outs[0] if self.n_out == 1 else tuple(outs)


def make_agg(spec):
  return DigestAgg(spec['fn'], spec['n_out'])


def agg_with_skips(spec, positions):
  """The aggregate / assign spec with exactly `positions` of its outputs under SKIP."""
  keys = [SKIP if i in positions else n for i, n in enumerate(spec['names'])]
  form = 'single' if len(keys) == 1 and spec.get('single') else 'tuple'
  return dict(spec, skip=sorted(positions), out=K(*keys, form=form))


def add_aggs(t, aggs):
  """Stacks aggregate specs on a TreeTransform through the public API."""
  for i, a in enumerate(aggs):
    kw = dict(input_keys=lib_keys(a['in']), output_keys=lib_keys(a['out']))
    if i == 0:
      t = (t.agg if a['api'] == 'agg' else t.aggregate)(make_agg(a), **kw)
    else:
      t = (t.add_agg if a['api'] == 'agg' else t.add_aggregate)(fn=make_agg(a), **kw)
  return t


def _skip_positions(rng, n_out, how_many):
  return sorted(rng.sample(range(n_out), how_many))


def gen_aggs(rng, stream, cls):
  """1-3 stacked aggregates for the stream; cls in control / one / repeat.

  control: no SKIP; one: exactly one SKIP in exactly one aggregate; repeat: two or
  more SKIPs in total (inside one aggregate and / or across stacked aggregates).
  Every aggregate keeps at least one output; kept names are distinct over the stack.
  """
  cands = candidates(stream)
  n_aggs = rng.choice([1, 1, 2, 2, 3])
  names = rng.sample(AGG_NAMES, len(AGG_NAMES))
  aggs = []
  for i in range(n_aggs):
    n_out = rng.choice([1, 2, 2, 3, 3, 4]) if i else rng.choice([2, 3, 4])
    keys = _pick_inputs(rng, cands, rng.choice([1, 1, 2]))
    spec = {'fn': 'g%d' % i, 'n_out': n_out, 'in': _in_container(rng, keys),
            'names': [names.pop() for _ in range(n_out)] if n_out <= len(names) else None,
            'single': rng.random() < 0.5, 'api': rng.choice(['agg', 'aggregate'])}
    if spec['names'] is None:
      return None
    aggs.append(spec)
  rng.shuffle(aggs)
  multi = [i for i, a in enumerate(aggs) if a['n_out'] >= 2]
  skips = {i: [] for i in range(n_aggs)}
  if cls == 'one':
    i = rng.choice(multi)
    skips[i] = _skip_positions(rng, aggs[i]['n_out'], 1)
  elif cls == 'repeat':
    wide = [i for i in multi if aggs[i]['n_out'] >= 3]
    if len(multi) >= 2 and (not wide or rng.random() < 0.6):
      for i in rng.sample(multi, rng.randint(2, len(multi))):
        skips[i] = _skip_positions(rng, aggs[i]['n_out'],
                                   rng.randint(1, aggs[i]['n_out'] - 1))
    elif wide:
      i = rng.choice(wide)
      skips[i] = _skip_positions(rng, aggs[i]['n_out'],
                                 rng.randint(2, aggs[i]['n_out'] - 1))
      for j in multi:
        if j != i and rng.random() < 0.3:
          skips[j] = _skip_positions(rng, aggs[j]['n_out'], 1)
    else:
      return None
  return [agg_with_skips(a, skips[i]) for i, a in enumerate(aggs)]


def gen_multi_skip_assign(rng, stream, tracked):
  """assign of a 3 / 4-output function with two or more outputs under SKIP (or None)."""
  if not stream or HSELF in tracked or not all(isinstance(r, dict) for r in stream):
    return None
  name = rng.choice(['t3', 't4'])
  n_out = 3 if name == 't3' else 4
  keys = _pick_inputs(rng, candidates(stream), 1)
  names = _fresh(rng, tracked, n_out)
  if names is None:
    return None
  op = {'op': 'assign', 'fn': name, 'in': _in_container(rng, keys), 'names': names}
  return agg_with_skips(op, _skip_positions(rng, n_out, rng.randint(2, n_out - 1)))


def chain_nontrivial(chain, n_records):
  shapes = set()
  for op in chain:
    shapes |= key_shapes(op)
  return len(chain) >= 2 and n_records >= 2 and bool(shapes - {'single', 'SELF'})
