"""Adapters that drive every shipped mergeable metric through one interface.

Shared by the C01 (batching / sharding invariance) and C11 (merge algebra)
checks. One adapter = one (class, configuration). Nothing here computes an
expected metric value: both checks are metamorphic (the library is compared
with itself along two different add/merge histories), so the only arithmetic
is the numeric-closeness comparison in `diff`.

The module must stay importable without numpy / ml_metrics on the path
(`plan()` runs in the parent process); everything heavy is imported lazily.
"""

from __future__ import annotations

import collections
import copy
import enum
import hashlib
import math
import random
import re

RTOL = 1e-9
ATOL = 1e-12

# Modules whose classes form the subject inventory (DESIGN §4 / C01).
DISCOVER_MODULES = (
    'ml_metrics._src.aggregates.rolling_stats',
    'ml_metrics._src.aggregates.classification',
    'ml_metrics._src.aggregates.retrieval',
    'ml_metrics._src.aggregates.text',
    'ml_metrics._src.aggregates.utils',
    'ml_metrics._src.metrics.classification',
    'ml_metrics._src.aggregates.base',
    'ml_metrics._src.aggregates.keras_metric_wrapper',
)

# Classes that satisfy the protocol structurally but cannot be a subject.
NOT_A_SUBJECT = {
    'AggFnNested': 'merge_states raises NotImplementedError by design (TODO in source)',
    'AggregateFn': 'abstract interface',
    'CallableMetric': 'abstract interface',
}

EXPECTED_FAMILIES = (
    'Mean', 'MeanAndVariance', 'Var', 'MinMaxAndCount', 'Histogram', 'Counter',
    'UnboundedSampler', 'ValueAccumulator', 'FixedSizeSample', 'R2Tjur',
    'R2TjurRelative', 'RRegression', 'SymmetricPredictionDifference',
    'MeanState', 'TupleMeanState', 'FrequencyState', 'ConfusionMatrixAggFn',
    'TopKConfusionMatrixAggFn', 'SamplewiseClassification',
    'ClassificationAggFn', 'TopKRetrieval', 'ThresholdedRetrieval',
    'TopKWordNGrams', 'PatternFrequency', 'CalibrationHistogram',
    'KerasAggregateFn',
)

# Mechanism keys the adapters assign to defects of the unchanged tree that were
# reproduced by hand (candidates for known_findings.json / fix commits). Every
# other violation gets the generic key '<Family>:<kind>' and is therefore new.
CANDIDATE_DEFECT_KEYS = {
    'topk-retrieval-klist-truncated-per-batch':
        'TopKRetrieval.add truncates k_list to the batch\'s longest ranking; batches / '
        'states of different width cannot be merged (broadcasting ValueError)  [C01, C11]',
    'topk-retrieval-per-batch-k-changes-row-values':
        'same truncation, visible as values: threat_score / mean_average_precision / '
        'ndcg_score of a short ranking depend on the longest ranking in its batch  [C01]',
    'topk-confusion-matrix-loses-k-after-second-batch':
        'ConfusionMatrixAggFn.update_state uses _ConfusionMatrix.__add__, which returns a '
        'plain _ConfusionMatrix: the TopK state loses `k` from the second batch on  [C01, C11]',
    'fixed-size-sample-merge-mutates-operand':
        'FixedSizeSample._merge_reservoirs pops from other.reservoir  [C11]',
    'thresholded-retrieval-result-cached-stale':
        '_ThresholdedConfusionMatrix.precision/recall/f1_score are cached_property: after '
        'one result() later add()/merge() no longer change the result  [C11]',
    'confusion-matrix-merge-states-rejects-empty-state':
        'ConfusionMatrixAggFn.merge_states cannot take create_state() (None) on either '
        'side  [C01 empty shard, C11 identity]',
    'minmaxandcount-axis-merge-with-empty-state':
        'MinMaxAndCount(axis=0).merge uses np.min((a, b), axis) -> inhomogeneous shape '
        'when one side is still the scalar initial value  [C01, C11]',
    'mean-and-variance-merge-nan-column-variance':
        'MeanAndVariance.merge feeds NaN variances of value-less columns into the '
        'pairwise formula (0 * nan), resets or drops operands whose var is all-NaN  [C01, C11]',
    'unbounded-sampler-merge-empty-operand-raises':
        'UnboundedSampler.merge(non-empty, fresh): zip(strict=True) over ()  [C01, C11]',
    'value-accumulator-merge-empty-operand-raises':
        'ValueAccumulator.merge(non-empty, fresh): zip(strict=True) over ()  [C01, C11]',
    'tuple-mean-state-merge-empty-operand-raises':
        'TupleMeanState.merge(non-empty, fresh): zip(strict=True) over ()  [C01, C11]',
    # second audit round (audits/aggregates/round2)
    'fixed-size-sample-merged-logw-collapses-add-raises':
        'FixedSizeSample.merge adds the log acceptance weights of its operands; after many '
        'merged states the weight underflows and the next add() raises IndexError  [C01, C11]',
    'multiclass-without-vocab-batch-dependent':
        'multiclass / multiclass-multioutput input without vocab: the class vocabulary is '
        're-deduced per batch, count vectors of different classes are added position by '
        'position (macro) and tn depends on the classes of the batch (micro / samples)  [C01]',
    'multiclass-binary-average-positive-class-from-set-order':
        'multiclass input, average=binary (the default), no vocab: the positive class is the '
        'first element of set(labels) of the batch  [C01]',
    'macro-merge-needs-vocab-for-fixed-position-encodings':
        'ConfusionMatrixAggFn.merge_states demands a vocab for macro average also on binary / '
        'multiclass-indicator input, whose class positions are fixed by the encoding and '
        'which never read the vocab (third audit aggregates/round3/hunt_2.py)  [C01, C11]',
    'fixed-size-sample-merge-small-operand-into-large-receiver':
        'FixedSizeSample._merge_reservoirs draws from the operand with probability n_other / '
        '(n_self + n_other) of the REVIEWED counts: an operand of smaller max_size that '
        'reviewed more than it holds is drawn from more often than it has samples -> '
        'ValueError(high <= 0) with the receiver already half popped (third audit '
        'aggregates/round3/hunt_3.py; scenario reservoir_unequal)  [C01, C11]',
    'mean-variance-drops-batch-containing-inf':
        'Mean / MeanAndVariance / Var.merge take an operand whose mean / variance is NaN for '
        'an empty one: a batch holding +-inf is dropped with its finite values and its '
        'count (or its NaN column mean is treated as "no data")  [C01, C07]',
    'mean-merge-infinite-mean-then-finite-batch-gives-nan':
        'Mean.merge updates mean += (other.mean - mean) * ratio: with an accumulated mean of '
        '+-inf this is inf - inf = NaN although the mean of the data is +-inf  [C01, C07]',
    'keras-aggregate-fn-shared-state':
        'KerasAggregateFn.create_state() resets and returns the one shared metric object: '
        'all states of one aggregate function are the same object  [C01, C11]',
}

NAN = float('nan')
INF = float('inf')


def stable_int(*parts) -> int:
  s = ':'.join(str(p) for p in parts)
  return int.from_bytes(hashlib.blake2b(s.encode(), digest_size=6).digest(), 'big')


# ---------------------------------------------------------------------------
# canonical form and comparison
# ---------------------------------------------------------------------------


def _key(k):
  if isinstance(k, enum.Enum):
    return str(k.value)
  if isinstance(k, str):
    return str.__str__(k)
  return repr(k)


def canonize(x):
  """Nested lists / dicts / python scalars; independent of the source object."""
  import numpy as np
  if x is None or isinstance(x, (bool, int, float)):
    return x
  if isinstance(x, enum.Enum):
    return str(x.value)
  if isinstance(x, str):
    return str.__str__(x)
  if isinstance(x, bytes):
    return repr(x)
  if isinstance(x, np.generic):
    return x.item()
  if isinstance(x, np.ndarray):
    return canonize(x.tolist())
  if isinstance(x, dict):  # includes Counter / defaultdict
    return {_key(k): canonize(v) for k, v in x.items()}
  if isinstance(x, (list, tuple)):
    return [canonize(e) for e in x]
  raise TypeError(f'cannot canonize {type(x).__name__}')


def _isnum(x):
  return isinstance(x, (bool, int, float))


def diff(a, b, atol=ATOL, rtol=RTOL, path='', out=None, cap=12):
  """Returns [(path, a, b), ...] for every leaf where a and b disagree."""
  if out is None:
    out = []
  if len(out) >= cap:
    return out
  if _isnum(a) and _isnum(b):
    fa, fb = float(a), float(b)
    if math.isnan(fa) or math.isnan(fb):
      if not (math.isnan(fa) and math.isnan(fb)):
        out.append((path, a, b))
    elif math.isinf(fa) or math.isinf(fb):
      if fa != fb:
        out.append((path, a, b))
    elif abs(fa - fb) > atol + rtol * max(abs(fa), abs(fb)):
      out.append((path, a, b))
    return out
  if isinstance(a, list) and isinstance(b, list):
    if len(a) != len(b):
      out.append((path + '.len', len(a), len(b)))
      return out
    for i, (x, y) in enumerate(zip(a, b)):
      diff(x, y, atol, rtol, f'{path}[{i}]', out, cap)
    return out
  if isinstance(a, dict) and isinstance(b, dict):
    if set(a) != set(b):
      out.append((path + '.keys', sorted(a), sorted(b)))
      return out
    for k in a:
      diff(a[k], b[k], atol, rtol, f'{path}.{k}', out, cap)
    return out
  if type(a) is type(b) and a == b:
    return out
  out.append((path, a, b))
  return out


# ---------------------------------------------------------------------------
# adapter base + driver
# ---------------------------------------------------------------------------


class Adapter:
  """One (class, configuration)."""

  name = ''
  family = ''            # counter key, one of EXPECTED_FAMILIES (or a wrapper)
  covers = ()            # class names of the inventory exercised by this adapter
  modes = ('obj',)       # 'obj' = add/merge/result; 'aggfn' = AggregateFn API
  order_carrying = False
  commutative = True
  reservoir = False
  allows_empty_batch = False
  per_row = False        # add() returns per-row values (obj mode)
  result_is_copy = False  # result() is implemented as a defensive copy
  scale = 1.0            # magnitude of the results (atol = 1e-12 * scale)
  checks = ('C01', 'C11')  # property modules that iterate over this adapter

  def accepts_refusal(self, exc, step):
    """True when `exc` (type name, message) raised at `step` ('add' / 'merge') is
    an explicit refusal of this configuration that the property accepts."""
    del exc, step
    return False

  # -- construction --------------------------------------------------------
  def build(self):
    raise NotImplementedError

  def build_aggfn(self):
    return self.build().as_agg_fn()

  def make(self):
    """Fresh accumulator (object API)."""
    return self.build()

  # -- data ------------------------------------------------------------------
  def gen_dataset(self, rng, n):
    raise NotImplementedError

  def args(self, rows):
    """Positional arguments of add()/update_state() for ONE batch."""
    raise NotImplementedError

  def add(self, acc, *args):
    return acc.add(*args)

  def feed(self, acc, rows):
    return self.add(acc, *self.args(rows))

  def feed_aggfn(self, fn, state, rows):
    return fn.update_state(state, *self.args(rows))

  # -- observation -----------------------------------------------------------
  def canon(self, result):
    return canonize(result)

  def observe(self, state, result):
    """Canonical comparable form (may look at documented state properties)."""
    del state
    return self.canon(result)

  def compare(self, a, b):
    return diff(a, b, atol=ATOL * self.scale, rtol=RTOL)

  def row_values(self, out, nrows):
    raise NotImplementedError

  # How the library itself evaluates ONE batch without merging anything:
  # 'new' = CallableMetric.new(batch) (what __call__ uses), 'add_return' = the
  # value add() returns is documented as the batch result. None = no such path.
  one_batch_path = None
  # False when new() drops configuration (e.g. batch_score_fn), so that the
  # batch state cannot be fed further batches in the adapter's row format.
  new_state_is_accumulator = True

  def one_batch_state(self, rows):
    """State of one batch built without merge (object API), or None."""
    if self.one_batch_path == 'new' and (rows or self.allows_empty_batch):
      return self.make().new(*self.args(rows))
    return None

  def one_batch_obs(self, rows):
    """('ok', canon) of the batch evaluated without any merge, or None."""
    if self.one_batch_path == 'new':
      st = self.one_batch_state(rows)
      return None if st is None else ('ok', self.observe(st, st.result()))
    if self.one_batch_path == 'add_return' and (rows or self.allows_empty_batch):
      return ('ok', self.canon(self.feed(self.make(), rows)))
    return None

  def scribble(self, result):
    raise NotImplementedError

  def invariants(self, rows, canon):
    """Conservation laws of the one-batch result, in plain Python arithmetic.

    Only for classes whose add() and merge() share one code path AND that offer
    no merge-free evaluation of a batch: there a broken merge would break the
    reference and the subject identically. Returns a list of diffs.
    """
    del rows, canon
    return []

  # -- triage ------------------------------------------------------------------
  def mechanism(self, kind, diffs=None, exc=None, rows=None):
    """Stable key: why does it fail (never a seed / value)."""
    del diffs, exc, rows
    return f'{self.family}:{kind}'


class Handle:
  __slots__ = ('state',)

  def __init__(self, state):
    self.state = state


class Driver:
  """Uniform add / merge / result over the object API or the AggregateFn API."""

  def __init__(self, adapter, mode):
    self.ad = adapter
    self.mode = mode
    self.fn = adapter.build_aggfn() if mode == 'aggfn' else None

  def make(self):
    if self.mode == 'obj':
      return Handle(self.ad.make())
    return Handle(self.fn.create_state())

  def feed(self, h, rows):
    if self.mode == 'obj':
      return self.ad.feed(h.state, rows)
    h.state = self.ad.feed_aggfn(self.fn, h.state, rows)
    return None

  def merge(self, h, others):
    """h <- h + others (in order). Only h may be modified."""
    if self.mode == 'obj':
      for o in others:
        h.state.merge(o.state)
    else:
      h.state = self.fn.merge_states([h.state] + [o.state for o in others])
    return h

  def raw_result(self, h):
    if self.mode == 'obj':
      return h.state.result()
    return self.fn.get_result(h.state)

  def observe(self, h):
    """('ok', canon) or ('raised', exception type name, message)."""
    try:
      return ('ok', self.ad.observe(h.state, self.raw_result(h)))
    except Exception as e:  # pylint: disable=broad-exception-caught
      return ('raised', type(e).__name__, str(e)[:160])

  def clone(self, h):
    return Handle(copy.deepcopy(h.state))


def compare_obs(ad, a, b):
  """Compares two Driver.observe() values -> list of diffs."""
  if a[0] != b[0]:
    return [('<outcome>', a[:2] if a[0] == 'raised' else 'returns',
             b[:2] if b[0] == 'raised' else 'returns')]
  if a[0] == 'raised':
    return [] if a[1] == b[1] else [('<exception>', a[1], b[1])]
  return ad.compare(a[1], b[1])


def _contains_nan(x):
  if isinstance(x, float):
    return x != x
  if isinstance(x, (list, tuple)):
    return any(_contains_nan(e) for e in x)
  return False


def _contains_inf(x):
  if isinstance(x, float):
    return x in (INF, -INF)
  if isinstance(x, (list, tuple)):
    return any(_contains_inf(e) for e in x)
  return False


def _dy(rng, lo, hi, den=8):
  """Dyadic rational in [lo, hi]: sums of these are exact in binary64."""
  return rng.randint(lo * den, hi * den) / den


def _rs():
  from ml_metrics._src.aggregates import rolling_stats
  return rolling_stats


# ---------------------------------------------------------------------------
# rolling_stats
# ---------------------------------------------------------------------------


def _score_rows(batch):
  return [r['s'] for r in batch]


class MeanAd(Adapter):
  """Mean / MeanAndVariance / Var over 1-D, 2-D (3 columns) or scored rows."""

  one_batch_path = 'new'

  modes = ('obj', 'aggfn')

  def __init__(self, cls_name, shape, data='nan'):
    self.cls_name, self.shape, self.data = cls_name, shape, data
    self.family = cls_name
    self.covers = (cls_name,)
    self.name = f'{cls_name}/{shape}' + ('' if data == 'nan' else ',' + data)
    self.scale = 1e3 if cls_name == 'Mean' else 1e6
    self.new_state_is_accumulator = shape != 'scored'
    if data == 'inf':
      # input class "+inf / -inf among finite values, no NaN" (C01; C07 has the
      # numpy-free oracle for the same class); C11 iterates it since the fourth seed
      # round (C11d): a state holding +inf and -inf has values AND a NaN mean, which
      # only matters when it is the receiver of a merge
      self.checks = ('C01', 'C11')

  def build(self):
    cls = getattr(_rs(), self.cls_name)
    return cls(batch_score_fn=_score_rows) if self.shape == 'scored' else cls()

  def _gen_inf_dataset(self, rng, n):
    """Finite dyadic values with a few +inf / -inf entries, never a NaN."""
    signs = rng.choice([(INF,), (INF,), (-INF,), (INF, -INF), (INF, -INF)])
    p = rng.choice([0.1, 0.25, 0.5])
    def val():
      return rng.choice(signs) if rng.random() < p else _dy(rng, -1000, 1000)
    if self.shape in ('1d', 'scored'):
      rows = [val() for _ in range(n)]
      if n and not _contains_inf(rows):
        rows[rng.randrange(n)] = rng.choice(signs)
      return rows
    col = rng.choice([None, 0, 1, 2])  # inf in one column only / anywhere
    rows = [[val() if col in (None, j) else _dy(rng, -1000, 1000) for j in range(3)]
            for _ in range(n)]
    if n and not _contains_inf(rows):
      rows[rng.randrange(n)][col or 0] = rng.choice(signs)
    return rows

  def gen_dataset(self, rng, n):
    if self.data == 'inf':
      return self._gen_inf_dataset(rng, n)
    mode = rng.choice(['none', 'sparse', 'sparse', 'col_all', 'col_block', 'all'])
    if self.shape in ('1d', 'scored'):
      rows = []
      block = sorted((rng.randint(0, n), rng.randint(0, n)))
      for i in range(n):
        if mode == 'all' and rng.random() < 0.5:
          rows.append(NAN)
        elif mode == 'sparse' and rng.random() < 0.25:
          rows.append(NAN)
        elif mode == 'col_block' and block[0] <= i < block[1]:
          rows.append(NAN)
        else:
          rows.append(_dy(rng, -1000, 1000))
      if mode == 'col_all':
        rows = [NAN] * n
      return rows
    d = 3
    col = rng.randrange(d)
    block = sorted((rng.randint(0, n), rng.randint(0, n)))
    rows = []
    for i in range(n):
      row = []
      for j in range(d):
        if mode in ('sparse', 'all') and rng.random() < 0.2:
          row.append(NAN)
        elif mode == 'col_all' and j == col:
          row.append(NAN)
        elif mode == 'col_block' and j == col and block[0] <= i < block[1]:
          row.append(NAN)
        else:
          row.append(_dy(rng, -1000, 1000))
      rows.append(row)
    return rows

  def args(self, rows):
    if self.shape == 'scored':
      return ([{'s': r} for r in rows],)
    if self.shape == '2d':
      return ([list(r) for r in rows],)
    return (list(rows),)

  def canon(self, result):
    if self.cls_name == 'MeanAndVariance':
      return {'count': canonize(result.count), 'mean': canonize(result.mean),
              'var': canonize(result.var), 'total': canonize(result.total)}
    return canonize(result)

  def _inf_mechanism(self, diffs, rows):
    """Key of a failure on data that holds +-inf and no NaN, by the column the
    differing leaf belongs to (every column when the leaf names none)."""
    two_d = bool(rows) and isinstance(rows[0], (list, tuple))
    cols = [[r[j] for r in rows] for j in range(len(rows[0]))] if two_d else [list(rows)]
    if two_d and diffs and len(diffs) == 1:
      m = re.search(r'\[(\d+)\]$', diffs[0][0])
      if m and int(m.group(1)) < len(cols):
        cols = [cols[int(m.group(1))]]
    pos = any(INF in c for c in cols)
    neg = any(-INF in c for c in cols)
    both = any(INF in c and -INF in c for c in cols)
    if not (pos or neg):
      return None
    if self.cls_name != 'Mean' or both:
      # some batch / operand has values but a NaN variance (any inf) or a NaN
      # mean (+inf and -inf): it is what merge() takes for "empty"
      return 'mean-variance-drops-batch-containing-inf'
    return 'mean-merge-infinite-mean-then-finite-batch-gives-nan'

  def mechanism(self, kind, diffs=None, exc=None, rows=None):
    if rows is not None and _contains_inf(rows) and not _contains_nan(rows):
      key = self._inf_mechanism(diffs, rows)
      if key:
        return key
    if (self.cls_name in ('MeanAndVariance', 'Var') and self.shape == '2d'
        and rows is not None and _contains_nan(rows)):
      # 2-D input in which some column has no value in some batch / operand:
      # its NaN variance enters the pairwise combination unmasked.
      return 'mean-and-variance-merge-nan-column-variance'
    return super().mechanism(kind, diffs, exc, rows)


class MinMaxAd(Adapter):
  family = 'MinMaxAndCount'
  covers = ('MinMaxAndCount',)
  modes = ('obj', 'aggfn')
  scale = 1e3

  def __init__(self, axis):
    self.axis = axis
    self.name = f'MinMaxAndCount/axis={axis}'

  def build(self):
    return _rs().MinMaxAndCount(axis=self.axis)

  def gen_dataset(self, rng, n):
    hi = rng.choice([3, 50, 1000])
    if self.axis is None and rng.random() < 0.5:
      return [_dy(rng, 0, hi) for _ in range(n)]
    return [[_dy(rng, 0, hi) for _ in range(3)] for _ in range(n)]

  def args(self, rows):
    return ([list(r) if isinstance(r, list) else r for r in rows],)

  def canon(self, result):
    return {'count': canonize(result.count), 'min': canonize(result.min),
            'max': canonize(result.max)}

  def mechanism(self, kind, diffs=None, exc=None, rows=None):
    if self.axis is not None and exc and 'inhomogeneous' in exc[1]:
      return 'minmaxandcount-axis-merge-with-empty-state'
    return super().mechanism(kind, diffs, exc, rows)


class HistogramAd(Adapter):
  family = 'Histogram'
  one_batch_path = 'new'
  covers = ('Histogram',)
  modes = ('obj', 'aggfn')
  allows_empty_batch = True
  result_is_copy = True
  scale = 1e3

  def __init__(self, variant):
    self.variant = variant
    self.name = f'Histogram/{variant}'

  def build(self):
    H = _rs().Histogram
    if self.variant == 'range':
      return H(range=(0, 1), bins=4)
    if self.variant == 'edges':
      return H(bins=(-2.0, -0.5, 0.0, 0.25, 1.0, 3.0))
    return H(range=(-2, 2), bins=8)  # weighted

  def gen_dataset(self, rng, n):
    xs = [_dy(rng, -3, 3, 16) for _ in range(n)]
    if self.variant == 'weighted':
      return [[x, _dy(rng, 0, 4)] for x in xs]
    return xs

  def args(self, rows):
    if self.variant == 'weighted':
      return ([r[0] for r in rows], [r[1] for r in rows])
    return (list(rows),)

  def canon(self, result):
    return {'hist': canonize(result.hist), 'bin_edges': canonize(result.bin_edges)}

  def scribble(self, result):
    result.hist[...] = result.hist + 7
    result.bin_edges[...] = result.bin_edges - 1


class CounterAd(Adapter):
  family = 'Counter'
  one_batch_path = 'new'
  covers = ('Counter',)
  modes = ('obj', 'aggfn')
  allows_empty_batch = True
  name = 'Counter/mixed-keys'

  def build(self):
    return _rs().Counter()

  def gen_dataset(self, rng, n):
    pool = rng.choice([['a', 'b', 'c'], [1, 2, 3, 4, 5, 6], ['x', 'y', 7, 8, 'zz']])
    return [rng.choice(pool) for _ in range(n)]

  def args(self, rows):
    return (list(rows),)


class _ZipStrictMixin:
  """merge(non-empty, fresh) -> zip(strict=True) over an empty tuple."""

  empty_operand_key = ''

  def mechanism(self, kind, diffs=None, exc=None, rows=None):
    if exc and exc[0] == 'ValueError' and 'zip() argument' in exc[1]:
      return self.empty_operand_key
    return super().mechanism(kind, diffs, exc, rows)


class UnboundedSamplerAd(_ZipStrictMixin, Adapter):
  family = 'UnboundedSampler'
  one_batch_path = 'new'
  empty_operand_key = 'unbounded-sampler-merge-empty-operand-raises'
  covers = ('UnboundedSampler',)
  modes = ('obj', 'aggfn')
  allows_empty_batch = True
  order_carrying = True
  commutative = False

  def __init__(self, columns):
    self.columns = columns
    self.name = f'UnboundedSampler/{columns}col'

  def build(self):
    return _rs().UnboundedSampler()

  def gen_dataset(self, rng, n):
    if self.columns == 1:
      return [rng.randint(0, 99) for _ in range(n)]
    return [[rng.randint(0, 99), rng.choice('abcdef')] for _ in range(n)]

  def args(self, rows):
    if self.columns == 1:
      return (list(rows),)
    return ([r[0] for r in rows], [r[1] for r in rows])


def _concat_list(x, y):
  return x + y


def _concat_np(x, y):
  import numpy as np
  return np.concatenate((x, y), axis=-1)


class ValueAccumulatorAd(_ZipStrictMixin, Adapter):
  family = 'ValueAccumulator'
  empty_operand_key = 'value-accumulator-merge-empty-operand-raises'
  covers = ('ValueAccumulator',)
  modes = ('obj', 'aggfn')
  order_carrying = True
  commutative = False

  def __init__(self, variant):
    self.variant = variant
    self.name = f'ValueAccumulator/{variant}'
    self.allows_empty_batch = variant in ('concat_list', 'two_columns')
    # new() builds the batch state without concat_fn / metric_fns, so it is only
    # a merge operand inside add(), not a stand-alone accumulator: no merge-free
    # path is compared for this class.
    self.one_batch_path = None

  def build(self):
    VA = _rs().ValueAccumulator
    if self.variant == 'noconcat':
      return VA()
    if self.variant == 'concat_np':
      return VA(concat_fn=_concat_np)
    if self.variant == 'metric_fns':
      return VA(_concat_list, {'sum': sum, 'len': len, 'first3': lambda x: x[:3]})
    return VA(concat_fn=_concat_list)

  def gen_dataset(self, rng, n):
    if self.variant == 'two_columns':
      return [[rng.randint(0, 99), rng.choice('abcdef')] for _ in range(n)]
    return [rng.randint(0, 99) for _ in range(n)]

  def args(self, rows):
    if self.variant == 'two_columns':
      return ([r[0] for r in rows], [r[1] for r in rows])
    if self.variant == 'concat_np':
      import numpy as np
      return (np.asarray(rows, dtype=np.int64),)
    return (list(rows),)

  def feed(self, acc, rows):
    if self.variant == 'noconcat':
      # Without concat_fn the unit of add() is ONE value (upstream test:
      # `for x in inputs: accumulator.add(x)`): a batch is fed value by value.
      out = None
      for r in rows:
        out = acc.add(r)
      return out
    return super().feed(acc, rows)

  def feed_aggfn(self, fn, state, rows):
    if self.variant == 'noconcat':
      for r in rows:
        state = fn.update_state(state, r)
      return state
    return super().feed_aggfn(fn, state, rows)


class FixedSizeSampleAd(Adapter):
  family = 'FixedSizeSample'
  covers = ('FixedSizeSample',)
  modes = ('obj', 'aggfn')
  allows_empty_batch = True
  reservoir = True

  def __init__(self, max_size, seed):
    self.max_size, self.seed = max_size, seed
    self.name = f'FixedSizeSample/size={max_size}'

  def build(self):
    return _rs().FixedSizeSample(max_size=self.max_size, seed=self.seed)

  def gen_dataset(self, rng, n):
    if rng.random() < 0.5:
      base = rng.randint(0, 1000)
      return list(range(base, base + n))
    return [rng.randint(0, 9) for _ in range(n)]

  def args(self, rows):
    # a range is a valid (sized, sliceable) input and keeps huge shards cheap
    return (rows if isinstance(rows, range) else list(rows),)

  def observe(self, state, result):
    return {'reservoir': sorted(canonize(list(result))),
            'reviewed': canonize(state.num_samples_reviewed)}

  def reservoir_diffs(self, obs, rows):
    """size / membership / reviewed-count against the multiset `rows`."""
    out = []
    if obs[0] != 'ok':
      return [('<outcome>', obs[:2], 'returns')]
    c = obs[1]
    want = min(self.max_size, len(rows))
    if len(c['reservoir']) != want:
      out.append(('.reservoir.len', len(c['reservoir']), want))
    if c['reviewed'] != len(rows):
      out.append(('.reviewed', c['reviewed'], len(rows)))
    if isinstance(rows, range):
      # distinct values: every sample at most once and inside the range
      seen = collections.Counter(c['reservoir'])
      extra = sorted(v for v, k in seen.items()
                     for _ in range(k - (1 if (isinstance(v, int) and v in rows) else 0)))
    else:
      extra = sorted((collections.Counter(c['reservoir'])
                      - collections.Counter(rows)).elements())
    if extra:
      out.append(('.reservoir.not_in_dataset', extra[:12], []))
    return out

  def mechanism(self, kind, diffs=None, exc=None, rows=None):
    if kind == 'add_after_merge_raises':
      # input class of the many-states scenarios: 20-300 tiny states (or a few
      # states that each reviewed 1e5-3e6 samples) were merged, then add()
      return 'fixed-size-sample-merged-logw-collapses-add-raises'
    if kind in ('operand_changed_by_merge', 'operand_not_independent_after_merge',
                'merge_states_modified_non_first_state'):
      return 'fixed-size-sample-merge-mutates-operand'
    return super().mechanism(kind, diffs, exc, rows)


class R2TjurAd(Adapter):
  modes = ('obj', 'aggfn')
  allows_empty_batch = True

  def __init__(self, cls_name):
    self.cls_name = cls_name
    self.family = cls_name
    self.covers = (cls_name,)
    self.name = f'{cls_name}/binary-labels'

  def build(self):
    return getattr(_rs(), self.cls_name)()

  def gen_dataset(self, rng, n):
    p1 = rng.choice([0.0, 0.3, 0.5, 1.0])
    return [[1 if rng.random() < p1 else 0, _dy(rng, 0, 1, 16)] for _ in range(n)]

  def args(self, rows):
    return ([r[0] for r in rows], [r[1] for r in rows])


class RRegressionAd(Adapter):
  family = 'RRegression'
  covers = ('RRegression',)
  modes = ('obj', 'aggfn')

  def __init__(self, center, ndim):
    self.center, self.ndim = center, ndim
    self.name = f'RRegression/center={center},x{ndim}d'
    self.allows_empty_batch = ndim == 1

  def build(self):
    return _rs().RRegression(center=self.center)

  def gen_dataset(self, rng, n):
    const = rng.random() < 0.1
    rows = []
    for _ in range(n):
      y = _dy(rng, -16, 16)
      if self.ndim == 1:
        x = 2.0 if const else _dy(rng, -16, 16)
      else:
        x = [_dy(rng, -16, 16), 1.5 if const else _dy(rng, -16, 16)]
      rows.append([x, y])
    return rows

  def args(self, rows):
    return ([r[0] for r in rows], [r[1] for r in rows])


class SymmetricPredictionDifferenceAd(Adapter):
  family = 'SymmetricPredictionDifference'
  covers = ('SymmetricPredictionDifference',)
  modes = ('obj', 'aggfn')
  allows_empty_batch = True
  name = 'SymmetricPredictionDifference/1d'

  def build(self):
    return _rs().SymmetricPredictionDifference()

  def gen_dataset(self, rng, n):
    rows = []
    for _ in range(n):
      x = _dy(rng, -100, 100)
      y = -x if rng.random() < 0.1 else _dy(rng, -100, 100)
      rows.append([x, y])
    return rows

  def args(self, rows):
    return ([r[0] for r in rows], [r[1] for r in rows])


# ---------------------------------------------------------------------------
# aggregates/utils
# ---------------------------------------------------------------------------


def _utils():
  from ml_metrics._src.aggregates import utils
  return utils


class MeanStateAd(Adapter):
  family = 'MeanState'
  one_batch_path = 'new'
  covers = ('MeanState',)
  allows_empty_batch = True
  scale = 1e3

  def __init__(self, ndim):
    self.ndim = ndim
    self.name = f'MeanState/{ndim}d'

  def build(self):
    return _utils().MeanState()

  def gen_dataset(self, rng, n):
    if self.ndim == 1:
      return [_dy(rng, -1000, 1000) for _ in range(n)]
    return [[_dy(rng, -1000, 1000) for _ in range(3)] for _ in range(n)]

  def args(self, rows):
    if self.ndim == 1:
      return (list(rows),)
    import numpy as np
    return (np.asarray(rows, dtype=float).reshape(len(rows), 3),)


class TupleMeanStateAd(_ZipStrictMixin, Adapter):
  family = 'TupleMeanState'
  one_batch_path = 'new'
  empty_operand_key = 'tuple-mean-state-merge-empty-operand-raises'
  covers = ('TupleMeanState',)
  allows_empty_batch = True
  scale = 1e3
  name = 'TupleMeanState/2-inputs'

  def build(self):
    return _utils().TupleMeanState()

  def gen_dataset(self, rng, n):
    return [[_dy(rng, -1000, 1000), _dy(rng, 0, 10)] for _ in range(n)]

  def args(self, rows):
    return ([r[0] for r in rows], [r[1] for r in rows])


class FrequencyStateAd(Adapter):
  family = 'FrequencyState'
  covers = ('FrequencyState',)
  allows_empty_batch = True
  name = 'FrequencyState/strings'

  def build(self):
    return _utils().FrequencyState()

  def gen_dataset(self, rng, n):
    pool = rng.choice([['a', 'b', 'c'], ['the', 'cat', 'sat', 'on', 'mat', 'a']])
    return [rng.choice(pool) for _ in range(n)]

  def args(self, rows):
    return (list(rows),)

  one_batch_path = 'new'

  def one_batch_state(self, rows):
    return _utils().FrequencyState(counter=collections.Counter(rows), count=len(rows))

  def add(self, acc, items):
    # FrequencyState has no add(): a batch enters as a batch state that is
    # merged in (exactly what TopKWordNGrams / PatternFrequency do).
    acc.merge(_utils().FrequencyState(
        counter=collections.Counter(items), count=len(items)))


# ---------------------------------------------------------------------------
# classification (confusion-matrix family)
# ---------------------------------------------------------------------------

CM_ALL = (
    'confusion_matrix', 'precision', 'ppv', 'recall', 'f1_score',
    'binary_accuracy', 'sensitivity', 'tpr', 'specificity', 'tnr', 'fall_out',
    'fpr', 'miss_rate', 'fnr', 'negative_prediction_value', 'nvp',
    'false_discovery_rate', 'false_omission_rate', 'threat_score',
    'positive_likelihood_ratio', 'negative_likelihood_ratio',
    'diagnostic_odds_ratio', 'positive_predictive_value',
    'intersection_over_union', 'prevalence', 'prevalence_threshold',
    'matthews_correlation_coefficient', 'informedness', 'markedness',
    'balanced_accuracy',
)
# Quantities that do not involve tn, i.e. do not depend on the vocabulary size.
CM_TN_FREE = (
    'precision', 'ppv', 'recall', 'f1_score', 'sensitivity', 'tpr', 'miss_rate',
    'fnr', 'false_discovery_rate', 'threat_score', 'positive_predictive_value',
    'intersection_over_union',
)
SAMPLEWISE_ALL = tuple(m for m in CM_ALL if m != 'confusion_matrix') + ('accuracy',)
SAMPLEWISE_TN_FREE = CM_TN_FREE + ('accuracy',)

STR_VOCAB = {'a': 0, 'b': 1, 'c': 2, 'd': 3}
INT_VOCAB = {7: 0, 11: 1, 13: 2}
# Two-class pools for average='binary' on multiclass labels. 0 and 8 share their
# slot in an 8-slot set table, so set([0, 8]) and set([8, 0]) iterate in insertion
# order whatever PYTHONHASHSEED is (int hashes are not randomised).
PAIR_INT_VOCAB = {0: 0, 8: 1}
PAIR_STR_VOCAB = {'y': 0, 'n': 1}
VOCABS = {'str': STR_VOCAB, 'int': INT_VOCAB, 'pair_int': PAIR_INT_VOCAB,
          'pair_str': PAIR_STR_VOCAB}

KEY_NO_VOCAB = 'multiclass-without-vocab-batch-dependent'
KEY_BINARY_AVG = 'multiclass-binary-average-positive-class-from-set-order'
KEY_MACRO_MERGE = 'macro-merge-needs-vocab-for-fixed-position-encodings'
# violation kinds of C01 that compare a batched / sharded history with one batch
_BATCHING_KINDS = ('result_mismatch', 'batched_add_raises', 'merge_raises', 'result_raises',
                   'per_row_value_depends_on_batch')


def _tn_free_leaf(path):
  """True when the differing leaf is a quantity that does not involve tn."""
  toks = re.findall(r'\.([A-Za-z_][A-Za-z_0-9]*)', path.split('@')[-1])
  if not toks:
    return False
  if toks[0] == 'confusion_matrix':
    return len(toks) > 1 and toks[1] in ('tp', 'fp', 'fn', 'k')
  return toks[0] in CM_TN_FREE or toks[0] == 'accuracy'


def _vocab_refusal(exc):
  return bool(exc) and exc[0] == 'ValueError' and 'vocab' in exc[1].lower()


def _canon_cm(x):
  """_ConfusionMatrix / _TopKConfusionMatrix -> dict (k is None when absent)."""
  return {'k': canonize(getattr(x, 'k', None)), 'tp': canonize(x.tp),
          'tn': canonize(x.tn), 'fp': canonize(x.fp), 'fn': canonize(x.fn)}


def _canon_cm_result(result):
  if isinstance(result, dict):
    return {_key(k): (_canon_cm(v) if hasattr(v, 'tp') else canonize(v))
            for k, v in result.items()}
  return _canon_cm(result) if hasattr(result, 'tp') else canonize(result)


class _LabelData:
  """Row generators for the four label encodings; rows are [y_true, y_pred]."""

  input_type = 'binary'
  labels = 'int'

  drift = False  # the classes that occur change along the dataset

  def _pool(self, rng):
    vocab = VOCABS[self.labels]
    keys = list(vocab)
    if rng.random() < 0.3:  # some classes never occur in this dataset
      keys = keys[:2]
    return keys

  def _gen_drifting(self, rng, n):
    """Rows whose classes come from a window of the pool that moves with the
    row index: consecutive batches / shards see different sets of classes."""
    pool = list(VOCABS[self.labels])
    rng.shuffle(pool)
    width = rng.choice([1, 2, 2]) if len(pool) > 2 else 1
    steps = rng.randint(2, max(2, len(pool)))
    rows = []
    for i in range(n):
      w = (i * steps) // max(n, 1)
      win = [pool[(w + d) % len(pool)] for d in range(width)]
      if self.input_type == 'multiclass':
        rows.append([rng.choice(win), rng.choice(win)])
      else:
        t = rng.sample(win, rng.randint(1, len(win)))
        p = rng.sample(win, rng.randint(1, len(win)))
        rows.append([t, p])
    return rows

  def gen_dataset(self, rng, n):
    it = self.input_type
    if self.drift and it in ('multiclass', 'multiclass-multioutput') and rng.random() < 0.6:
      return self._gen_drifting(rng, n)
    if it == 'binary':
      pos, neg = ('y', 'n') if self.labels == 'str' else (1, 0)
      p = rng.choice([0.0, 0.5, 0.5, 1.0])
      return [[pos if rng.random() < p else neg,
               pos if rng.random() < 0.5 else neg] for _ in range(n)]
    if it == 'multiclass':
      pool = self._pool(rng)
      return [[rng.choice(pool), rng.choice(pool)] for _ in range(n)]
    if it == 'multiclass-multioutput':
      pool = self._pool(rng)
      rows = []
      for _ in range(n):
        t = rng.sample(pool, rng.randint(1, min(3, len(pool))))
        p = rng.sample(pool, rng.randint(1, len(pool)))
        rows.append([t, p])
      return rows
    if it == 'multiclass-indicator':
      c = self.n_classes
      rows = []
      for _ in range(n):
        t = [0] * c
        t[rng.randrange(c)] = 1
        p = [1 if rng.random() < 0.4 else 0 for _ in range(c)]
        rows.append([t, p])
      return rows
    raise ValueError(it)

  def args(self, rows):
    if self.input_type == 'multiclass-indicator':
      import numpy as np
      c = self.n_classes
      return (np.asarray([r[0] for r in rows], dtype=int).reshape(len(rows), c),
              np.asarray([r[1] for r in rows], dtype=int).reshape(len(rows), c))
    return ([r[0] for r in rows], [r[1] for r in rows])


class ConfusionMatrixAd(_LabelData, Adapter):
  """ConfusionMatrixAggFn / TopKConfusionMatrixAggFn / ClassificationAggFn."""

  modes = ('aggfn',)

  def __init__(self, input_type, average, vocab, labels='str', k_list=None,
               via='direct', n_classes=3, metrics='default'):
    self.input_type, self.average, self.labels = input_type, average, labels
    self.with_vocab, self.k_list, self.via = vocab, k_list, via
    self.metric_set = metrics
    self.needs_vocab = input_type in ('multiclass', 'multiclass-multioutput')
    # second audit round: configurations of C01 only
    #  'all'  = every rate (also the tn-based ones) although the vocabulary is
    #           deduced from the data; the classes drift along the dataset
    # (macro without vocab: every merge is refused - an accepted, documented
    #  refusal, see accepts_refusal - so there are no merge laws to check in C11)
    if metrics == 'all' or (not vocab and (
        average == 'macro' or (average == 'binary' and self.needs_vocab))):
      self.checks = ('C01',)
    self.drift = metrics == 'all'
    self.n_classes = 2 if (input_type == 'multiclass-indicator'
                           and average == 'binary') else n_classes
    if via == 'wrapper':
      self.family = 'ClassificationAggFn'
    elif k_list:
      self.family = 'TopKConfusionMatrixAggFn'
    else:
      self.family = 'ConfusionMatrixAggFn'
    self.covers = (self.family,) + (
        ('TopKConfusionMatrixAggFn' if k_list else 'ConfusionMatrixAggFn',)
        if via == 'wrapper' else ())
    self.name = (f'{self.family}/{input_type},{average},'
                 f'vocab={"yes" if vocab else "none"},{labels}'
                 + (f',k={k_list}' if k_list else '')
                 + (',all-metrics' if metrics == 'all' else ''))

  def _kwargs(self):
    vocab = None
    if self.with_vocab:
      vocab = dict(VOCABS[self.labels])
    needs_vocab = self.needs_vocab
    metrics = CM_ALL if (self.with_vocab or not needs_vocab
                         or self.metric_set == 'all') else CM_TN_FREE
    kw = dict(metrics=list(metrics), input_type=self.input_type,
              average=self.average, vocab=vocab)
    if self.input_type == 'binary':
      kw['pos_label'] = 'y' if self.labels == 'str' else 1
    return kw

  def build_aggfn(self):
    kw = self._kwargs()
    if self.via == 'wrapper':
      from ml_metrics._src.metrics import classification as mcls
      metrics = kw.pop('metrics')
      return mcls.ClassificationAggFn(metrics, k_list=self.k_list, **kw)
    from ml_metrics._src.aggregates import classification as cls
    if self.k_list:
      return cls.TopKConfusionMatrixAggFn(k_list=list(self.k_list), **kw)
    return cls.ConfusionMatrixAggFn(**kw)

  def canon(self, result):
    return _canon_cm_result(result)

  def mechanism(self, kind, diffs=None, exc=None, rows=None):
    if exc and 'NoneType' in exc[1]:
      return 'confusion-matrix-merge-states-rejects-empty-state'
    if self.k_list and diffs and all(p.endswith('.k') for p, _, _ in diffs):
      return 'topk-confusion-matrix-loses-k-after-second-batch'
    if self.needs_vocab and not self.with_vocab and kind in _BATCHING_KINDS:
      # input class: labels are mapped to columns by a vocabulary deduced from
      # each batch on its own
      if self.average == 'binary':
        return KEY_BINARY_AVG
      if self.average == 'macro':
        return KEY_NO_VOCAB      # per-class vectors of different classes are added
      if diffs and not any(_tn_free_leaf(p) for p, _, _ in diffs):
        return KEY_NO_VOCAB      # micro: tn counts the classes of the batch
    if (self.fixed_positions_macro_no_vocab and 'merge' in kind
        and kind.endswith('_raises') and _vocab_refusal(exc)):
      # input class: macro average, no vocab, an encoding that fixes the class
      # positions by itself (binary: [pos_label, rest]; indicator: the columns);
      # event: a merge (merge_states) refused for want of a vocab
      return KEY_MACRO_MERGE
    return super().mechanism(kind, diffs, exc, rows)

  @property
  def fixed_positions_macro_no_vocab(self):
    return (not self.needs_vocab and self.average == 'macro' and not self.with_vocab)

  def accepts_refusal(self, exc, step):
    # A ValueError that names the missing vocab is a documented precondition, not a
    # result: the class docstring says of `vocab` "This is required if computed
    # distributed (when merge_accumulators is called) and the average is macro", and
    # the upstream test test_confusion_matrix_multiclass_macro_vocab_reqruired pins
    # the refusal on the default (binary) input. Two audits pointed out that binary
    # and indicator input never read the vocab (any dummy vocab gives the one-batch
    # value), so the precondition is wider than necessary there; that is a
    # usability remark on a loud, documented refusal and not a violation of C01 /
    # C11 (DESIGN 15, third round). The cases are counted
    # (macro_fixed_position_no_vocab_cases) so the accepted refusals stay visible.
    del step
    if not _vocab_refusal(exc) or self.with_vocab:
      return False
    return True


class SamplewiseAd(_LabelData, Adapter):
  """SamplewiseClassification (object API + as_agg_fn) / via ClassificationAggFn."""

  per_row = True

  def __init__(self, input_type, vocab, labels='str', via='direct', n_classes=3,
               metrics='default'):
    self.input_type, self.labels, self.with_vocab = input_type, labels, vocab
    self.via, self.n_classes = via, n_classes
    self.metric_set = metrics
    self.needs_vocab = input_type in ('multiclass', 'multiclass-multioutput')
    if metrics == 'all':
      self.checks = ('C01',)
    self.drift = metrics == 'all'
    self.family = 'ClassificationAggFn' if via == 'wrapper' else 'SamplewiseClassification'
    self.covers = (self.family, 'SamplewiseClassification')
    self.modes = ('aggfn',) if via == 'wrapper' else ('obj', 'aggfn')
    self.name = (f'{self.family}/samples,{input_type},'
                 f'vocab={"yes" if vocab else "none"},{labels}'
                 + (',all-metrics' if metrics == 'all' else ''))

  def _kwargs(self):
    vocab = None
    if self.with_vocab:
      vocab = dict(VOCABS[self.labels])
    free = (self.with_vocab or self.input_type == 'multiclass-indicator'
            or self.metric_set == 'all')
    return dict(metrics=list(SAMPLEWISE_ALL if free else SAMPLEWISE_TN_FREE),
                input_type=self.input_type, vocab=vocab)

  def build(self):
    from ml_metrics._src.aggregates import classification as cls
    return cls.SamplewiseClassification(**self._kwargs())

  def build_aggfn(self):
    if self.via == 'wrapper':
      from ml_metrics._src.metrics import classification as mcls
      kw = self._kwargs()
      return mcls.ClassificationAggFn(kw.pop('metrics'), average='samples', **kw)
    return self.build().as_agg_fn()

  def row_values(self, out, nrows):
    cols = {_key(k): canonize(v) for k, v in out.items()}
    return [{k: v[i] for k, v in cols.items()} for i in range(nrows)]

  def mechanism(self, kind, diffs=None, exc=None, rows=None):
    if (self.needs_vocab and not self.with_vocab and kind in _BATCHING_KINDS
        and diffs and not any(_tn_free_leaf(p) for p, _, _ in diffs)):
      # per-sample tn = (classes of the batch) - tp - fp - fn
      return KEY_NO_VOCAB
    return super().mechanism(kind, diffs, exc, rows)

  def accepts_refusal(self, exc, step):
    del step
    return self.needs_vocab and not self.with_vocab and _vocab_refusal(exc)


# ---------------------------------------------------------------------------
# retrieval
# ---------------------------------------------------------------------------

RETRIEVAL_ALL = (
    'precision', 'ppv', 'recall', 'sensitivity', 'tpr',
    'positive_predictive_value', 'intersection_over_union', 'f1_score',
    'accuracy', 'mean_average_precision', 'mean_reciprocal_rank', 'miss_rate',
    'false_discovery_rate', 'threat_score', 'fowlkes_mallows_index',
    'dcg_score', 'ndcg_score',
)
# Metrics whose value at k uses k itself (not len(y_pred[:k])) once k exceeds
# the ranking length: they expose the per-batch k-list truncation as a value.
RETRIEVAL_K_SENSITIVE = ('threat_score', 'mean_average_precision', 'ndcg_score')
RETRIEVAL_K_ROBUST = tuple(m for m in RETRIEVAL_ALL if m not in RETRIEVAL_K_SENSITIVE)
ITEMS = ['a', 'b', 'c', 'd', 'e', 'f', 'g', 'h']


class TopKRetrievalAd(Adapter):
  family = 'TopKRetrieval'
  covers = ('TopKRetrieval',)
  modes = ('obj', 'aggfn')
  per_row = True

  def __init__(self, k_list, lengths, metrics='all', input_type='multiclass-multioutput',
               items='str'):
    self.k_list, self.lengths, self.metric_set = k_list, lengths, metrics
    self.input_type, self.items = input_type, items
    lo, hi = lengths
    self.name = (f'TopKRetrieval/k={k_list},len={lo}..{hi},{metrics},'
                 f'{"multiclass" if input_type == "multiclass" else items}')

  def _metrics(self):
    return list(RETRIEVAL_ALL if self.metric_set == 'all' else RETRIEVAL_K_ROBUST)

  def build(self):
    from ml_metrics._src.aggregates import retrieval
    return retrieval.TopKRetrieval(
        k_list=list(self.k_list) if self.k_list else None,
        metrics=self._metrics(), input_type=self.input_type)

  def gen_dataset(self, rng, n):
    if self.input_type == 'multiclass':
      # single-character class ids, as in the upstream multiclass test
      return [[rng.choice('ynu'), rng.choice('ynu')] for _ in range(n)]
    pool = ITEMS if self.items == 'str' else list(range(10, 18))
    lo, hi = self.lengths
    rows = []
    for _ in range(n):
      t = rng.sample(pool, rng.randint(1, 4))
      p = rng.sample(pool, rng.randint(lo, hi))
      rows.append([t, p])
    return rows

  def args(self, rows):
    return ([r[0] for r in rows], [r[1] for r in rows])

  def row_values(self, out, nrows):
    width = len(self.k_list) if self.k_list else 1
    cols = {_key(k): canonize(v) for k, v in out.items()}
    rows = []
    for i in range(nrows):
      rv = {}
      for k, v in cols.items():
        vals = list(v[i]) if isinstance(v[i], list) else [v[i]]
        # documented convention of result(): "extends the remaining Ks from
        # the last value" when the ranking is shorter than k.
        vals = vals + [vals[-1]] * (width - len(vals))
        rv[k] = vals
      rows.append(rv)
    return rows

  def mechanism(self, kind, diffs=None, exc=None, rows=None):
    if exc and 'broadcast' in exc[1]:
      return 'topk-retrieval-klist-truncated-per-batch'
    lo, hi = self.lengths
    short_rows = (lo < max(self.k_list)) if self.k_list else (lo != hi)
    if short_rows and diffs and all(any(m in p for m in RETRIEVAL_K_SENSITIVE)
                                    for p, _, _ in diffs):
      return 'topk-retrieval-per-batch-k-changes-row-values'
    return super().mechanism(kind, diffs, exc, rows)


class ThresholdedRetrievalAd(Adapter):
  family = 'ThresholdedRetrieval'
  covers = ('ThresholdedRetrieval',)
  modes = ('obj',)

  def __init__(self, with_prob):
    self.with_prob = with_prob
    self.name = f'ThresholdedRetrieval/{"prob" if with_prob else "noprob"}'

  def build(self):
    from ml_metrics._src.aggregates import retrieval
    if self.with_prob:
      return retrieval.ThresholdedRetrieval(
          thresholds=(0.25, 0.5, 0.75),
          metrics=('precision', 'recall', 'f1_score', 'precision@0.5',
                   'recall@0.375', 'f1_score@0.75'))
    return retrieval.ThresholdedRetrieval(
        metrics=('precision', 'recall', 'f1_score', 'recall@0.0'))

  def gen_dataset(self, rng, n):
    rows = []
    for _ in range(n):
      t = rng.sample(ITEMS, rng.randint(1, 4))
      p = rng.sample(ITEMS, rng.randint(1, 5))
      prob = [_dy(rng, 0, 1, 16) for _ in p] if self.with_prob else None
      rows.append([t, p, prob])
    return rows

  def args(self, rows):
    prob = [r[2] for r in rows] if self.with_prob else None
    return ([r[0] for r in rows], [r[1] for r in rows], prob)

  one_batch_path = 'add_return'

  def observe(self, state, result):
    # result() plus the public sufficient statistics (`confusion_matrix`
    # property): precision / recall / f1 are cached properties of that object,
    # so damage to an operand would otherwise hide behind a stale cache.
    cm = state.confusion_matrix
    return {'result': self.canon(result),
            'confusion_matrix': {f: canonize(getattr(cm, f)) for f in
                                 ('tp_trues', 'tp_preds', 'p_trues', 'p_preds')}}

  def one_batch_obs(self, rows):
    # add() returns the batch's own confusion matrix (never merged); its
    # get_metric() is the library's merge-free evaluation of that batch.
    if not rows:
      return None
    acc = self.make()
    cm = self.feed(acc, rows)
    out = {'thresholds': canonize(acc.thresholds)}
    for m in acc._metrics:  # pylint: disable=protected-access
      out[_key(m)] = canonize(cm.get_metric(m))
    return ('ok', {'result': out,
                   'confusion_matrix': {f: canonize(getattr(cm, f)) for f in
                                        ('tp_trues', 'tp_preds', 'p_trues', 'p_preds')}})

  def mechanism(self, kind, diffs=None, exc=None, rows=None):
    if kind in ('result_disturbs_later_updates', 'result_not_repeatable') and (
        not diffs or all(p.startswith('.result') for p, _, _ in diffs)):
      return 'thresholded-retrieval-result-cached-stale'
    return super().mechanism(kind, diffs, exc, rows)


# ---------------------------------------------------------------------------
# text
# ---------------------------------------------------------------------------

WORDS = ['the', 'cat', 'sat', 'on', 'a', 'mat', 'Dog', 'ab', 'abab', 'xyz']


def _text(rng):
  n = rng.randint(0, 7)
  toks = []
  for _ in range(n):
    w = rng.choice(WORDS)
    if rng.random() < 0.2:
      w = w.upper()
    if rng.random() < 0.2:
      w += rng.choice([',', '!', '9', '.'])
    toks.append(w)
  return ' '.join(toks)


class TopKWordNGramsAd(Adapter):
  family = 'TopKWordNGrams'
  one_batch_path = 'add_return'
  covers = ('TopKWordNGrams',)
  modes = ('obj', 'aggfn')
  allows_empty_batch = True

  def __init__(self, k, n, first_only=False, count_duplicate=True):
    self.k, self.n, self.first_only, self.count_duplicate = k, n, first_only, count_duplicate
    self.name = f'TopKWordNGrams/k={k},n={n},first={first_only},dup={count_duplicate}'

  def build(self):
    from ml_metrics._src.aggregates import text
    return text.TopKWordNGrams(k=self.k, n=self.n,
                               use_first_ngram_only=self.first_only,
                               count_duplicate=self.count_duplicate)

  def gen_dataset(self, rng, n):
    return [_text(rng) for _ in range(n)]

  def args(self, rows):
    return (list(rows),)


class PatternFrequencyAd(Adapter):
  family = 'PatternFrequency'
  one_batch_path = 'add_return'
  covers = ('PatternFrequency',)
  modes = ('obj', 'aggfn')
  allows_empty_batch = True

  def __init__(self, count_duplicate):
    self.count_duplicate = count_duplicate
    self.name = f'PatternFrequency/dup={count_duplicate}'

  def build(self):
    from ml_metrics._src.aggregates import text
    return text.PatternFrequency(patterns=['ab', 'a', 'xyz', 'the cat'],
                                 count_duplicate=self.count_duplicate)

  def gen_dataset(self, rng, n):
    return [_text(rng) for _ in range(n)]

  def args(self, rows):
    return (list(rows),)


# ---------------------------------------------------------------------------
# metrics/classification
# ---------------------------------------------------------------------------


class CalibrationHistogramAd(Adapter):
  family = 'CalibrationHistogram'
  covers = ('CalibrationHistogram',)
  modes = ('obj',)
  allows_empty_batch = True
  result_is_copy = True
  scale = 1e3
  name = 'CalibrationHistogram/8-bins'

  def build(self):
    from ml_metrics._src.metrics import classification as mcls
    return mcls.CalibrationHistogram(range=(0, 1), bins=8)

  def gen_dataset(self, rng, n):
    return [[rng.choice([0.0, 1.0, _dy(rng, 0, 1, 16)]), _dy(rng, 0, 1, 16)]
            for _ in range(n)]

  def args(self, rows):
    return ([r[0] for r in rows], [r[1] for r in rows])

  def canon(self, result):
    return {f: canonize(getattr(result, f)) for f in result._fields}

  def scribble(self, result):
    for f in result._fields:
      a = getattr(result, f)
      a[...] = a + 3

  def invariants(self, rows, canon):
    # all generated values are dyadic and inside range=(0, 1): sums are exact
    from fractions import Fraction as F
    want = {
        'num_examples_hist': F(2 * len(rows)),
        'labels_hist': sum((F(r[0]) for r in rows), F(0)),
        'predictions_hist': sum((F(r[1]) for r in rows), F(0)),
    }
    out = []
    for k, w in want.items():
      got = sum((F(v) for v in canon[k]), F(0))
      if got != w:
        out.append((f'.sum({k})', float(got), float(w)))
    return out


# ---------------------------------------------------------------------------
# aggregates/base wrappers
# ---------------------------------------------------------------------------


class UserAggregateFnAd(MeanAd):
  """base.UserAggregateFn delegating to MergeableMetricAggFn(MeanAndVariance)."""

  modes = ('aggfn',)

  def __init__(self):
    super().__init__('MeanAndVariance', '2d')
    self.family = 'UserAggregateFn'
    self.covers = ('UserAggregateFn', 'MergeableMetricAggFn')
    self.name = 'UserAggregateFn/MeanAndVariance-2d'

  def build_aggfn(self):
    from ml_metrics._src.aggregates import base
    return base.UserAggregateFn(self.build().as_agg_fn())


class _StandInKerasMean:
  """A metric that implements the interface keras_metric_wrapper.KerasMetric
  documents (update_state / reset_state / merge_state / result); Keras itself
  is not installed. Arithmetic mean of the values seen."""

  def __init__(self):
    self.total = 0.0
    self.count = 0

  def reset_state(self):
    self.total, self.count = 0.0, 0

  def update_state(self, values):
    for v in values:
      self.total += v
      self.count += 1

  def merge_state(self, others):
    for o in others:
      self.total += o.total
      self.count += o.count

  def result(self):
    return {'total': self.total, 'count': self.count}


def _new_stand_in_keras_mean():
  # a plain function: a class would pass the wrapper's duck-type test itself
  return _StandInKerasMean()


class KerasAggregateFnAd(Adapter):
  """KerasAggregateFn around a stand-in metric (instance or factory)."""

  family = 'KerasAggregateFn'
  covers = ('KerasAggregateFn',)
  modes = ('aggfn',)
  allows_empty_batch = True
  scale = 1e3

  def __init__(self, how):
    self.how = how
    self.name = f'KerasAggregateFn/stand-in-mean,{how}'

  def build_aggfn(self):
    from ml_metrics._src.aggregates import keras_metric_wrapper as kw
    return kw.KerasAggregateFn(
        _StandInKerasMean() if self.how == 'instance' else _new_stand_in_keras_mean)

  def gen_dataset(self, rng, n):
    return [_dy(rng, -100, 100) for _ in range(n)]

  def args(self, rows):
    return (list(rows),)

  def mechanism(self, kind, diffs=None, exc=None, rows=None):
    # configuration class: several states of ONE aggregate function are alive
    # at a time (shards / operands); confirmed at the call site
    fn = self.build_aggfn()
    if fn.create_state() is fn.create_state():
      return 'keras-aggregate-fn-shared-state'
    return super().mechanism(kind, diffs, exc, rows)


# ---------------------------------------------------------------------------
# registry / inventory
# ---------------------------------------------------------------------------


def all_adapters():
  ads = []
  for cls_name in ('Mean', 'MeanAndVariance', 'Var'):
    for shape in ('1d', '2d', 'scored'):
      ads.append(MeanAd(cls_name, shape))
  ads += [MinMaxAd(None), MinMaxAd(0)]
  ads += [HistogramAd('range'), HistogramAd('edges'), HistogramAd('weighted')]
  ads += [CounterAd(), UnboundedSamplerAd(1), UnboundedSamplerAd(2)]
  ads += [ValueAccumulatorAd(v) for v in
          ('noconcat', 'concat_list', 'concat_np', 'two_columns', 'metric_fns')]
  ads += [FixedSizeSampleAd(1, 3), FixedSizeSampleAd(4, 0), FixedSizeSampleAd(8, 11)]
  ads += [R2TjurAd('R2Tjur'), R2TjurAd('R2TjurRelative')]
  ads += [RRegressionAd(c, d) for c in (True, False) for d in (1, 2)]
  ads += [SymmetricPredictionDifferenceAd()]
  ads += [MeanStateAd(1), MeanStateAd(2), TupleMeanStateAd(), FrequencyStateAd()]
  # confusion matrices: input type x average
  C = ConfusionMatrixAd
  ads += [
      C('binary', 'binary', False, 'int'), C('binary', 'binary', False, 'str'),
      C('binary', 'micro', False, 'int'), C('binary', 'macro', True, 'str'),
      C('multiclass', 'micro', False, 'str'), C('multiclass', 'micro', True, 'int'),
      C('multiclass', 'macro', True, 'str'),
      C('multiclass-multioutput', 'micro', False, 'int'),
      C('multiclass-multioutput', 'micro', True, 'str'),
      C('multiclass-multioutput', 'macro', True, 'int'),
      C('multiclass-indicator', 'binary', False), C('multiclass-indicator', 'micro', False),
      C('multiclass-indicator', 'macro', True),
      # top-k
      C('multiclass-multioutput', 'micro', True, 'str', k_list=(1, 2, 3)),
      C('multiclass-multioutput', 'micro', False, 'int', k_list=(1, 3)),
      C('multiclass-multioutput', 'macro', True, 'str', k_list=(1, 2)),
      C('multiclass', 'micro', True, 'str', k_list=(1, 2)),
      # wrapper
      C('binary', 'binary', False, 'int', via='wrapper'),
      C('multiclass', 'macro', True, 'str', via='wrapper'),
      C('multiclass-multioutput', 'micro', True, 'str', k_list=(1, 2), via='wrapper'),
      # second audit round (C01 only) -------------------------------------------
      # labels without a vocabulary, every rate requested, classes drift
      C('multiclass', 'micro', False, 'int', metrics='all'),
      C('multiclass', 'macro', False, 'str', metrics='all'),
      C('multiclass-multioutput', 'micro', False, 'str', metrics='all'),
      C('multiclass-multioutput', 'macro', False, 'int', metrics='all'),
      C('multiclass', 'macro', False, 'int', via='wrapper', metrics='all'),
      C('multiclass-multioutput', 'micro', False, 'int', k_list=(1, 2), metrics='all'),
      # two-class labels under the default average (binary): positive = vocab[0]
      C('multiclass', 'binary', False, 'pair_int', metrics='all'),
      C('multiclass', 'binary', False, 'pair_str', metrics='all'),
      C('multiclass', 'binary', True, 'pair_int'),   # control: explicit order
      # macro average where no vocabulary is ever used
      C('binary', 'macro', False, 'int'), C('binary', 'macro', False, 'str', via='wrapper'),
      C('multiclass-indicator', 'macro', False),
  ]
  S = SamplewiseAd
  ads += [
      S('multiclass', True, 'str'), S('multiclass', False, 'int'),
      S('multiclass-multioutput', True, 'int'), S('multiclass-multioutput', False, 'str'),
      S('multiclass-indicator', False),
      S('multiclass-multioutput', True, 'str', via='wrapper'),
      S('multiclass', False, 'str', metrics='all'),
      S('multiclass-multioutput', False, 'int', metrics='all'),
  ]
  T = TopKRetrievalAd
  ads += [
      T((1, 2, 4), (4, 4), 'all'),              # rectangular rankings
      T(None, (5, 5), 'all', items='int'),      # k_list=None, rectangular
      T((1, 2), (2, 6), 'all'),                 # ragged, never shorter than max k
      T((1,), (1, 6), 'all', items='int'),      # ragged, k=1
      T(None, (1, 6), 'robust'),                # k_list=None, ragged
      T((1, 2, 4), (1, 6), 'robust'),           # ragged, shorter than max k
      T((1, 2, 4), (1, 6), 'all', items='int'),
      T(None, (1, 6), 'all'),
      T((1, 2), (1, 1), 'all', input_type='multiclass'),
  ]
  ads += [ThresholdedRetrievalAd(False), ThresholdedRetrievalAd(True)]
  ads += [TopKWordNGramsAd(3, 1), TopKWordNGramsAd(5, 2, first_only=True),
          TopKWordNGramsAd(4, 2, count_duplicate=False)]
  ads += [PatternFrequencyAd(True), PatternFrequencyAd(False)]
  ads += [CalibrationHistogramAd(), UserAggregateFnAd()]
  ads += [KerasAggregateFnAd('instance'), KerasAggregateFnAd('factory')]
  ads += [MeanAd(c, sh, data='inf') for c in ('Mean', 'MeanAndVariance', 'Var')
          for sh in ('1d', '2d')]
  names = [a.name for a in ads]
  assert len(set(names)) == len(names), 'duplicate adapter name'
  return ads


def registry():
  return {a.name: a for a in all_adapters()}


def adapter_modes(check=None):
  """[(adapter name, mode), ...] in a stable order (of one property module)."""
  return [(a.name, m) for a in all_adapters() for m in a.modes
          if check is None or check in a.checks]


def discover_inventory():
  """Every concrete class of the listed modules that is mergeable.

  Mergeable = has callable `merge` and `result` (MergeableMetric; add() is
  optional so that FrequencyState counts) or implements the Aggregatable
  protocol (`update_state` + `merge_states`). Protocols, abstract classes
  and private helpers (leading underscore) are not subjects.
  """
  import importlib
  import inspect
  found = {}
  for modname in DISCOVER_MODULES:
    mod = importlib.import_module(modname)
    for name, cls in inspect.getmembers(mod, inspect.isclass):
      if cls.__module__ != modname or name.startswith('_'):
        continue
      if getattr(cls, '_is_protocol', False) or inspect.isabstract(cls):
        continue
      if issubclass(cls, enum.Enum):
        continue
      metric_like = callable(getattr(cls, 'merge', None)) and callable(
          getattr(cls, 'result', None))
      agg_like = callable(getattr(cls, 'update_state', None)) and callable(
          getattr(cls, 'merge_states', None))
      if metric_like or agg_like:
        found[name] = modname
  return found


def check_inventory(ctx):
  """Records covered / uncovered classes; never a verdict by itself."""
  found = discover_inventory()
  covered = set()
  for a in all_adapters():
    covered.update(a.covers)
  for name in sorted(found):
    ctx.count('inventory_classes_seen')
    if name in covered:
      ctx.count('inventory_classes_covered')
    elif name in NOT_A_SUBJECT:
      ctx.observe('uncovered_class', f'{name} (not a subject: {NOT_A_SUBJECT[name]})')
    else:
      ctx.observe('uncovered_class', name)
  for name in sorted(covered - set(found)):
    ctx.observe('adapter_for_undiscovered_class', name)
  for name in EXPECTED_FAMILIES:
    if name not in found:
      ctx.observe('expected_class_not_found', name)
  ctx.notes['inventory'] = {'found': sorted(found), 'covered': sorted(covered & set(found))}


# ---------------------------------------------------------------------------
# shared helpers for the two checks
# ---------------------------------------------------------------------------


def exc_info(e):
  return (type(e).__name__, str(e)[:200])


def fmt_diffs(diffs, cap=6):
  return [{'path': p, 'got': a, 'want': b} for p, a, b in diffs[:cap]]


def split_by_mechanism(ad, kind, diffs, rows=None):
  """Groups leaf differences by mechanism key -> {key: [diffs]}."""
  groups = {}
  for d in diffs:
    groups.setdefault(ad.mechanism(kind, diffs=[d], rows=rows), []).append(d)
  return groups


def report(ctx, ad, kind, case, detail, diffs=None, exc=None, rows=None):
  """One ctx.violation per mechanism key involved."""
  if diffs:
    for mech, ds in split_by_mechanism(ad, kind, diffs, rows).items():
      ctx.count('viol:' + mech)
      ctx.violation(kind, case, dict(detail, diffs=fmt_diffs(ds)), mechanism=mech)
  else:
    mech = ad.mechanism(kind, exc=exc, rows=rows)
    ctx.count('viol:' + mech)
    ctx.violation(kind, case, dict(detail, exception=list(exc) if exc else None),
                  mechanism=mech)
