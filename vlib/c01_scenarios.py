"""C01 scenarios that do not fit (adapter, dataset, composition).

reservoir_many - FixedSizeSample: MANY independent samplers are merged and the
merged sampler is then fed again. Two layouts: 20-300 tiny shards (0 .. a few
samples each), or 3-8 shards that each reviewed 1e5-3e6 samples (fed as
`range` objects, which the sampler accepts like any sized sequence, so that a
case costs milliseconds). Reference = one sampler fed the whole range in one
batch. Oracle (C01: "for the random reservoir sampler only size, membership and
reviewed-count are fixed"): no step raises; after the merges and again after
the later batches the reservoir has min(max_size, reviewed) samples, every
sample is a value of the data seen so far (values are distinct, so at most
once) and num_samples_reviewed counts every value.

A case dict is literal ({scenario, mode, max_size, seed, base, shards, tail,
fold}); replay re-executes it exactly (the sampler's seed is part of it).

reservoir_unequal - FixedSizeSample (third audit round): samplers of DIFFERENT
max_size are merged, in both directions (large receiver <- small operand, small
receiver <- large operand; upstream tests only the latter), at every fill level
(fresh, partly filled, exactly full, having reviewed 2-20x their capacity), 2-3
states per case, many sampler seeds. Per merge step the oracle is: the merge
succeeds with size = min(receiver.max_size, samples held by the two), members
from the union of the two reservoirs (each held sample at most once), reviewed
counts added, operand unchanged; OR the merge rejects the operand and leaves the
receiver as it was (counted, never a violation: e.g. unequal sampler seeds are
refused by design). A raise that leaves the receiver changed is the violation;
so is any raise when one side is a fresh state (the neutral element).
Then 1-2 further batches are added to the receiver (size grows to min(max_size,
held + batch), members from reservoir + batch, reviewed count added).
Shared by C01 and C11 (`prop` only labels the case).
"""

from __future__ import annotations

import random
import warnings

from vlib import agg_adapters as A

N_CASES = {'quick': 192, 'thorough': 6000}
N_UNEQUAL = {'quick': 384, 'thorough': 12000}

KEY_UNEQUAL = 'fixed-size-sample-merge-small-operand-into-large-receiver'


def plan_slice(tier, i, k, n_many=None, n_unequal=None):
  """Scenario work items of chunk i of k: [[scenario, index], ...]."""
  n_many = N_CASES[tier] if n_many is None else n_many
  n_unequal = N_UNEQUAL[tier] if n_unequal is None else n_unequal
  return ([['reservoir_many', idx] for idx in range(n_many) if idx % k == i] +
          [['reservoir_unequal', idx] for idx in range(n_unequal) if idx % k == i])


def run_item(ctx, rseed, tier, item):
  name, idx = item
  rng = random.Random(A.stable_int('C01-scenario', rseed, name, idx))
  if name == 'reservoir_unequal':
    case = gen_reservoir_unequal(rng, tier, idx)
    case['prop'] = 'C01'
  else:
    case = gen_reservoir_many(rng, tier)
  check(ctx, case)


_DIRECTIONS = ('large_receiver', 'small_receiver')


def _fill(rng, max_size, level):
  """Number of samples a state of capacity max_size has reviewed."""
  if level == 'fresh':
    return 0
  if level == 'partial':
    return rng.randint(1, max_size)      # max_size itself = exactly full
  if level == 'full':
    return max_size
  return rng.randint(max_size + 1, 20 * max_size)   # 'over': samples were replaced


def gen_reservoir_unequal(rng, tier, idx=0, modes=('obj', 'aggfn')):
  """Two or three samplers of pairwise different capacity; states[0] receives.

  The direction alternates with the case index in runs of 64 (chunk i of k = 32 /
  64 executes the indices i, i + k, i + 2k, ...), so that every chunk sees both."""
  del tier
  direction = _DIRECTIONS[(idx // 64) % 2]
  m = rng.choice([2, 2, 2, 3])
  caps = rng.sample([1, 2, 3, 4, 5, 8, 10, 16, 32], m)
  caps.sort(reverse=(direction == 'large_receiver'))
  if m == 3 and rng.random() < 0.5:
    caps[1], caps[2] = caps[2], caps[1]     # operands in either order
  levels = ['over', 'over', 'over', 'full', 'partial', 'partial', 'fresh']
  profile = rng.choice(['both_over', 'both_over', 'any'])
  states = []
  for c in caps:
    level = 'over' if profile == 'both_over' else rng.choice(levels)
    states.append([c, _fill(rng, c, level)])
  seeds = [rng.randint(0, 10**6)] * m
  if rng.random() < 0.04:
    seeds[-1] += 1                          # refused by design: unequal seeds
  tail = [rng.choice([1, 3, 20, 200]) for _ in range(rng.randint(1, 2))]
  return {'scenario': 'reservoir_unequal', 'direction': direction,
          'mode': rng.choice(modes), 'states': states, 'seeds': seeds,
          'base': rng.randint(0, 1000), 'tail': tail,
          'as_range': rng.random() < 0.3}


def gen_reservoir_many(rng, tier, modes=('obj', 'aggfn')):
  del tier
  layout = rng.choice(['tiny', 'tiny', 'large'])
  mode = rng.choice(modes)
  if layout == 'tiny':
    max_size = rng.choice([1, 1, 2, 4, 8])
    count = rng.randint(20, 300)
    style = rng.choice(['ones', 'small', 'mixed'])
    if style == 'ones':
      shards = [1] * count
    elif style == 'small':
      shards = [rng.randint(1, 3) for _ in range(count)]
    else:  # fresh states, partly filled ones and ones that already replaced samples
      shards = [rng.randint(0, 2 * max_size + 1) for _ in range(count)]
    tail = [rng.choice([1, 5, 50, 1000]) for _ in range(rng.randint(1, 3))]
  else:
    max_size = rng.choice([1, 8, 30, 100])
    count = rng.randint(3, 8)
    shards = [rng.choice([100_000, 300_000, 1_000_000, 3_000_000]) for _ in range(count)]
    tail = [rng.choice([1000, 100_000]) for _ in range(rng.randint(1, 2))]
  folds = ['left', 'tree'] + (['nary'] if mode == 'aggfn' else [])
  return {'scenario': 'reservoir_many', 'layout': layout, 'mode': mode,
          'max_size': max_size, 'seed': rng.randint(0, 50), 'base': rng.randint(0, 1000),
          'shards': shards, 'tail': tail, 'fold': rng.choice(folds)}


def fold_states(drv, hs, how):
  """Merges the handles `hs` (in order) into hs[0]'s accumulator; returns it."""
  if how == 'nary':
    return drv.merge(hs[0], hs[1:])
  if how == 'tree':
    level = list(hs)
    while len(level) > 1:
      nxt = []
      for i in range(0, len(level) - 1, 2):
        nxt.append(drv.merge(level[i], [level[i + 1]]))
      if len(level) % 2:
        nxt.append(level[-1])
      level = nxt
    return level[0]
  acc = hs[0]
  for h in hs[1:]:
    drv.merge(acc, [h])
  return acc


def _summary(shards):
  if len(shards) <= 12:
    return shards
  return {'states': len(shards), 'samples': sum(shards), 'min': min(shards),
          'max': max(shards), 'head': shards[:6]}


def check(ctx, case):
  with warnings.catch_warnings():
    warnings.simplefilter('ignore')
    if case.get('scenario') == 'reservoir_unequal':
      _check_reservoir_unequal(ctx, case)
    else:
      _check_reservoir_many(ctx, case)


def _multiset_extra(have, allowed):
  """Elements of `have` (list) beyond the multiset `allowed` (list)."""
  import collections
  return sorted((collections.Counter(have) - collections.Counter(allowed)).elements())


def _check_reservoir_unequal(ctx, case):
  prop = case.get('prop', 'C11')
  states, seeds, mode = case['states'], case['seeds'], case['mode']
  ads = [A.FixedSizeSampleAd(c, sd) for (c, _), sd in zip(states, seeds)]
  drvs = [A.Driver(ad, mode) for ad in ads]
  ctx.case((prop, 'reservoir_unequal', mode, states, seeds, case['base'], case['tail'],
            case['as_range']), True)
  ctx.count('family:' + ads[0].family)
  ctx.count('reservoir_unequal_cases')
  ctx.count('reservoir_unequal_%s_cases' % case['direction'])
  recv_cap = states[0][0]
  if any(c < recv_cap and n > c for c, n in states[1:]) and states[0][1] > recv_cap:
    ctx.count('reservoir_unequal_audited_class_cases')   # both reviewed more than they hold
  lit = {'api': mode, 'states[max_size, reviewed]': states, 'seeds': seeds,
         'receiver': 0, 'then_batches': case['tail'], 'base': case['base']}

  def viol(kind, mech, detail):
    mech = mech or ('FixedSizeSample:' + kind)
    ctx.count('viol:' + mech)
    ctx.violation(kind, case, dict(lit, **detail), mechanism=mech)

  # ---- build the states: disjoint runs of consecutive ints -------------------------
  hs, p = [], case['base']
  try:
    for drv, (_, n) in zip(drvs, states):
      h = drv.make()
      if n:
        data = range(p, p + n)
        drv.feed(h, data if case['as_range'] else list(data))
      p += n
      hs.append(h)
  except Exception as e:  # pylint: disable=broad-exception-caught
    ctx.inconclusive_case('building a state raised: ' + repr(A.exc_info(e)), case)
    return

  def obs(i):
    return drvs[i].observe(hs[i])

  recv = obs(0)
  if recv[0] != 'ok':
    ctx.inconclusive_case('result() of a fed sampler raised: ' + repr(recv), case)
    return
  for j in range(1, len(hs)):
    before, op_before = recv, obs(j)
    if op_before[0] != 'ok':
      ctx.inconclusive_case('result() of a fed sampler raised: ' + repr(op_before), case)
      return
    op_cap, op_n = states[j]
    # input class of the third audit: the operand has the smaller capacity and
    # holds fewer samples than it reviewed
    small_into_large = op_cap < recv_cap and op_n > op_cap
    where = {'step': f'states[0].merge(states[{j}])',
             'receiver_before': {'max_size': recv_cap,
                                 'held': len(before[1]['reservoir']),
                                 'reviewed': before[1]['reviewed']},
             'operand': {'max_size': op_cap, 'held': len(op_before[1]['reservoir']),
                         'reviewed': op_before[1]['reviewed']}}
    ctx.count('reservoir_unequal_merge_checks')
    try:
      drvs[0].merge(hs[0], [hs[j]])
    except Exception as e:  # pylint: disable=broad-exception-caught
      after = obs(0)
      d = A.compare_obs(ads[0], after, before)
      if d or A.compare_obs(ads[j], obs(j), op_before):
        viol('failed_merge_changes_receiver', KEY_UNEQUAL if small_into_large else None,
             dict(where, exception=list(A.exc_info(e)),
                  want='merged, or the operand rejected with the receiver unchanged',
                  receiver_after=({'held': len(after[1]['reservoir']),
                                   'reviewed': after[1]['reviewed']}
                                  if after[0] == 'ok' else repr(after)),
                  diffs=A.fmt_diffs(d)))
        return   # the receiver is no longer a valid state
      fresh = ('fresh_left' if before[1]['reviewed'] == 0 else
               'fresh_right' if op_before[1]['reviewed'] == 0 else None)
      if fresh and seeds[0] == seeds[j]:
        # "a freshly created (empty) state is a neutral element on either side"
        # (C11) / an empty shard (C01): this merge has a defined outcome
        viol(fresh + '_merge_raises', KEY_UNEQUAL if small_into_large else None,
             dict(where, exception=list(A.exc_info(e)),
                  want='what the non-empty side reports'))
        continue
      # rejected before anything was touched: acceptable (e.g. unequal seeds)
      ctx.count('reservoir_unequal_clean_refusals')
      ctx.observe('reservoir_unequal_refusal', repr(A.exc_info(e))[:160])
      continue
    ctx.count('reservoir_checks')
    after = obs(0)
    diffs = []
    if after[0] != 'ok':
      diffs.append(('<outcome>', after[:2], 'returns'))
    else:
      held = before[1]['reservoir'] + op_before[1]['reservoir']
      want = min(recv_cap, len(held))
      if len(after[1]['reservoir']) != want:
        diffs.append(('.reservoir.len', len(after[1]['reservoir']), want))
      extra = _multiset_extra(after[1]['reservoir'], held)
      if extra:
        diffs.append(('.reservoir.not_in_either_reservoir', extra[:12], []))
      if after[1]['reviewed'] != before[1]['reviewed'] + op_before[1]['reviewed']:
        diffs.append(('.reviewed', after[1]['reviewed'],
                      before[1]['reviewed'] + op_before[1]['reviewed']))
    if diffs:
      viol('reservoir_after_unequal_merge', None, dict(where, diffs=A.fmt_diffs(diffs)))
      return
    ctx.count('operand_checks')
    d = A.compare_obs(ads[j], obs(j), op_before)
    if d:
      viol('operand_changed_by_merge', ads[j].mechanism('operand_changed_by_merge'),
           dict(where, diffs=A.fmt_diffs(d)))
    recv = after

  # ---- the receiver is still a working sampler ----------------------------------------
  ctx.count('reservoir_add_after_merge_checks')
  for b in case['tail']:
    batch = list(range(p, p + b))
    p += b
    try:
      drvs[0].feed(hs[0], batch)
    except Exception as e:  # pylint: disable=broad-exception-caught
      viol('add_after_merge_raises', None,
           {'want': 'add() on the merged sampler works', 'batch': len(batch),
            'receiver_before_add': {'held': len(recv[1]['reservoir']),
                                    'reviewed': recv[1]['reviewed']},
            'exception': list(A.exc_info(e))})
      return
    after = obs(0)
    ctx.count('reservoir_checks')
    diffs = []
    if after[0] != 'ok':
      diffs.append(('<outcome>', after[:2], 'returns'))
    else:
      want = min(recv_cap, len(recv[1]['reservoir']) + b)
      if len(after[1]['reservoir']) != want:
        diffs.append(('.reservoir.len', len(after[1]['reservoir']), want))
      extra = _multiset_extra(after[1]['reservoir'], recv[1]['reservoir'] + batch)
      if extra:
        diffs.append(('.reservoir.not_in_reservoir_or_batch', extra[:12], []))
      if after[1]['reviewed'] != recv[1]['reviewed'] + b:
        diffs.append(('.reviewed', after[1]['reviewed'], recv[1]['reviewed'] + b))
    if diffs:
      viol('reservoir_after_merge_then_add', None, {'batch': b, 'diffs': A.fmt_diffs(diffs)})
      return
    recv = after


def _check_reservoir_many(ctx, case):
  ad = A.FixedSizeSampleAd(case['max_size'], case['seed'])
  drv = A.Driver(ad, case['mode'])
  shards, tail, base = case['shards'], case['tail'], case['base']
  merged_n = sum(shards)
  data = range(base, base + merged_n + sum(tail))
  ctx.case(('C01', 'reservoir_many', case['mode'], case['max_size'], case['seed'], base,
            shards, tail, case['fold']), True)
  ctx.count('family:' + ad.family)
  ctx.count('reservoir_many_states_cases')
  ctx.count('reservoir_many_%s_cases' % case['layout'])
  lit = {'max_size': case['max_size'], 'seed': case['seed'], 'api': case['mode'],
         'shards': _summary(shards), 'fold': case['fold'], 'then_batches': tail,
         'data': f'range({data.start}, {data.stop})'}

  def viol(kind, detail=None, diffs=None, exc=None):
    A.report(ctx, ad, kind, case, dict(lit, **(detail or {})), diffs=diffs, exc=exc)

  # ---- reference: one sampler, one batch ----------------------------------------
  try:
    ref = drv.make()
    drv.feed(ref, data)
  except Exception as e:  # pylint: disable=broad-exception-caught
    ctx.inconclusive_case('reference path raised: ' + repr(A.exc_info(e)), case)
    return
  ctx.count('reservoir_checks')
  d = ad.reservoir_diffs(drv.observe(ref), data)
  if d:
    viol('reservoir_reference', diffs=d)

  # ---- subject: one sampler per shard, merged, then fed again ---------------------
  hs, p = [], 0
  try:
    for size in shards:
      h = drv.make()
      if size:
        drv.feed(h, data[p:p + size])
      p += size
      hs.append(h)
  except Exception as e:  # pylint: disable=broad-exception-caught
    viol('batched_add_raises', {'want': 'same as one batch'}, exc=A.exc_info(e))
    return
  try:
    merged = fold_states(drv, hs, case['fold'])
    ctx.count('merge_checks', len(hs) - 1)
  except Exception as e:  # pylint: disable=broad-exception-caught
    viol('merge_raises', {'want': 'same as one batch'}, exc=A.exc_info(e))
    return
  ctx.count('reservoir_checks')
  d = ad.reservoir_diffs(drv.observe(merged), data[:merged_n])
  if d:
    viol('reservoir_subject', {'stage': 'after the merges'}, diffs=d)
  ctx.count('reservoir_add_after_merge_checks')
  try:
    for b in tail:
      drv.feed(merged, data[p:p + b])
      p += b
  except Exception as e:  # pylint: disable=broad-exception-caught
    viol('add_after_merge_raises',
         {'want': 'add() on the merged sampler works', 'fed_before_the_failure': p - merged_n},
         exc=A.exc_info(e))
    return
  ctx.count('reservoir_checks')
  d = ad.reservoir_diffs(drv.observe(merged), data)
  if d:
    viol('reservoir_after_merge_then_add', diffs=d)
