"""C01 scenarios that do not fit (adapter, dataset, composition).

reservoir_many - FixedSizeSample: MANY independent samplers are merged and the
merged sampler is then fed again. Two layouts: 20-300 tiny shards (0 .. a few
samples each), or 3-8 shards that each reviewed 1e5-3e6 samples (fed as
`range` objects, which the sampler accepts like any sized sequence, so that a
case costs milliseconds). Reference = one sampler fed the whole range in one
batch. Oracle (C01: "for the random reservoir sampler only size, membership and
reviewed-count are fixed"): no step raises; after the merges and again after
the later batches the reservoir has min(max_size, reviewed) samples, every
sample is a value of the data seen so far (values are distinct, so at most
once) and num_samples_reviewed counts every value.

A case dict is literal ({scenario, mode, max_size, seed, base, shards, tail,
fold}); replay re-executes it exactly (the sampler's seed is part of it).
"""

from __future__ import annotations

import random
import warnings

from vlib import agg_adapters as A

N_CASES = {'quick': 192, 'thorough': 6000}


def plan_slice(tier, i, k):
  """Scenario work items of chunk i of k: [[scenario, index], ...]."""
  return [['reservoir_many', idx] for idx in range(N_CASES[tier]) if idx % k == i]


def run_item(ctx, rseed, tier, item):
  name, idx = item
  rng = random.Random(A.stable_int('C01-scenario', rseed, name, idx))
  case = gen_reservoir_many(rng, tier)
  check(ctx, case)


def gen_reservoir_many(rng, tier, modes=('obj', 'aggfn')):
  del tier
  layout = rng.choice(['tiny', 'tiny', 'large'])
  mode = rng.choice(modes)
  if layout == 'tiny':
    max_size = rng.choice([1, 1, 2, 4, 8])
    count = rng.randint(20, 300)
    style = rng.choice(['ones', 'small', 'mixed'])
    if style == 'ones':
      shards = [1] * count
    elif style == 'small':
      shards = [rng.randint(1, 3) for _ in range(count)]
    else:  # fresh states, partly filled ones and ones that already replaced samples
      shards = [rng.randint(0, 2 * max_size + 1) for _ in range(count)]
    tail = [rng.choice([1, 5, 50, 1000]) for _ in range(rng.randint(1, 3))]
  else:
    max_size = rng.choice([1, 8, 30, 100])
    count = rng.randint(3, 8)
    shards = [rng.choice([100_000, 300_000, 1_000_000, 3_000_000]) for _ in range(count)]
    tail = [rng.choice([1000, 100_000]) for _ in range(rng.randint(1, 2))]
  folds = ['left', 'tree'] + (['nary'] if mode == 'aggfn' else [])
  return {'scenario': 'reservoir_many', 'layout': layout, 'mode': mode,
          'max_size': max_size, 'seed': rng.randint(0, 50), 'base': rng.randint(0, 1000),
          'shards': shards, 'tail': tail, 'fold': rng.choice(folds)}


def fold_states(drv, hs, how):
  """Merges the handles `hs` (in order) into hs[0]'s accumulator; returns it."""
  if how == 'nary':
    return drv.merge(hs[0], hs[1:])
  if how == 'tree':
    level = list(hs)
    while len(level) > 1:
      nxt = []
      for i in range(0, len(level) - 1, 2):
        nxt.append(drv.merge(level[i], [level[i + 1]]))
      if len(level) % 2:
        nxt.append(level[-1])
      level = nxt
    return level[0]
  acc = hs[0]
  for h in hs[1:]:
    drv.merge(acc, [h])
  return acc


def _summary(shards):
  if len(shards) <= 12:
    return shards
  return {'states': len(shards), 'samples': sum(shards), 'min': min(shards),
          'max': max(shards), 'head': shards[:6]}


def check(ctx, case):
  with warnings.catch_warnings():
    warnings.simplefilter('ignore')
    _check_reservoir_many(ctx, case)


def _check_reservoir_many(ctx, case):
  ad = A.FixedSizeSampleAd(case['max_size'], case['seed'])
  drv = A.Driver(ad, case['mode'])
  shards, tail, base = case['shards'], case['tail'], case['base']
  merged_n = sum(shards)
  data = range(base, base + merged_n + sum(tail))
  ctx.case(('C01', 'reservoir_many', case['mode'], case['max_size'], case['seed'], base,
            shards, tail, case['fold']), True)
  ctx.count('family:' + ad.family)
  ctx.count('reservoir_many_states_cases')
  ctx.count('reservoir_many_%s_cases' % case['layout'])
  lit = {'max_size': case['max_size'], 'seed': case['seed'], 'api': case['mode'],
         'shards': _summary(shards), 'fold': case['fold'], 'then_batches': tail,
         'data': f'range({data.start}, {data.stop})'}

  def viol(kind, detail=None, diffs=None, exc=None):
    A.report(ctx, ad, kind, case, dict(lit, **(detail or {})), diffs=diffs, exc=exc)

  # ---- reference: one sampler, one batch ----------------------------------------
  try:
    ref = drv.make()
    drv.feed(ref, data)
  except Exception as e:  # pylint: disable=broad-exception-caught
    ctx.inconclusive_case('reference path raised: ' + repr(A.exc_info(e)), case)
    return
  ctx.count('reservoir_checks')
  d = ad.reservoir_diffs(drv.observe(ref), data)
  if d:
    viol('reservoir_reference', diffs=d)

  # ---- subject: one sampler per shard, merged, then fed again ---------------------
  hs, p = [], 0
  try:
    for size in shards:
      h = drv.make()
      if size:
        drv.feed(h, data[p:p + size])
      p += size
      hs.append(h)
  except Exception as e:  # pylint: disable=broad-exception-caught
    viol('batched_add_raises', {'want': 'same as one batch'}, exc=A.exc_info(e))
    return
  try:
    merged = fold_states(drv, hs, case['fold'])
    ctx.count('merge_checks', len(hs) - 1)
  except Exception as e:  # pylint: disable=broad-exception-caught
    viol('merge_raises', {'want': 'same as one batch'}, exc=A.exc_info(e))
    return
  ctx.count('reservoir_checks')
  d = ad.reservoir_diffs(drv.observe(merged), data[:merged_n])
  if d:
    viol('reservoir_subject', {'stage': 'after the merges'}, diffs=d)
  ctx.count('reservoir_add_after_merge_checks')
  try:
    for b in tail:
      drv.feed(merged, data[p:p + b])
      p += b
  except Exception as e:  # pylint: disable=broad-exception-caught
    viol('add_after_merge_raises',
         {'want': 'add() on the merged sampler works', 'fed_before_the_failure': p - merged_n},
         exc=A.exc_info(e))
    return
  ctx.count('reservoir_checks')
  d = ad.reservoir_diffs(drv.observe(merged), data)
  if d:
    viol('reservoir_after_merge_then_add', diffs=d)
