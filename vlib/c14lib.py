"""Module-level callables and expression generator for C14 (importable in the
child so that cloudpickle ships them by reference)."""

from __future__ import annotations

import random


class AppError(Exception):
  pass


def add(a, b=0):
  return a + b


def cat(*parts, sep=''):
  return sep.join(str(p) for p in parts)


def mk_list(*xs):
  return list(xs)


def mk_dict(**kw):
  return dict(kw)


def boom(kind='value', msg='bad'):
  if kind == 'value':
    raise ValueError(msg)
  if kind == 'key':
    raise KeyError(msg)
  if kind == 'type':
    raise TypeError(msg)
  if kind == 'app':
    raise AppError(msg)
  if kind == 'runtime':
    raise RuntimeError(msg)
  if kind == 'timeout':
    raise TimeoutError(msg)      # an application-level timeout, not a call deadline
  if kind == 'conn':
    raise ConnectionError(msg)
  raise ZeroDivisionError(msg)


def div(a, b):
  return a // b


# In-flight calls: (entered, go) events per key; client and server share the process.
EVENTS = {}


def wait_then_boom(key, msg='late'):
  entered, go = EVENTS[key]
  entered.set()
  go.wait(20)
  raise ValueError(msg)


def wait_then_value(key, value):
  entered, go = EVENTS[key]
  entered.set()
  go.wait(20)
  return value


class Box:
  """Stateful object used for remote-object chains."""

  def __init__(self, val=0, elems=()):
    self.val = val
    self.elems = list(elems)
    self.hist = []

  def times(self, k=2):
    return self.val * k

  def bump(self, k=1):
    self.val += k
    self.hist.append(('bump', k))
    return self.val

  def push(self, x):
    self.elems.append(x)
    return len(self.elems)

  def child(self, k=1):
    return Box(self.val + k, self.elems[:k])

  def fail(self, msg='nope'):
    raise AppError(msg)

  def __getitem__(self, i):
    return self.elems[i]

  def __call__(self, x=0):
    return (self.val, x)

  def __eq__(self, other):
    return (isinstance(other, Box) and self.val == other.val
            and self.elems == other.elems)

  def __hash__(self):
    return hash(('Box', self.val, tuple(map(repr, self.elems))))

  def __repr__(self):
    return f'Box({self.val!r}, {self.elems!r})'


def counting_gen(n, ret=None, fail_at=None):
  for i in range(n):
    if fail_at is not None and i == fail_at:
      if i % 3 == 2:
        raise TimeoutError(f'gen@{i}')   # application-level timeout inside the generator
      raise AppError(f'gen@{i}')
    yield i
  return ret


# ---------------------------------------------------------------------------
# Expression specs: JSON-able trees interpreted twice (eagerly and lazily).
# ---------------------------------------------------------------------------

_CONSTS = [0, 1, 2, 7, -3, 'a', 'bc', (1, 2), None]
_FNS = ['add', 'cat', 'mk_list', 'mk_dict', 'div', 'boom', 'box_times', 'box_item',
        'box_attr', 'box_call', 'box_child_attr', 'box_fail']


def gen_expr(rng: random.Random, depth: int):
  """Returns a spec: ('const', v) | ('call', fn, [args], {kwargs}, cache)."""
  if depth <= 0 or rng.random() < 0.25:
    return ['const', rng.choice(_CONSTS)]
  fn = rng.choice(_FNS)
  cache = rng.random() < 0.2
  sub = lambda: gen_expr(rng, depth - 1)
  num = lambda: (['const', rng.choice([0, 1, 2, 5, -1])] if rng.random() < 0.6
                 else ['call', 'add', [['const', rng.randint(0, 4)], sub_num(rng, depth - 1)], {}, False])
  if fn == 'add':
    return ['call', 'add', [num(), num()], {}, cache]
  if fn == 'cat':
    return ['call', 'cat', [sub() for _ in range(rng.randint(0, 3))],
            {'sep': ['const', rng.choice(['', '-', ','])]}, cache]
  if fn == 'mk_list':
    return ['call', 'mk_list', [sub() for _ in range(rng.randint(0, 3))], {}, False]
  if fn == 'mk_dict':
    return ['call', 'mk_dict', [], {k: sub() for k in rng.sample(['x', 'y', 'z'], rng.randint(0, 2))}, False]
  if fn == 'div':
    return ['call', 'div', [num(), num()], {}, cache]
  if fn == 'boom':
    return ['call', 'boom', [], {'kind': ['const', rng.choice(['value', 'key', 'type', 'app', 'runtime', 'zero', 'timeout', 'conn'])],
                                 'msg': ['const', rng.choice(['bad', 'x y', ''])]}, False]
  box = ['call', 'Box', [num(), ['call', 'mk_list', [['const', c] for c in rng.sample([1, 2, 3, 'q'], rng.randint(0, 3))], {}, False]], {}, False]
  if fn == 'box_times':
    return ['method', box, 'times', [num()], {}]
  if fn == 'box_item':
    return ['item', box, rng.choice([0, 1, -1, 5])]
  if fn == 'box_attr':
    return ['attr', box, rng.choice(['val', 'elems', 'missing'])]
  if fn == 'box_call':
    return ['callobj', box, [num()]]
  if fn == 'box_child_attr':
    return ['attr', ['method', box, 'child', [['const', rng.randint(0, 2)]], {}], 'val']
  return ['method', box, 'fail', [['const', 'nope']], {}]


def sub_num(rng, depth):
  if depth <= 0 or rng.random() < 0.5:
    return ['const', rng.choice([0, 1, 3])]
  return ['call', 'div', [['const', rng.randint(0, 9)], ['const', rng.choice([0, 1, 2, 3])]], {}, False]


_TABLE = {'add': add, 'cat': cat, 'mk_list': mk_list, 'mk_dict': mk_dict,
          'div': div, 'boom': boom, 'Box': Box}


def eval_eager(spec):
  kind = spec[0]
  if kind == 'const':
    return spec[1]
  if kind == 'call':
    fn = _TABLE[spec[1]]
    args = [eval_eager(a) for a in spec[2]]
    kwargs = {k: eval_eager(v) for k, v in spec[3].items()}
    return fn(*args, **kwargs)
  if kind == 'method':
    obj = eval_eager(spec[1])
    args = [eval_eager(a) for a in spec[3]]
    kwargs = {k: eval_eager(v) for k, v in spec[4].items()}
    return getattr(obj, spec[2])(*args, **kwargs)
  if kind == 'item':
    return eval_eager(spec[1])[spec[2]]
  if kind == 'attr':
    return getattr(eval_eager(spec[1]), spec[2])
  if kind == 'callobj':
    return eval_eager(spec[1])(*[eval_eager(a) for a in spec[2]])
  raise ValueError(kind)


def build_lazy(spec, lazy_fns):
  kind = spec[0]
  if kind == 'const':
    return spec[1]
  if kind == 'call':
    fn = lazy_fns.trace(_TABLE[spec[1]])
    args = [build_lazy(a, lazy_fns) for a in spec[2]]
    kwargs = {k: build_lazy(v, lazy_fns) for k, v in spec[3].items()}
    if spec[4]:
      kwargs['cache_result_'] = True
    return fn(*args, **kwargs)
  if kind == 'method':
    obj = build_lazy(spec[1], lazy_fns)
    args = [build_lazy(a, lazy_fns) for a in spec[3]]
    kwargs = {k: build_lazy(v, lazy_fns) for k, v in spec[4].items()}
    return getattr(obj, spec[2])(*args, **kwargs)
  if kind == 'item':
    return build_lazy(spec[1], lazy_fns)[spec[2]]
  if kind == 'attr':
    return getattr(build_lazy(spec[1], lazy_fns), spec[2])
  if kind == 'callobj':
    return build_lazy(spec[1], lazy_fns)(*[build_lazy(a, lazy_fns) for a in spec[2]])
  raise ValueError(kind)


def expr_depth(spec):
  if spec[0] == 'const':
    return 0
  subs = []
  for x in spec[1:]:
    if isinstance(x, list) and x and isinstance(x[0], str) and x[0] in (
        'const', 'call', 'method', 'item', 'attr', 'callobj'):
      subs.append(expr_depth(x))
    elif isinstance(x, list):
      subs.extend(expr_depth(y) for y in x if isinstance(y, list) and y and isinstance(y[0], str))
    elif isinstance(x, dict):
      subs.extend(expr_depth(y) for y in x.values())
  return 1 + max(subs, default=0)
