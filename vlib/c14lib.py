"""Module-level callables and expression generator for C14 (importable in the
child so that cloudpickle ships them by reference)."""

from __future__ import annotations

import random


class AppError(Exception):
  pass


def add(a, b=0):
  return a + b


def cat(*parts, sep=''):
  return sep.join(str(p) for p in parts)


def mk_list(*xs):
  return list(xs)


def mk_dict(**kw):
  return dict(kw)


def boom(kind='value', msg='bad'):
  if kind == 'value':
    raise ValueError(msg)
  if kind == 'key':
    raise KeyError(msg)
  if kind == 'type':
    raise TypeError(msg)
  if kind == 'app':
    raise AppError(msg)
  if kind == 'runtime':
    raise RuntimeError(msg)
  if kind == 'timeout':
    raise TimeoutError(msg)      # an application-level timeout, not a call deadline
  if kind == 'conn':
    raise ConnectionError(msg)
  raise ZeroDivisionError(msg)


def div(a, b):
  return a // b


# In-flight calls: (entered, go) events per key; client and server share the process.
EVENTS = {}


def wait_then_boom(key, msg='late'):
  entered, go = EVENTS[key]
  entered.set()
  go.wait(20)
  raise ValueError(msg)


def wait_then_value(key, value):
  entered, go = EVENTS[key]
  entered.set()
  go.wait(20)
  return value


class Box:
  """Stateful object used for remote-object chains."""

  def __init__(self, val=0, elems=()):
    self.val = val
    self.elems = list(elems)
    self.hist = []

  def times(self, k=2):
    return self.val * k

  def bump(self, k=1):
    self.val += k
    self.hist.append(('bump', k))
    return self.val

  def push(self, x):
    self.elems.append(x)
    return len(self.elems)

  def child(self, k=1):
    return Box(self.val + k, self.elems[:k])

  def fail(self, msg='nope'):
    raise AppError(msg)

  def __getitem__(self, i):
    return self.elems[i]

  def __call__(self, x=0):
    return (self.val, x)

  def __eq__(self, other):
    return (isinstance(other, Box) and self.val == other.val
            and self.elems == other.elems)

  def __hash__(self):
    return hash(('Box', self.val, tuple(map(repr, self.elems))))

  def __repr__(self):
    return f'Box({self.val!r}, {self.elems!r})'


def counting_gen(n, ret=None, fail_at=None):
  for i in range(n):
    if fail_at is not None and i == fail_at:
      if i % 3 == 2:
        raise TimeoutError(f'gen@{i}')   # application-level timeout inside the generator
      raise AppError(f'gen@{i}')
    yield i
  return ret


# Sources of the bounded-iteration scenario: YIELDED[key] = number of elements the producer
# has taken from the generator so far (client and server share the process).
YIELDED = {}


def tracked_gen(key, n):
  for i in range(n):
    YIELDED[key] = i + 1
    yield i


# Callables of the liveness scenario: they take REAL seconds (the server keeps the real clock).
def paced_gen(n, real_dt):
  import time
  for i in range(n):
    time.sleep(real_dt)
    yield i


def sleep_then(real_secs, value):
  import time
  time.sleep(real_secs)
  return value


class SlowBox:
  """Stateful object whose method takes a while."""

  def __init__(self, val=0):
    self.val = val

  def bump(self, k=1, real_secs=0.0):
    import time
    time.sleep(real_secs)
    self.val += k
    return self.val


# ---------------------------------------------------------------------------
# Expression specs: JSON-able trees interpreted twice (eagerly and lazily).
# ---------------------------------------------------------------------------

_CONSTS = [0, 1, 2, 7, -3, 'a', 'bc', (1, 2), None]
_FNS = ['add', 'cat', 'mk_list', 'mk_dict', 'div', 'boom', 'box_times', 'box_item',
        'box_attr', 'box_call', 'box_child_attr', 'box_fail',
        # values that ARE exception instances (returned, not raised)
        'mk_exc', 'exc_ctor', 'first_error',
        # raised exceptions that carry attributes (code / errno / args of several shapes)
        'raise_attr', 'raise_attr']
_EXC_KINDS = ['value', 'key', 'app', 'runtime', 'stop', 'timeout', 'lookup', 'os']
_EXC_CTORS = ['ValueError', 'KeyError', 'RuntimeError', 'StopIteration', 'LookupError']


def gen_expr(rng: random.Random, depth: int):
  """Returns a spec: ('const', v) | ('call', fn, [args], {kwargs}, cache)."""
  if depth <= 0 or rng.random() < 0.25:
    return ['const', rng.choice(_CONSTS)]
  fn = rng.choice(_FNS)
  cache = rng.random() < 0.2
  sub = lambda: gen_expr(rng, depth - 1)
  num = lambda: (['const', rng.choice([0, 1, 2, 5, -1])] if rng.random() < 0.6
                 else ['call', 'add', [['const', rng.randint(0, 4)], sub_num(rng, depth - 1)], {}, False])
  if fn == 'add':
    return ['call', 'add', [num(), num()], {}, cache]
  if fn == 'cat':
    return ['call', 'cat', [sub() for _ in range(rng.randint(0, 3))],
            {'sep': ['const', rng.choice(['', '-', ','])]}, cache]
  if fn == 'mk_list':
    return ['call', 'mk_list', [sub() for _ in range(rng.randint(0, 3))], {}, False]
  if fn == 'mk_dict':
    return ['call', 'mk_dict', [], {k: sub() for k in rng.sample(['x', 'y', 'z'], rng.randint(0, 2))}, False]
  if fn == 'div':
    return ['call', 'div', [num(), num()], {}, cache]
  if fn == 'boom':
    return ['call', 'boom', [], {'kind': ['const', rng.choice(['value', 'key', 'type', 'app', 'runtime', 'zero', 'timeout', 'conn'])],
                                 'msg': ['const', rng.choice(['bad', 'x y', ''])]}, False]
  if fn == 'raise_attr':
    kind = rng.choice(ATTR_EXC_KINDS)
    return ['call', 'raise_attr', [], {'kind': ['const', kind],
                                       'msg': ['const', rng.choice(['bad', 'x y', 'quota 7'])],
                                       'code': ['const', rng.choice(ATTR_CODES)],
                                       'doc': ['const', rng.choice(MALFORMED_DOCS)]}, False]
  if fn == 'mk_exc':
    return ['call', 'mk_exc', [], {'kind': ['const', rng.choice(_EXC_KINDS)],
                                   'msg': ['const', rng.choice(['bad', 'x y', 'k'])]}, cache]
  if fn == 'exc_ctor':
    # the exception class itself is the traced callable: trace(ValueError)('boom')
    return ['call', rng.choice(_EXC_CTORS), [['const', rng.choice(['boom', 'k', 'x y'])]], {}, False]
  if fn == 'first_error':
    items = [['const', rng.choice([0, 1, 'a'])] for _ in range(rng.randint(0, 2))]
    if rng.random() < 0.8:
      items.insert(rng.randint(0, len(items)),
                   ['call', 'mk_exc', [], {'kind': ['const', rng.choice(_EXC_KINDS)],
                                           'msg': ['const', rng.choice(['bad', 'k'])]}, False])
    return ['call', 'first_error', [['call', 'mk_list', items, {}, False]], {}, False]
  box = ['call', 'Box', [num(), ['call', 'mk_list', [['const', c] for c in rng.sample([1, 2, 3, 'q'], rng.randint(0, 3))], {}, False]], {}, False]
  if fn == 'box_times':
    return ['method', box, 'times', [num()], {}]
  if fn == 'box_item':
    return ['item', box, rng.choice([0, 1, -1, 5])]
  if fn == 'box_attr':
    return ['attr', box, rng.choice(['val', 'elems', 'missing'])]
  if fn == 'box_call':
    return ['callobj', box, [num()]]
  if fn == 'box_child_attr':
    return ['attr', ['method', box, 'child', [['const', rng.randint(0, 2)]], {}], 'val']
  return ['method', box, 'fail', [['const', 'nope']], {}]


def sub_num(rng, depth):
  if depth <= 0 or rng.random() < 0.5:
    return ['const', rng.choice([0, 1, 3])]
  return ['call', 'div', [['const', rng.randint(0, 9)], ['const', rng.choice([0, 1, 2, 3])]], {}, False]


_TABLE = {'add': add, 'cat': cat, 'mk_list': mk_list, 'mk_dict': mk_dict,
          'div': div, 'boom': boom, 'Box': Box,
          'ValueError': ValueError, 'KeyError': KeyError, 'RuntimeError': RuntimeError,
          'StopIteration': StopIteration, 'LookupError': LookupError}


def _late_table():
  _TABLE.setdefault('raise_attr', raise_attr)
  _TABLE.setdefault('mk_exc', mk_exc)
  _TABLE.setdefault('first_error', first_error)


def eval_eager(spec):
  _late_table()
  kind = spec[0]
  if kind == 'const':
    return spec[1]
  if kind == 'call':
    fn = _TABLE[spec[1]]
    args = [eval_eager(a) for a in spec[2]]
    kwargs = {k: eval_eager(v) for k, v in spec[3].items()}
    return fn(*args, **kwargs)
  if kind == 'method':
    obj = eval_eager(spec[1])
    args = [eval_eager(a) for a in spec[3]]
    kwargs = {k: eval_eager(v) for k, v in spec[4].items()}
    return getattr(obj, spec[2])(*args, **kwargs)
  if kind == 'item':
    return eval_eager(spec[1])[spec[2]]
  if kind == 'attr':
    return getattr(eval_eager(spec[1]), spec[2])
  if kind == 'callobj':
    return eval_eager(spec[1])(*[eval_eager(a) for a in spec[2]])
  raise ValueError(kind)


def build_lazy(spec, lazy_fns):
  _late_table()
  kind = spec[0]
  if kind == 'const':
    return spec[1]
  if kind == 'call':
    fn = lazy_fns.trace(_TABLE[spec[1]])
    args = [build_lazy(a, lazy_fns) for a in spec[2]]
    kwargs = {k: build_lazy(v, lazy_fns) for k, v in spec[3].items()}
    if spec[4]:
      kwargs['cache_result_'] = True
    return fn(*args, **kwargs)
  if kind == 'method':
    obj = build_lazy(spec[1], lazy_fns)
    args = [build_lazy(a, lazy_fns) for a in spec[3]]
    kwargs = {k: build_lazy(v, lazy_fns) for k, v in spec[4].items()}
    return getattr(obj, spec[2])(*args, **kwargs)
  if kind == 'item':
    return build_lazy(spec[1], lazy_fns)[spec[2]]
  if kind == 'attr':
    return getattr(build_lazy(spec[1], lazy_fns), spec[2])
  if kind == 'callobj':
    return build_lazy(spec[1], lazy_fns)(*[build_lazy(a, lazy_fns) for a in spec[2]])
  raise ValueError(kind)


def expr_depth(spec):
  if spec[0] == 'const':
    return 0
  subs = []
  for x in spec[1:]:
    if isinstance(x, list) and x and isinstance(x[0], str) and x[0] in (
        'const', 'call', 'method', 'item', 'attr', 'callobj'):
      subs.append(expr_depth(x))
    elif isinstance(x, list):
      subs.extend(expr_depth(y) for y in x if isinstance(y, list) and y and isinstance(y[0], str))
    elif isinstance(x, dict):
      subs.extend(expr_depth(y) for y in x.values())
  return 1 + max(subs, default=0)


# ---------------------------------------------------------------------------
# Exceptions as VALUES (returned / yielded, never raised)
# ---------------------------------------------------------------------------

_EXC_TYPES = {'value': ValueError, 'key': KeyError, 'app': AppError, 'runtime': RuntimeError,
              'stop': StopIteration, 'timeout': TimeoutError, 'lookup': LookupError,
              'os': OSError}


def mk_exc(kind='value', msg='bad'):
  """Returns (does not raise) an exception instance, e.g. an error collected as data."""
  return _EXC_TYPES[kind](msg)


def first_error(xs):
  """Returns the first exception instance found in xs (or None)."""
  return next((x for x in xs if isinstance(x, BaseException)), None)


def decode_elem(e):
  """Element spec -> element: plain JSON values, or ['exc', kind, msg] -> instance."""
  if isinstance(e, list) and len(e) == 3 and e[0] == 'exc':
    return mk_exc(e[1], e[2])
  return e


def elem_gen(elems, ret=None):
  """A generator over decoded element specs (some may be exception instances)."""
  for e in elems:
    yield decode_elem(e)
  return ret


def elem_list(elems):
  return [decode_elem(e) for e in elems]


class ExcVal(tuple):
  """Normal form of an exception instance that occurs as a VALUE: (type name, str)."""

  def __repr__(self):
    return f'<value {self[0]}({self[1]!r})>'


def norm(v):
  """Replaces exception instances inside a value by ExcVal (exceptions compare by identity)."""
  if isinstance(v, BaseException):
    return ExcVal((type(v).__name__, str(v)))
  if isinstance(v, list):
    return [norm(x) for x in v]
  if isinstance(v, tuple) and type(v) is tuple:
    return tuple(norm(x) for x in v)
  if isinstance(v, dict):
    return {k: norm(x) for k, x in v.items()}
  return v


# ---------------------------------------------------------------------------
# RAISED exceptions that carry attributes: a numeric / symbolic `code`, an `errno`,
# args of several shapes; user classes and stdlib classes. All of them survive a
# pickle round trip with type, str() and attributes intact.
# ---------------------------------------------------------------------------

ATTR_CODES = [0, 1, 2, 3, 4, 5, 6, 'x', 4, 4.0, None]
ATTR_EXC_KINDS = ['init_args', 'init_attr', 'class_attr', 'set_attr', 'set_attr_app', 'oserror',
                  'args_none', 'args_code_only', 'args_nested', 'args_dict', 'code_method',
                  'parse_xml', 'parse_xml', 'expat', 'json', 'unicode', 'calledprocess']
# malformed documents: expat error codes 4, 3, 3, 7, 9, 2, 8, 4, 11
MALFORMED_DOCS = ['<a>&</a>', '', '<a>', '<a></b>', '<a/><b/>', 'x', '<a b="1" b="2"/>',
                  '<a>\x01</a>', '<a>&nope;</a>']


class CodedArgsError(Exception):
  """code is a constructor argument AND kept in args: QuotaError('quota exceeded', 4)."""

  def __init__(self, msg, code):
    super().__init__(msg, code)
    self.code = code


class CodedAttrError(Exception):
  """code is an optional constructor argument that is not part of args."""

  def __init__(self, msg, code=0):
    super().__init__(msg)
    self.code = code


class ClassCode4Error(Exception):
  code = 4          # a class-level constant, like an error catalogue entry


class ClassCode2Error(Exception):
  code = 2


class CodeMethodError(Exception):
  """`code` is a METHOD (the gRPC convention), never equal to a number."""

  def __init__(self, msg, code=0):
    super().__init__(msg)
    self._code = code

  def code(self):
    return self._code


def raise_attr(kind='init_args', msg='bad', code=4, doc='<a>&</a>'):
  """Raises an exception carrying attributes; what is raised is a function of the arguments only."""
  if kind == 'init_args':
    raise CodedArgsError(msg, code)
  if kind == 'init_attr':
    raise CodedAttrError(msg, code)
  if kind == 'class_attr':
    raise (ClassCode4Error if code == 4 else ClassCode2Error)(msg)
  if kind in ('set_attr', 'set_attr_app'):
    e = ValueError(msg) if kind == 'set_attr' else AppError(msg)
    e.code = code
    e.detail = {'msg': msg}
    raise e
  if kind == 'oserror':
    raise OSError(code if isinstance(code, int) else 5, msg)   # .errno, no .code
  if kind == 'args_none':
    e = AppError()
    e.code = code
    raise e
  if kind == 'args_code_only':
    e = AppError(code)
    e.code = code
    raise e
  if kind == 'args_nested':
    e = AppError((msg, code))
    e.code = code
    raise e
  if kind == 'args_dict':
    e = AppError(msg, {'code': code})
    e.code = code
    raise e
  if kind == 'code_method':
    raise CodeMethodError(msg, code)
  if kind == 'parse_xml':
    import xml.etree.ElementTree as ET
    return ET.fromstring(doc).tag
  if kind == 'expat':
    import xml.parsers.expat as expat
    p = expat.ParserCreate()
    p.Parse(doc, True)
    return 'parsed'
  if kind == 'json':
    import json
    return json.loads(doc)
  if kind == 'unicode':
    return (msg.encode() + b'\xff').decode('utf8')
  if kind == 'calledprocess':
    import subprocess
    raise subprocess.CalledProcessError(code if isinstance(code, int) else 1, msg)
  raise ValueError(kind)


# An exception class whose __init__ signature differs from its args (observation only).
class QuotaError(Exception):

  def __init__(self, user, limit):
    super().__init__(f'user {user} exceeded quota {limit}')
    self.user, self.limit = user, limit


def boom_custom(user='u', limit=3):
  raise QuotaError(user, limit)


# ---------------------------------------------------------------------------
# Sources for async_iter: construction succeeds / fails in different places
# ---------------------------------------------------------------------------


def open_source(kind='notfound', msg='no such dataset'):
  """A data source that cannot be opened: raises while CONSTRUCTING the iterable."""
  if kind == 'notfound':
    raise FileNotFoundError(msg)
  if kind == 'app':
    raise AppError(msg)
  if kind == 'key':
    raise KeyError(msg)
  raise ValueError(msg)


class BadIterable:
  """Constructed fine, but __iter__ raises."""

  def __init__(self, msg='cannot iterate'):
    self.msg = msg

  def __iter__(self):
    raise AppError(self.msg)


# ---------------------------------------------------------------------------
# Gated user callables: force two server handlers to overlap inside user code.
# GATES[key] = {'lock', 'entered', 'go', ...}; client and server share the process.
# ---------------------------------------------------------------------------

import threading as _threading

GATES = {}
CONSTRUCTED = {}
_COUNT_LOCK = _threading.Lock()


def new_gate(key, **extra):
  g = {'lock': _threading.Lock(), 'entered': 0, 'go': _threading.Event(), 'armed': True}
  g.update(extra)
  GATES[key] = g
  CONSTRUCTED[key] = 0
  return g


def _pass_gate(key):
  g = GATES.get(key)
  if g is None or not g['armed']:
    return
  with g['lock']:
    g['entered'] += 1
  g['go'].wait(30)


class GatedModel:
  """A model whose loading takes a while (the thing people cache)."""

  def __init__(self, key, start=0):
    _pass_gate(key)
    with _COUNT_LOCK:
      CONSTRUCTED[key] = CONSTRUCTED.get(key, 0) + 1
    self.n = start

  def bump(self, k=1):
    self.n += k
    return self.n


def gated_load(key, start=0):
  """Function flavour of GatedModel (a loader function returning the model)."""
  return GatedModel(key, start)


class HashGate:
  """A hashable config argument; hashing the armed victim passes the gate."""

  def __init__(self, n, key):
    self.n, self.key = n, key

  def __hash__(self):
    g = GATES.get(self.key)
    if g is not None and g['armed'] and g.get('victim') == self.n:
      _pass_gate(self.key)
    return hash(('HashGate', self.n))

  def __eq__(self, other):
    return isinstance(other, HashGate) and other.n == self.n

  def __repr__(self):
    return f'HashGate({self.n})'


def build_cfg(cfg, extra=0):
  return ('built', cfg.n, extra)


# ---------------------------------------------------------------------------
# Callables / arguments that cloudpickle ships BY VALUE (new object per unpickle)
# ---------------------------------------------------------------------------


class Counter:
  """Stateful object: bump() returns its own call number."""

  def __init__(self, start=0):
    self.n = start

  def bump(self, k=1):
    self.n += k
    return self.n


def byvalue_loader(kind, start=0):
  """A loader callable that is not importable by name (pickled by value)."""
  if kind == 'lambda':
    return lambda: Counter(start)
  if kind == 'closure':
    def load_model():
      return Counter(start)
    return load_model
  if kind == 'partial':
    import functools
    return functools.partial(Counter, start)
  raise ValueError(kind)


class PlainCfg:
  """A config object with the default identity hash / eq."""

  def __init__(self, start=0):
    self.start = start


def load_with_cfg(cfg=None, **kw):
  return Counter((cfg or kw['cfg']).start)
