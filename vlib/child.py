"""Child entry point: runs one chunk of a property in a fresh interpreter."""

import importlib
import json
import os
import sys
import traceback


def main():
  pid, spec_path, out_path = sys.argv[1:4]
  with open(spec_path) as f:
    spec = json.load(f)
  # Quiet absl logging: the library logs full tracebacks for expected errors.
  try:
    from absl import logging as absl_logging
    absl_logging.set_verbosity(absl_logging.FATAL)
    absl_logging.set_stderrthreshold('fatal')
    import logging as _pylogging
    _pylogging.disable(_pylogging.CRITICAL)
  except Exception:  # pylint: disable=broad-exception-caught
    pass
  import warnings
  warnings.filterwarnings('ignore')
  from vlib import runner
  mod = importlib.import_module(f'vlib.props.{pid}')
  ctx = runner.Ctx(spec)
  if 'replay_case' in spec:
    mod.run_case(ctx, spec['replay_case'])
  else:
    mod.run_chunk(ctx, spec)
  with open(out_path + '.tmp', 'w') as f:
    json.dump(ctx.result(), f, default=repr)
  os.replace(out_path + '.tmp', out_path)
  sys.stdout.flush()
  # Helper threads of the code under test may be daemonic/stuck; do not wait.
  os._exit(0)


if __name__ == '__main__':
  try:
    main()
  except SystemExit:
    raise
  except BaseException:  # pylint: disable=broad-exception-caught
    traceback.print_exc()
    sys.stdout.flush()
    os._exit(3)
