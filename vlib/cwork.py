"""Helpers for checks that drive the Courier-facing code over the simulated transport."""

from __future__ import annotations

import itertools
import threading
import time as _real_time

_names = itertools.count()
_state = {'scale': None, 'patched': False}


class DilatedTime:
  """Module look-alike: time() runs S times faster, sleep(x) sleeps x/S."""

  def __init__(self, scale):
    self.scale = scale
    self._t0 = _real_time.time()

  def time(self):
    return self._t0 + (_real_time.time() - self._t0) * self.scale

  def monotonic(self):
    return _real_time.monotonic() * self.scale

  def sleep(self, x):
    # sleep(0) is used for busy polling; yield the CPU for a tiny real amount.
    _real_time.sleep(max(x / self.scale, 0.0002))

  def __getattr__(self, name):
    return getattr(_real_time, name)


class _NoSignal:
  SIGINT, SIGTERM, SIGABRT = 2, 15, 6

  @staticmethod
  def signal(*a, **k):
    return None


def setup(scale=1.0):
  """Imports the Courier-facing modules and installs the dilated clock."""
  import courier
  from ml_metrics._src.chainables import courier_server, courier_worker, orchestrate
  from ml_metrics._src.utils import courier_utils
  assert hasattr(courier, 'sim'), 'simulated transport is not first on sys.path'
  if not _state['patched']:
    courier_server.signal = _NoSignal
    _state['orig_hb'] = courier_server._HRTBT_INTERVAL_SECS  # pylint: disable=protected-access
    _state['patched'] = True
  clock = DilatedTime(scale)
  for m in (courier_utils, courier_worker, orchestrate, courier_server):
    m.time = clock
  # The only constant handed to a real Condition.wait().
  courier_server._HRTBT_INTERVAL_SECS = _state['orig_hb'] / scale  # pylint: disable=protected-access
  courier.sim.time_scale = scale
  _state['scale'] = scale
  return clock


def unique(prefix):
  return f'{prefix}_{next(_names)}'


def start_servers(n, prefix='w', prefetch=True, **kwargs):
  from ml_metrics._src.chainables import courier_server
  servers = []
  for _ in range(n):
    name = unique(prefix)
    cls = (courier_server.PrefetchedCourierServer if prefetch
           else courier_server.CourierServer)
    s = cls(name, **kwargs)
    s.start()
    servers.append(s)
  return servers


def stop_servers(servers, join_s=2.0):
  for s in servers:
    try:
      s._request_shutdown()  # pylint: disable=protected-access
    except Exception:  # pylint: disable=broad-exception-caught
      pass
  deadline = _real_time.time() + join_s
  for s in servers:
    t = getattr(s, '_thread', None)
    if t is not None:
      t.join(max(0.0, deadline - _real_time.time()))


def run_with_watchdog(fn, timeout_s):
  """Runs fn() in a daemon thread; returns (finished, result, exception)."""
  box = {}

  def target():
    try:
      box['result'] = fn()
    except BaseException as e:  # pylint: disable=broad-exception-caught
      box['exc'] = e

  t = threading.Thread(target=target, daemon=True, name='verif-case')
  t.start()
  t.join(timeout_s)
  return (not t.is_alive()), box.get('result'), box.get('exc')
