"""Drop-in `threading` / `concurrent.futures` shims cooperating with the scheduler.

Install with `install(module)`: replaces the module-global names `threading`
and `futures` of a repository module by the shim namespaces below.  Primitives
used from an uncontrolled thread (harness set-up code, GC finalisers) degrade
to non-blocking pass-through.
"""

from __future__ import annotations

import collections
import concurrent.futures as _rf
import threading as _rt

from vlib.sched import core

EVENTS = {'lock_ops': 0, 'cond_waits': 0, 'cond_notifies': 0, 'thread_starts': 0,
          'submits': 0}


def _sched():
  s = core.ACTIVE
  if s is not None and s.controlled():
    return s
  return None


def _ident():
  s = core.ACTIVE
  if s is not None:
    st = s.me()
    if st is not None:
      return ('c', st.idx)
  return ('u', _rt.get_ident())


class Lock:
  """Non-reentrant lock."""

  def __init__(self):
    self._owner = None

  def acquire(self, blocking=True, timeout=-1):
    EVENTS['lock_ops'] += 1
    s = _sched()
    if s is None:
      if core.ACTIVE is not None and core.ACTIVE.aborted:
        return True
      if self._owner is None:
        self._owner = _ident()
        return True
      if not blocking:
        return False
      raise RuntimeError('uncontrolled thread would block on a shim Lock')
    if s.aborted:
      return True
    s.yield_point('acquire')
    if self._owner is None:
      self._owner = _ident()
      return True
    if not blocking:
      return False
    timed = timeout is not None and timeout >= 0
    ok = s.block(lambda: self._owner is None, f'Lock@{id(self):x}.acquire', timed)
    if not ok:
      return False
    self._owner = _ident()
    return True

  def release(self):
    EVENTS['lock_ops'] += 1
    s = core.ACTIVE
    if s is not None and s.aborted:
      self._owner = None
      return
    if self._owner is None:
      raise RuntimeError('release unlocked lock')
    self._owner = None
    s = _sched()
    if s is not None:
      s.yield_point('release')

  def locked(self):
    return self._owner is not None

  def __enter__(self):
    self.acquire()
    return True

  def __exit__(self, *a):
    self.release()

  # Condition support
  def _is_owned(self):
    return self._owner == _ident()

  def _release_save(self):
    self._owner = None
    return None

  def _acquire_restore(self, state):
    del state
    s = _sched()
    if s is None or s.aborted:
      self._owner = _ident()
      return
    if self._owner is not None:
      s.block(lambda: self._owner is None, f'Lock@{id(self):x}.reacquire')
    self._owner = _ident()


class RLock:
  """Re-entrant lock."""

  def __init__(self):
    self._owner = None
    self._count = 0

  def acquire(self, blocking=True, timeout=-1):
    EVENTS['lock_ops'] += 1
    me = _ident()
    s = _sched()
    if s is None:
      if core.ACTIVE is not None and core.ACTIVE.aborted:
        return True
      if self._owner is None or self._owner == me:
        self._owner = me
        self._count += 1
        return True
      if not blocking:
        return False
      raise RuntimeError('uncontrolled thread would block on a shim RLock')
    if s.aborted:
      return True
    if self._owner == me:
      self._count += 1
      return True
    s.yield_point('acquire')
    if self._owner is None:
      self._owner, self._count = me, 1
      return True
    if not blocking:
      return False
    timed = timeout is not None and timeout >= 0
    ok = s.block(lambda: self._owner is None, f'RLock@{id(self):x}.acquire', timed)
    if not ok:
      return False
    self._owner, self._count = me, 1
    return True

  def release(self):
    EVENTS['lock_ops'] += 1
    s = core.ACTIVE
    if s is not None and s.aborted:
      self._owner, self._count = None, 0
      return
    if self._owner != _ident():
      raise RuntimeError('cannot release un-acquired lock')
    self._count -= 1
    if self._count == 0:
      self._owner = None
      s = _sched()
      if s is not None:
        s.yield_point('release')

  def locked(self):
    return self._owner is not None

  def __enter__(self):
    self.acquire()
    return True

  def __exit__(self, *a):
    self.release()

  def _is_owned(self):
    return self._owner == _ident()

  def _release_save(self):
    state = (self._owner, self._count)
    self._owner, self._count = None, 0
    return state

  def _acquire_restore(self, state):
    owner, count = state
    s = _sched()
    if s is None or s.aborted:
      self._owner, self._count = owner, count
      return
    if self._owner is not None:
      s.block(lambda: self._owner is None, f'RLock@{id(self):x}.reacquire')
    self._owner, self._count = owner, count


class _Waiter:
  __slots__ = ('notified',)

  def __init__(self):
    self.notified = False


class Condition:
  """Condition variable with FIFO notification, no spurious wake-ups."""

  def __init__(self, lock=None):
    self._lock = lock if lock is not None else RLock()
    self._waiters = collections.deque()
    self.acquire = self._lock.acquire
    self.release = self._lock.release

  def __enter__(self):
    return self._lock.__enter__()

  def __exit__(self, *a):
    return self._lock.__exit__(*a)

  def wait(self, timeout=None):
    EVENTS['cond_waits'] += 1
    s = _sched()
    if s is None:
      if core.ACTIVE is not None and core.ACTIVE.aborted:
        raise core.SchedAbort()
      raise RuntimeError('uncontrolled thread would block on a shim Condition')
    if s.aborted:
      raise core.SchedAbort()
    if not self._lock._is_owned():
      raise RuntimeError('cannot wait on un-acquired lock')
    w = _Waiter()
    self._waiters.append(w)
    saved = self._lock._release_save()
    try:
      ok = s.block(lambda: w.notified, f'Condition@{id(self):x}.wait',
                   timed=timeout is not None)
      if not ok:
        try:
          self._waiters.remove(w)
        except ValueError:
          pass
    finally:
      self._lock._acquire_restore(saved)
    return ok

  def wait_for(self, predicate, timeout=None):
    result = predicate()
    while not result:
      if not self.wait(timeout):
        return predicate()
      result = predicate()
    return result

  def notify(self, n=1):
    EVENTS['cond_notifies'] += 1
    s = core.ACTIVE
    if s is not None and s.aborted:
      return
    if not self._lock._is_owned():
      raise RuntimeError('cannot notify on un-acquired lock')
    while n > 0 and self._waiters:
      w = self._waiters.popleft()
      w.notified = True
      n -= 1
    s = _sched()
    if s is not None:
      s.yield_point('notify')

  def notify_all(self):
    self.notify(len(self._waiters) + 1)


class Event:

  def __init__(self):
    self._flag = False

  def is_set(self):
    return self._flag

  def set(self):
    self._flag = True
    s = _sched()
    if s is not None:
      s.yield_point('event.set')

  def clear(self):
    self._flag = False

  def wait(self, timeout=None):
    if self._flag:
      return True
    s = _sched()
    if s is None:
      raise RuntimeError('uncontrolled thread would block on a shim Event')
    return s.block(lambda: self._flag, f'Event@{id(self):x}.wait',
                   timed=timeout is not None)


class Thread:
  """threading.Thread look-alike running as a controlled thread."""

  def __init__(self, group=None, target=None, name=None, args=(), kwargs=None,
               *, daemon=None):
    del group
    self._target, self._args, self._kwargs = target, args, kwargs or {}
    self.name = name or 'Thread'
    self.daemon = bool(daemon)
    self._st = None
    self._real = None

  def run(self):
    if self._target is not None:
      self._target(*self._args, **self._kwargs)

  def start(self):
    EVENTS['thread_starts'] += 1
    s = core.ACTIVE
    if s is None:
      self._real = _rt.Thread(target=self.run, name=self.name, daemon=self.daemon)
      self._real.start()
      return
    self._st = s.spawn(self.run, name=f'{self.name}#{len(s.threads)}')
    if s.controlled():
      s.yield_point('thread.start')

  def is_alive(self):
    if self._real is not None:
      return self._real.is_alive()
    return self._st is not None and not self._st.finished

  def join(self, timeout=None):
    if self._real is not None:
      return self._real.join(timeout)
    if self._st is None:
      raise RuntimeError('cannot join thread before it is started')
    if self._st.finished:
      return
    s = _sched()
    if s is None:
      if core.ACTIVE is not None and core.ACTIVE.aborted:
        return
      raise RuntimeError('uncontrolled thread would block on Thread.join')
    if s.me() is self._st:
      raise RuntimeError('cannot join current thread')
    st = self._st
    s.block(lambda: st.finished, f'join({st.name})', timed=timeout is not None)

  @property
  def ident(self):
    return id(self)


class Future:
  """Minimal concurrent.futures.Future look-alike."""

  def __init__(self):
    self._done = False
    self._result = None
    self._exc = None
    self._cancelled = False
    self._callbacks = []

  def done(self):
    return self._done

  def cancelled(self):
    return self._cancelled

  def running(self):
    return not self._done

  def cancel(self):
    if self._done:
      return False
    self._cancelled = True
    self._finish()
    return True

  def _finish(self):
    self._done = True
    for cb in self._callbacks:
      try:
        cb(self)
      except Exception:  # pylint: disable=broad-exception-caught
        pass

  def set_result(self, r):
    self._result = r
    self._finish()

  def set_exception(self, e):
    self._exc = e
    self._finish()

  def add_done_callback(self, cb):
    if self._done:
      cb(self)
    else:
      self._callbacks.append(cb)

  def _wait(self, timeout):
    if self._done:
      return
    s = _sched()
    if s is None:
      raise RuntimeError('uncontrolled thread would block on Future')
    ok = s.block(lambda: self._done, 'Future.result', timed=timeout is not None)
    if not ok:
      raise _rf.TimeoutError()

  def result(self, timeout=None):
    self._wait(timeout)
    if self._cancelled:
      raise _rf.CancelledError()
    if self._exc is not None:
      raise self._exc
    return self._result

  def exception(self, timeout=None):
    self._wait(timeout)
    if self._cancelled:
      raise _rf.CancelledError()
    return self._exc


EXECUTORS = []  # every shim executor created (monitor: shutdown + idle at end)


class ThreadPoolExecutor:
  """Executor whose workers are controlled threads."""

  def __init__(self, max_workers=None, thread_name_prefix='', initializer=None,
               initargs=()):
    del initializer, initargs
    self._max_workers = max_workers or 8
    self._thread_name_prefix = thread_name_prefix or 'pool'
    self._q = collections.deque()
    self._workers = []
    self._idle = 0
    self._shutdown = False
    self.submitted = 0
    self.completed = 0
    EXECUTORS.append(self)

  def submit(self, fn, /, *args, **kwargs):
    EVENTS['submits'] += 1
    if self._shutdown:
      raise RuntimeError('cannot schedule new futures after shutdown')
    f = Future()
    self._q.append((f, fn, args, kwargs))
    self.submitted += 1
    s = core.ACTIVE
    if s is None:
      raise RuntimeError('shim executor used without an active scheduler')
    if self._idle < len(self._q) and len(self._workers) < self._max_workers:
      st = s.spawn(self._worker,
                   name=f'{self._thread_name_prefix}_{len(self._workers)}')
      self._workers.append(st)
    if s.controlled():
      s.yield_point('submit')
    return f

  def _worker(self):
    s = core.ACTIVE
    while True:
      if not self._q and not self._shutdown:
        self._idle += 1
        try:
          s.block(lambda: bool(self._q) or self._shutdown, 'executor.idle')
        finally:
          self._idle -= 1
      if self._q:
        f, fn, args, kwargs = self._q.popleft()
        if f.cancelled():
          continue
        try:
          r = fn(*args, **kwargs)
        except core.SchedAbort:
          raise
        except BaseException as e:  # pylint: disable=broad-exception-caught
          f.set_exception(e)
        else:
          f.set_result(r)
        self.completed += 1
        s.yield_point('task.done')
        continue
      if self._shutdown:
        return

  def shutdown(self, wait=True, *, cancel_futures=False):
    self._shutdown = True
    if cancel_futures:
      while self._q:
        self._q.popleft()[0].cancel()
    s = _sched()
    if s is None:
      return
    s.yield_point('shutdown')
    if wait:
      me = s.me()
      for st in list(self._workers):
        if st is me or st.finished:
          continue
        s.block(lambda st=st: st.finished, f'executor.shutdown.join({st.name})')

  def all_workers_finished(self):
    return all(st.finished for st in self._workers)

  def __enter__(self):
    return self

  def __exit__(self, *a):
    self.shutdown(wait=True)
    return False


class _Namespace:
  """Module look-alike: shim names first, real module for everything else."""

  def __init__(self, real, overrides):
    self.__dict__['_real'] = real
    self.__dict__.update(overrides)

  def __getattr__(self, name):
    return getattr(self._real, name)


threading_shim = _Namespace(_rt, {
    'Lock': Lock, 'RLock': RLock, 'Condition': Condition, 'Event': Event,
    'Thread': Thread,
})
futures_shim = _Namespace(_rf, {
    'ThreadPoolExecutor': ThreadPoolExecutor, 'Future': Future,
})

_installed = {}


def install(module, names=('threading', 'futures')):
  """Replaces module-global `threading` / `futures` by the shims."""
  took = []
  for n in names:
    if not hasattr(module, n):
      continue
    real = getattr(module, n)
    if isinstance(real, _Namespace):
      took.append(n)
      continue
    if n == 'threading' and real is _rt:
      setattr(module, n, threading_shim)
      took.append(n)
    elif n == 'futures' and real is _rf:
      setattr(module, n, futures_shim)
      took.append(n)
    _installed.setdefault(module.__name__, {})[n] = real
  return took


def uninstall(module):
  for n, real in _installed.pop(module.__name__, {}).items():
    setattr(module, n, real)
