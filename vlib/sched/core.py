"""Deterministic scheduler for Python-level thread interleavings (engine E2).

Controlled threads are real OS threads, but exactly one of them runs at a time.
Control is handed over only at *yield points*: every operation of the shim
synchronisation primitives (vlib/sched/shims.py) and, optionally, at statement
boundaries (sys.monitoring LINE events) of registered code objects.  Which
thread runs next is decided by a seeded strategy, so a schedule is a pure
function of (workload, seed, strategy) and can be replayed.

"Hang" is exact here: if no controlled thread is enabled, none is in a timed
wait, and some thread has not finished, the run ends with a deadlock witness
(who is blocked on what, with stacks) - not a timeout.
"""

from __future__ import annotations

import hashlib
import random
import sys
import threading as _rt
import time as _time
import traceback

ACTIVE: 'Scheduler | None' = None
_TOOL_ID = 4
_line_codes: set = set()
_line_installed = False


class SchedAbort(BaseException):
  """Raised inside controlled threads to unwind them when a run is aborted."""


class _TState:
  __slots__ = ('idx', 'name', 'sem', 'finished', 'pred', 'desc', 'timed',
               'timed_out', 'os_thread', 'exc', 'priority', 'started',
               'result', 'in_sched')

  def __init__(self, idx, name):
    self.idx = idx
    self.name = name
    self.sem = _rt.Semaphore(0)
    self.finished = False
    self.pred = None
    self.desc = None
    self.timed = False
    self.timed_out = False
    self.os_thread = None
    self.exc = None
    self.priority = 0.0
    self.started = False
    self.result = None
    self.in_sched = False


class Scheduler:
  """One schedule exploration."""

  def __init__(self, seed: int, *, strategy: str = 'random',
               p_sync: float = 0.35, p_line: float = 0.08,
               pct_depth: int = 3, pct_steps: int = 400,
               max_steps: int = 200000):
    self.rng = random.Random(seed)
    self.seed = seed
    self.strategy = strategy
    self.p_sync = p_sync
    self.p_line = p_line
    self.max_steps = max_steps
    self.threads: list[_TState] = []
    self.current: _TState | None = None
    self.local = _rt.local()
    self.aborted = False
    self.status = 'ok'  # ok | deadlock | step_bound | watchdog
    self.witness = None
    self.trace: list[int] = []
    self.steps = 0
    self.switches = 0
    self.preemptions = 0
    self.line_preemptions = 0
    self.preempt_sites: dict[str, int] = {}
    self.timeouts_fired = 0
    self.done_event = _rt.Event()
    self._mu = _rt.Lock()
    if strategy == 'pct':
      self._change_points = sorted(
          self.rng.randrange(1, max(2, pct_steps)) for _ in range(pct_depth))
    else:
      self._change_points = []
    self._low_priority = 0.0
    global ACTIVE
    ACTIVE = self

  # -- thread management ------------------------------------------------------
  def me(self) -> _TState | None:
    return getattr(self.local, 'st', None)

  def controlled(self) -> bool:
    return getattr(self.local, 'st', None) is not None

  def spawn(self, fn, name=None, args=(), kwargs=None) -> _TState:
    """Registers a controlled thread; it starts parked."""
    st = _TState(len(self.threads), name or f't{len(self.threads)}')
    st.priority = self.rng.random() + 1.0
    self.threads.append(st)

    def bootstrap():
      self.local.st = st
      st.sem.acquire()
      try:
        if self.aborted:
          return
        st.started = True
        st.result = fn(*args, **(kwargs or {}))
      except SchedAbort:
        pass
      except BaseException as e:  # pylint: disable=broad-exception-caught
        st.exc = e
      finally:
        st.finished = True
        st.pred = None
        self._on_finish(st)

    st.os_thread = _rt.Thread(target=bootstrap, name=f'sched:{st.name}',
                              daemon=True)
    st.os_thread.start()
    return st

  def _on_finish(self, st):
    if self.aborted:
      self._maybe_done()
      return
    # Hand the baton to someone else (never returns control to st).
    try:
      self._switch(st, finishing=True)
    except SchedAbort:
      pass
    self._maybe_done()

  def _maybe_done(self):
    if all(t.finished for t in self.threads):
      self.done_event.set()

  # -- core -------------------------------------------------------------------
  def _enabled(self):
    out = []
    for t in self.threads:
      if t.finished:
        continue
      if t.pred is None:
        out.append(t)
      else:
        try:
          ok = t.pred()
        except Exception:  # pylint: disable=broad-exception-caught
          ok = True
        if ok:
          out.append(t)
    return out

  def _choose(self, enabled, me, preempt_ok):
    """Picks the next thread among `enabled`."""
    if len(enabled) == 1:
      return enabled[0]
    if self.strategy == 'pct':
      return max(enabled, key=lambda t: t.priority)
    # random walk
    me_enabled = me in enabled
    if me_enabled and not preempt_ok:
      return me
    choice = self.rng.choice(enabled)
    return choice

  def _abort(self, status, witness=None):
    self.aborted = True
    if self.status == 'ok':
      self.status = status
      self.witness = witness
    for t in self.threads:
      t.sem.release()
    self.done_event.set()

  def _describe_blocked(self):
    frames = sys._current_frames()  # pylint: disable=protected-access
    out = {}
    for t in self.threads:
      if t.finished:
        continue
      stack = []
      fr = frames.get(t.os_thread.ident) if t.os_thread else None
      if fr is not None:
        for fs in traceback.extract_stack(fr)[-14:]:
          if '/vlib/sched/' in fs.filename or fs.filename.endswith('threading.py'):
            continue
          stack.append(f'{fs.filename.rsplit("/", 1)[-1]}:{fs.lineno}:{fs.name}')
      out[t.name] = {'blocked_on': t.desc, 'timed': t.timed, 'stack': stack[-8:]}
    return out

  def _switch(self, me: _TState, finishing=False, preempt_ok=True):
    """Decides who runs next; parks `me` if it is someone else."""
    if self.aborted:
      if finishing:
        return
      raise SchedAbort()
    enabled = self._enabled()
    if not enabled:
      timed = [t for t in self.threads if not t.finished and t.timed]
      if timed:
        t = self.rng.choice(timed)
        t.timed_out = True
        self.timeouts_fired += 1
        enabled = [t]
      elif all(t.finished for t in self.threads):
        self.done_event.set()
        return
      else:
        self._abort('deadlock', self._describe_blocked())
        if finishing:
          return
        raise SchedAbort()
    nxt = self._choose(enabled, me, preempt_ok)
    if len(enabled) > 1:
      self.trace.append(nxt.idx)
    if nxt is me:
      return
    self.switches += 1
    if not finishing and me.pred is None:
      self.preemptions += 1
    self.current = nxt
    nxt.sem.release()
    if finishing:
      return
    me.sem.acquire()
    if self.aborted:
      raise SchedAbort()

  def yield_point(self, kind: str, site: str | None = None):
    """A point where the running thread may be pre-empted."""
    me = self.me()
    if me is None or me.in_sched:
      return
    if self.aborted:
      raise SchedAbort()
    me.in_sched = True
    try:
      self.steps += 1
      if self.steps > self.max_steps:
        self._abort('step_bound', self._describe_blocked())
        raise SchedAbort()
      if self.strategy == 'pct':
        if self._change_points and self.steps >= self._change_points[0]:
          self._change_points.pop(0)
          self._low_priority -= 1.0
          me.priority = self._low_priority
        before = self.switches
        self._switch(me)
        if self.switches != before and kind == 'line':
          self.line_preemptions += 1
          if site:
            self.preempt_sites[site] = self.preempt_sites.get(site, 0) + 1
        return
      p = self.p_line if kind == 'line' else self.p_sync
      if self.rng.random() < p:
        before = self.switches
        self._switch(me)
        if self.switches != before:
          if kind == 'line':
            self.line_preemptions += 1
          if site:
            self.preempt_sites[site] = self.preempt_sites.get(site, 0) + 1
    finally:
      me.in_sched = False

  def block(self, pred, desc: str, timed: bool = False) -> bool:
    """Parks the running thread until pred() holds. Returns False on timeout."""
    me = self.me()
    if me is None:
      raise RuntimeError(f'uncontrolled thread would block on {desc}')
    if self.aborted:
      raise SchedAbort()
    me.in_sched = True
    try:
      self.steps += 1
      if self.steps > self.max_steps:
        self._abort('step_bound', self._describe_blocked())
        raise SchedAbort()
      me.pred, me.desc, me.timed, me.timed_out = pred, desc, timed, False
      self._switch(me)
      # Resumed: either the predicate holds or the timed wait was fired.
      timed_out = me.timed_out
      me.pred, me.desc, me.timed, me.timed_out = None, None, False, False
      return not timed_out
    finally:
      me.in_sched = False

  # -- driving ----------------------------------------------------------------
  def run(self, watchdog_s: float = 20.0):
    """Starts the schedule and waits for all controlled threads."""
    global ACTIVE
    ACTIVE = self
    import gc
    gc_was_enabled = gc.isenabled()
    gc.disable()
    try:
      if not self.threads:
        return self
      first = self._choose(list(self.threads), None, True)
      self.trace.append(first.idx)
      self.current = first
      first.sem.release()
      if not self.done_event.wait(watchdog_s):
        self._abort('watchdog', self._describe_blocked())
      # Let every OS thread unwind.
      deadline = _time.time() + 3.0
      leaked = []
      for t in self.threads:
        t.os_thread.join(max(0.0, deadline - _time.time()))
        if t.os_thread.is_alive():
          leaked.append(t.name)
      if leaked and self.status == 'ok':
        self.status = 'watchdog'
        self.witness = {'leaked_os_threads': leaked}
    finally:
      ACTIVE = None
      if gc_was_enabled:
        gc.enable()
    return self

  def trace_hash(self) -> str:
    h = hashlib.blake2b(digest_size=8)
    h.update(bytes(x % 256 for x in self.trace))
    return h.hexdigest()

  def thread_errors(self):
    return {t.name: t.exc for t in self.threads if t.exc is not None}


# -- statement-level yield injection ------------------------------------------


def _collect_codes(obj, out):
  import types
  code = getattr(obj, '__code__', None)
  if code is None and isinstance(obj, types.CodeType):
    code = obj
  if code is None:
    if isinstance(obj, (staticmethod, classmethod)):
      return _collect_codes(obj.__func__, out)
    if isinstance(obj, property):
      for f in (obj.fget, obj.fset):
        if f is not None:
          _collect_codes(f, out)
    return
  if code in out:
    return
  out.add(code)
  for c in code.co_consts:
    if isinstance(c, types.CodeType):
      _collect_codes(c, out)


def _line_cb(code, line):
  s = ACTIVE
  if s is None:
    return
  st = getattr(s.local, 'st', None)
  if st is None or st.in_sched or st.finished:
    return
  s.yield_point('line', f'{code.co_name}:{line}')


def install_line_yield(functions):
  """Enables pre-emption at statement boundaries of the given functions."""
  global _line_installed
  mon = sys.monitoring
  codes = set()
  for f in functions:
    _collect_codes(f, codes)
  if not _line_installed:
    try:
      mon.use_tool_id(_TOOL_ID, 'verif-sched')
    except ValueError:
      pass
    mon.register_callback(_TOOL_ID, mon.events.LINE, _line_cb)
    _line_installed = True
  for c in codes:
    if c not in _line_codes:
      mon.set_local_events(_TOOL_ID, c, mon.events.LINE)
      _line_codes.add(c)
  return len(codes)


def uninstall_line_yield():
  global _line_installed
  mon = sys.monitoring
  for c in list(_line_codes):
    try:
      mon.set_local_events(_TOOL_ID, c, 0)
    except Exception:  # pylint: disable=broad-exception-caught
      pass
  _line_codes.clear()
