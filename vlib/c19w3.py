"""C19, third widening (audit round 3, area trees / re-batching).

Two case families, both literal case dicts (exact replay):

`assign_w3` - assign(out, fn, input_keys, fn_batch_size=a, batch_size=b) whose inputs
are NOT just named flat columns: the default input_keys (SELF, the whole dict record
of 1-4 keys), tuples that mix Key.Literal constants (scalar / list / tuple / array) at
any position with columns, nested key paths (Key().n.x); optionally run a second time
under ignore_error=True with a following operator.

`skiperr` - ignore_error=True and ONE kind of failing element that has to cross a
re-batcher: a failing function call or a malformed record under assign(batch_size[,
fn_batch_size]); a function result the OUTPUT re-batcher cannot measure under
apply(batch_size) (+ following operator); 2-D array columns whose trailing shape
differs between input batches under apply(fn_batch_size) (np.concatenate fails inside
the INPUT re-batcher). Controls: the same failing elements without re-batching, and a
raising fn under apply(batch_size).

Oracles are plain Python over unique cell ids (value = M * column + global row).
"""

from __future__ import annotations

import itertools
import random

MECH_GUARD = 'assign-batch-size-guard-measures-first-input-not-rows'
MECH_SKIP_SHIFT = 'assign-batch-size-mismatch-error-skippable-shifts-pairing'
MECH_ENDS = 'ignored-error-through-rebatcher-ends-stream:'   # + <where>
WHERES = ('assign-path', 'output-rebatcher', 'input-concat')

NESTED_IDS = {'x': 5, 'y': 6}   # column ids of the nested columns record['n'][...]

RULE = (
    ' Third widening: (assign_w3) assign(out, fn, inputs, fn_batch_size=a, batch_size=b) '
    'with inputs = the default SELF (dict records of 1-4 keys), or a tuple of 1-3 items '
    'mixing flat columns, nested key paths (n.x) and Key.Literal constants (scalar, list, '
    'tuple, array) at any position, over all size sequences of length <= 3 over sizes '
    '0..3 x 15 input forms x 7 (a, b) settings (record width, container kind, number of '
    'assigned columns, ignore_error and the following operator rotate with the case '
    'index) plus random longer streams (35% cut to b rows: the aligned control class); '
    'every case runs WITHOUT ignore_error first (the twin), cases with ignore=True then '
    'run under ignore_error=True with a following operator (identity apply / select / '
    'none). (skiperr) ignore_error=True with ONE kind of failing element per case over '
    'all sequences of length <= 5 over {good record, failing record} with >= 1 failing '
    'one: where=assign-path: assign(b rows per record, a in {0,1,2,4}) with a fn that '
    'raises ValueError / TypeError for a poisoned row, or a malformed record (None / '
    'scalar column, columns of unequal length); where=output-rebatcher: apply(fn, '
    'fn_batch_size=a, batch_size=b) whose fn returns a scalar / None / columns of unequal '
    'length for the calls that contain a poisoned row, with and without a following '
    'operator; where=input-concat: apply(fn, input_keys=t, fn_batch_size=a>=2, '
    'batch_size=b) over 2-D array columns whose width differs between input batches; '
    'controls: the same without batch_size (assign) and a raising fn under '
    'apply(batch_size). Mechanism keys: by input class AND symptom family (see c19w3.py); '
    'every other failure gets a key of its own (assign-w3-*, skiperr-*).')

ASSUMPTIONS = [
    'assign_w3: records are dicts {k0..k(m-1)[, n: {x, y}]} of m = 1-4 flat columns '
    '(SELF inputs see exactly these keys: there is no extra by-stander key); the fn '
    'returns one assigned column per source column (value + OFFSET + sum of the literal '
    'values), a bare column for one assigned key (a 1-tuple when the column itself is a '
    'tuple), a tuple for two; SELF inputs only with fn_batch_size=0 (a dict record is not '
    'a column that the input re-batcher could merge); demanded: as for the assign '
    'sub-check (every input row emitted once, in order, all columns of an emitted record '
    'equally long, the assigned cells belong to the row they sit in); accepted instead: '
    'an error when the pipeline is built with batch_size, or - only when some input batch '
    'does not have the partition that re-batching to batch_size gives - an error while '
    'iterating whose text names the batch size / row mismatch; a pipeline whose input '
    'batches all have batch_size rows (the last one may be shorter) must run',
    'assign_w3 under ignore_error=True: run only when the twin without ignore_error '
    'satisfied the oracle (so a failure there is attributed to the pipeline itself, not '
    'to error skipping); aligned input: the same demand as without ignore_error; '
    'misaligned input: the size-mismatch error may be raised, or may be skipped with its '
    'rows - demanded is only that every EMITTED record is aligned (assigned cells = fn of '
    'the rows of that very record, equal column lengths) and that rows come out in '
    'order without repetition',
    'skiperr: filter() and sink() take no batch_size in the TreeTransform API, and a '
    'FilterFn / Sink built directly with batch_size would re-batch the predicate value / '
    'the None returned by write(), which is no meaningful configuration: of the '
    'operators that pair their outputs with their inputs only assign is generated; '
    'where=assign-path uses input batches of exactly batch_size rows (the size guard is '
    'the subject of assign_w3, not of this class)',
    'skiperr oracle (ignore_error=True): a raised error of any type is accepted; when '
    'the stream ends normally every emitted record must be aligned, rows in order and '
    'unique, and a well-formed row may be missing only if it shared an input batch with '
    'a failing row, or was passed to a function call that raised / returned the '
    'unusable result (the calls are observed, not modelled), or - malformed record '
    'with fn_batch_size=a - lies within a-1 rows of that record (could have shared its '
    'call), or - input-concat - lies in an input batch for which an input batch of '
    'another trailing shape exists with at most a-2 rows between the two (both can be '
    'in one re-batching buffer)',
]

REQUIRED = [
    'w3_assign_checks', 'w3_assign_self_checks', 'w3_assign_literal_first_checks',
    'w3_assign_literal_later_checks', 'w3_assign_nested_checks',
    'w3_assign_fit_checks', 'w3_assign_misfit_checks', 'w3_assign_fn_batch_checks',
    'w3_assign_ignore_runs', 'w3_assign_ignore_misfit_runs',
    'w3_skiperr_checks', 'w3_skiperr_assign_path_fncall_checks',
    'w3_skiperr_assign_path_badrec_checks', 'w3_skiperr_output_rebatcher_checks',
    'w3_skiperr_input_concat_checks', 'w3_skiperr_control_checks',
    'w3_skiperr_control_completed', 'w3_skiperr_with_follower_checks',
]


def _base():
  from vlib.props import C19   # pylint: disable=g-import-not-at-top
  return C19


# ---------------------------------------------------------------------------
# assign_w3
# ---------------------------------------------------------------------------


def _lit_sum(lit):
  if lit['type'] == 'scalar':
    return 7
  return sum(range(1, lit.get('len', 0) + 1))


def _w3_records(B, sizes, ncols, nested, kind):
  recs, pos = [], 0
  for sz in sizes:
    rec = {f'k{c}': B._mk_col(B._col_kind(kind, c), c, pos, sz) for c in range(ncols)}
    if nested:
      rec['n'] = {k: B._mk_col(B._col_kind(kind, cid), cid, pos, sz)
                  for k, cid in NESTED_IDS.items()}
    recs.append(rec)
    pos += sz
  return recs


def _form_of(inputs):
  if inputs == 'self':
    return 'self'
  return 'lit-first' if inputs[0][0] == 'lit' else 'col-first'


def _parse_w3_record(B, o, flat_keys, nested, out_src, shift):
  """Rows (global ids) of one emitted record or (None, symptom, detail)."""
  M = B.M
  want = set(flat_keys) | {f'o{j}' for j in range(len(out_src))}
  if nested:
    want.add('n')
  if not isinstance(o, dict) or set(o.keys()) != want:
    return None, 'output_keys', {'got': repr(o)[:200], 'want_keys': sorted(want)}
  try:
    cols = {(k, int(k[1:])): B._tolist(o[k]) for k in flat_keys}
    if nested:
      if not isinstance(o['n'], dict) or set(o['n'].keys()) != set(NESTED_IDS):
        return None, 'output_keys', {'got': repr(o['n'])[:200]}
      for k, cid in NESTED_IDS.items():
        cols[('n.' + k, cid)] = B._tolist(o['n'][k])
    outs = [B._tolist(o[f'o{j}']) for j in range(len(out_src))]
  except Exception as e:  # pylint: disable=broad-exception-caught
    return None, 'bad_output_container', {'error': repr(e)[:200], 'got': repr(o)[:200]}
  lens = {k[0]: len(v) for k, v in cols.items()}
  lens.update({f'o{j}': len(v) for j, v in enumerate(outs)})
  if len(set(lens.values())) > 1:
    return None, 'column_lengths_differ', {'lengths': lens}
  rows = []
  k0 = cols[('k0', 0)]
  for i in range(len(k0)):
    g = k0[i]
    ok = all(v[i] == M * cid + g for (_, cid), v in cols.items())
    ok = ok and all(v[i] == M * src + g + shift for src, v in zip(out_src, outs))
    if not ok:
      cells = {k[0]: v[i] for k, v in cols.items()}
      cells.update({f'o{j}': v[i] for j, v in enumerate(outs)})
      return None, 'rows_misaligned', {'row': i, 'cells': cells,
                                       'want_assigned': [M * s + g + shift for s in out_src]}
    rows.append(g)
  return rows, None, None


def check_assign_w3(ctx, cnt, case):
  """See the module docstring / ASSUMPTIONS. case: sizes, kind, ncols, nested,
  inputs ('self' | [['col', c] | ['nested', 'x'|'y'] | ['lit', {type, len}], ...]),
  nout (1|2), a, b, ignore (bool), follow (None | 'apply_id' | 'select')."""
  import numpy as np
  from ml_metrics._src.chainables import transform
  from ml_metrics._src.chainables import tree as tl
  B = _base()
  M, OFFSET = B.M, B.OFFSET
  sizes, kind, ncols = list(case['sizes']), case['kind'], case['ncols']
  nested, inputs = bool(case.get('nested')), case['inputs']
  a, b, ignore, follow = case['a'], case['b'], bool(case.get('ignore')), case.get('follow')
  n = sum(sizes)
  misfit = bool(b) and sizes != B._chunks(n, b)
  cls = 'misfit' if misfit else ('fit' if b else 'nobatch')
  form = _form_of(inputs)
  cls_guard = bool(b) and form in ('self', 'lit-first')
  inputs_key = 'self' if inputs == 'self' else tuple(
      (it[0], tuple(sorted(it[1].items())) if isinstance(it[1], dict) else it[1])
      for it in inputs)
  ctx.case(('assign_w3', tuple(sizes), kind, ncols, nested, inputs_key, case['nout'], a, b,
            ignore, follow), len(sizes) >= 2 and bool(b))
  cnt.add('w3_assign_checks')
  cnt.add(f'w3_assign_{cls}_checks')
  if form == 'self':
    cnt.add('w3_assign_self_checks')
  else:
    if form == 'lit-first':
      cnt.add('w3_assign_literal_first_checks')
    elif any(it[0] == 'lit' for it in inputs):
      cnt.add('w3_assign_literal_later_checks')
    if any(it[0] == 'nested' for it in inputs):
      cnt.add('w3_assign_nested_checks')
  if a:
    cnt.add('w3_assign_fn_batch_checks')

  flat_keys = [f'k{c}' for c in range(ncols)]
  # Source columns of the assigned columns and the literal constants.
  if inputs == 'self':
    src_ids = list(range(ncols))
    lits = []
  else:
    src_ids = [it[1] if it[0] == 'col' else NESTED_IDS[it[1]]
               for it in inputs if it[0] != 'lit']
    lits = [it[1] for it in inputs if it[0] == 'lit']
  nout = max(1, min(case['nout'], len(src_ids)))
  out_src = src_ids[:nout]
  shift = OFFSET + sum(_lit_sum(l) for l in lits)
  lit_values = [B._mk_literal(l) for l in lits]
  foreign = []

  def pack(outs):
    if nout == 1 and type(outs[0]) is not tuple:
      return outs[0]
    return tuple(outs)

  if inputs == 'self':
    def fn(d):
      return pack([B._shift(d[f'k{c}'], OFFSET) for c in out_src])
    kwargs = {}
  else:
    def fn(*args):
      cols = [x for x, it in zip(args, inputs) if it[0] != 'lit']
      got = [x for x, it in zip(args, inputs) if it[0] == 'lit']
      s = OFFSET
      for w, v in zip(got, lit_values):
        if B._lit_desc(w) != B._lit_desc(v):
          foreign.append(B._lit_desc(w))
        s += int(np.sum(w))
      return pack([B._shift(c, s) for c in cols[:nout]])
    keys, li = [], 0
    for it in inputs:
      if it[0] == 'col':
        keys.append(f'k{it[1]}')
      elif it[0] == 'nested':
        keys.append(getattr(tl.Key().n, it[1]))
      else:
        keys.append(tl.Key.Literal(lit_values[li]))
        li += 1
    kwargs = {'input_keys': keys[0] if (len(keys) == 1 and case.get('scalar_keys'))
                            else tuple(keys)}
  out_keys = 'o0' if nout == 1 else ('o0', 'o1')
  all_keys = tuple(flat_keys) + (('n',) if nested else ()) + tuple(
      f'o{j}' for j in range(nout))

  def build():
    t = transform.TreeTransform().assign(out_keys, fn=fn, fn_batch_size=a, batch_size=b,
                                         **kwargs)
    if follow == 'apply_id':
      t = t.apply(fn=lambda x: x)
    elif follow == 'select':
      t = t.select(all_keys)
    return t.make()

  def report(run, symptom, detail, mech):
    B._violation(ctx, 'assign_w3', case,
                 dict(detail, symptom=symptom, input_class=cls, input_form=form, run=run),
                 mech)

  def twin_mech(symptom):
    family = ('fit_rejected_size_mismatch', 'raised_TypeError_non_sequence',
              'column_lengths_differ', 'rows_misaligned', 'rows_not_conserved',
              'raised_unrelated_IndexError')
    if cls_guard and symptom in family:
      return MECH_GUARD
    return f'assign-w3-{form}-{cls}:{symptom}'

  def parse(out):
    rows = []
    for j, o in enumerate(out):
      r, symptom, detail = _parse_w3_record(B, o, flat_keys, nested, out_src, shift)
      if r is None:
        return None, symptom, dict(detail, record=j, emitted=repr(out)[:500])
      rows.extend(r)
    return rows, None, None

  # ---- the twin: without ignore_error --------------------------------------
  try:
    runner = build()
  except Exception as e:  # pylint: disable=broad-exception-caught
    if b and isinstance(e, (ValueError, TypeError)):
      cnt.add('w3_assign_rejected_when_built')
      return
    report('plain', 'build_raised', {'error': B._error_chain(e)[:3]},
           twin_mech('build_raised'))
    return
  # Records are collected one by one: what was emitted before an error counts too.
  out, err = _collect(runner.iterate(iter(_w3_records(B, sizes, ncols, nested, kind))))
  if foreign:
    report('plain', 'fn_received_foreign_literal', {'received': foreign[:4]},
           f'assign-w3-{form}-{cls}:fn_received_foreign_literal')
    return
  cnt.add('alignment_checks')
  rows, symptom, detail = parse(out)
  if rows is None:
    if err is not None:
      detail = dict(detail, then_raised=B._error_chain(err)[:2])
    report('plain', symptom, detail, twin_mech(symptom))
    return
  if err is not None:
    if B._names_size_mismatch(err):
      if not misfit:
        report('plain', 'fit_rejected_size_mismatch', {'error': B._error_chain(err)[:3]},
               twin_mech('fit_rejected_size_mismatch'))
        return
      cnt.add('w3_assign_size_mismatch_reported')
    else:
      if isinstance(err, IndexError) and 'No element left' in str(err):
        symptom = 'raised_unrelated_IndexError'
      elif isinstance(err, TypeError) and 'Non sequence type' in str(err):
        symptom = 'raised_TypeError_non_sequence'
      else:
        symptom = f'raised_{type(err).__name__}'
      report('plain', symptom, {'error': B._error_chain(err)[:3]}, twin_mech(symptom))
      return
  elif rows != list(range(n)):
    report('plain', 'rows_not_conserved',
           {'emitted_rows': rows[:40], 'input_rows': n,
            'lost': [g for g in range(n) if g not in rows][:20],
            'emitted': repr(out)[:500]}, twin_mech('rows_not_conserved'))
    return
  if not ignore:
    return

  # ---- the same pipeline under ignore_error=True ----------------------------
  cnt.add('w3_assign_ignore_runs')
  if misfit:
    cnt.add('w3_assign_ignore_misfit_runs')
  if follow:
    cnt.add('w3_assign_ignore_follower_runs')

  def ignore_mech(symptom):
    # Input class: the size-mismatch error can arise (misfit) and is skippable;
    # symptom family: a misaligned record is emitted, or the pairing went on
    # until the recital of the inputs ran dry (its unrelated IndexError).
    family = ('rows_misaligned', 'column_lengths_differ', 'raised_unrelated_IndexError')
    if misfit and symptom in family:
      return MECH_SKIP_SHIFT
    return f'assign-w3-ignore-{form}-{cls}:{symptom}'

  out, err = _collect(build().iterate(iter(_w3_records(B, sizes, ncols, nested, kind)),
                                      ignore_error=True))
  cnt.add('alignment_checks')
  rows, symptom, detail = parse(out)
  if rows is None:
    if err is not None:
      detail = dict(detail, then_raised=B._error_chain(err)[:2])
    report('ignore_error', symptom, detail, ignore_mech(symptom))
    return
  if err is not None:
    if misfit and B._names_size_mismatch(err):
      cnt.add('w3_assign_ignore_size_mismatch_raised')
      return
    if isinstance(err, IndexError) and 'No element left' in str(err):
      symptom = 'raised_unrelated_IndexError'
    else:
      symptom = f'raised_{type(err).__name__}'
    report('ignore_error', symptom, {'error': B._error_chain(err)[:3],
                                     'emitted_rows': rows[:40]}, ignore_mech(symptom))
    return
  if misfit:
    if any(x >= y for x, y in zip(rows, rows[1:])):
      report('ignore_error', 'rows_out_of_order', {'emitted_rows': rows[:40]},
             ignore_mech('rows_out_of_order'))
  elif rows != list(range(n)):
    report('ignore_error', 'rows_not_conserved',
           {'emitted_rows': rows[:40], 'input_rows': n, 'emitted': repr(out)[:500]},
           ignore_mech('rows_not_conserved'))


def _collect(iterator):
  """(records emitted, the exception that ended the iteration or None)."""
  out = []
  try:
    for o in iterator:
      out.append(o)
  except Exception as e:  # pylint: disable=broad-exception-caught
    return out, e
  return out, None


_L_SCALAR = {'type': 'scalar'}
_L_LIST2 = {'type': 'list', 'len': 2}
_L_LIST3 = {'type': 'list', 'len': 3}
_L_TUPLE2 = {'type': 'tuple', 'len': 2}
_L_ARRAY2 = {'type': 'array', 'len': 2}
# (inputs, minimal number of flat columns, needs the nested column)
_FORMS = (
    ('self', 1, False), ('self', 1, True),
    ([['col', 0]], 1, False), ([['nested', 'x']], 1, True),
    ([['col', 0], ['col', 1]], 2, False), ([['col', 1], ['nested', 'y']], 2, True),
    ([['lit', _L_SCALAR], ['col', 0]], 1, False),
    ([['lit', _L_LIST2], ['col', 0]], 1, False),
    ([['lit', _L_LIST3], ['col', 0], ['col', 1]], 2, False),
    ([['lit', _L_ARRAY2], ['nested', 'x']], 1, True),
    ([['lit', _L_TUPLE2], ['col', 0]], 1, False),
    ([['col', 0], ['lit', _L_SCALAR]], 1, False),
    ([['col', 0], ['lit', _L_LIST2]], 1, False),
    ([['col', 0], ['lit', _L_SCALAR], ['col', 1]], 2, False),
    ([['nested', 'x'], ['lit', _L_LIST3]], 1, True),
)
_W3_AB = ((0, 0), (0, 1), (0, 2), (0, 3), (2, 2), (3, 2), (1, 3))
_FOLLOW = (None, 'apply_id', 'select')


def _w3_case(n, sizes, form, a, b, ignore=None, follow=None):
  B = _base()
  inputs, min_cols, nested = form
  if inputs == 'self':
    a = 0
    hi = 3 if nested else 4
  else:
    hi = 3
  ncols = min_cols + (n // 3) % (hi - min_cols + 1)
  if ignore is None:
    ignore = n % 2 == 0
  if follow is None and ignore:
    follow = _FOLLOW[(n // 2) % 3]
  return {'api': 'assign_w3', 'sizes': list(sizes), 'kind': B.KINDS[n % 3],
          'ncols': ncols, 'nested': nested, 'inputs': inputs, 'nout': 1 + (n // 5) % 2,
          'a': a, 'b': b, 'ignore': bool(ignore), 'follow': follow if ignore else None,
          'scalar_keys': n % 4 == 0}


def _run_w3_assign_sweep(ctx, cnt, spec):
  B = _base()
  n = 0
  for sizes in B._seqs(spec['prefix'], spec['smax'], spec['maxlen']):
    for form in _FORMS:
      for a, b in _W3_AB:
        n += 1
        check_assign_w3(ctx, cnt, _w3_case(n, sizes, form, a, b))


def _run_w3_assign_random(ctx, cnt, spec):
  B = _base()
  rng = random.Random(spec['rseed'] * 7109713 + spec['index'] * 2750161 + 37)
  big = spec['tier'] == 'thorough'
  for i in range(spec['count']):
    b = rng.choice([1, 2, 2, 3, 3, 4, 5, 0])
    if b and rng.random() < 0.35:
      sizes = B._chunks(rng.randint(0, 30), b)        # aligned control class
    else:
      length = rng.randint(0, 12 if big else 7)
      smax = rng.choice([3, 4, 6])
      sizes = [0 if rng.random() < 0.08 else rng.randint(1, smax) for _ in range(length)]
    form = rng.choice(_FORMS)
    if rng.random() < 0.3 and form[0] != 'self':
      # a random tuple of 1-3 items with a literal at a random position
      items = [['col', 0]] + rng.sample([['col', 1], ['nested', 'x'], ['nested', 'y']],
                                        rng.randint(0, 1))
      lt = rng.choice(['scalar', 'list', 'tuple', 'array'])
      lit = {'type': lt} if lt == 'scalar' else {'type': lt, 'len': rng.randint(0, 4)}
      items.insert(rng.randint(0, len(items)), ['lit', lit])
      form = (items, 2, any(it[0] == 'nested' for it in items))
    a = rng.choice([0, 0, 1, 2, 3, 5]) if b else 0
    case = _w3_case(rng.randrange(1000), sizes, form, a, b,
                    ignore=rng.random() < 0.6, follow=rng.choice(_FOLLOW))
    case['kind'] = rng.choice(['list', 'tuple', 'array', 'mixed'])
    del i
    check_assign_w3(ctx, cnt, case)


# ---------------------------------------------------------------------------
# skiperr
# ---------------------------------------------------------------------------

_EXC = {'ValueError': ValueError, 'TypeError': TypeError}
BAD_OUT = ('scalar', 'none', 'unequal')
BAD_RECS = ('none_column', 'scalar_column', 'unequal_columns')


def check_skiperr(ctx, cnt, case):
  """ignore_error=True, one kind of failing element crossing a re-batcher.

  case: where in {'assign-path', 'output-rebatcher', 'input-concat', 'apply-call'},
  recs (list; int = good record of that many rows, str = malformed record of that kind,
  [rows, width] = 2-D array record for input-concat), poison (global row ids), fail
  ('ValueError' | 'TypeError': the fn raises it for a call containing a poisoned row;
  'scalar' | 'none' | 'unequal': the fn returns that for such a call), cols, kind,
  badcol, a, b, follow.
  """
  import numpy as np
  from ml_metrics._src.chainables import transform
  B = _base()
  M, OFFSET, ZZ = B.M, B.OFFSET, B.ZZ
  where, recs, cols, kind = case['where'], case['recs'], case['cols'], case.get('kind', 'list')
  a, b, follow = case['a'], case['b'], case.get('follow')
  poison = set(case.get('poison', ()))
  fail = case.get('fail')
  ctx.case(('skiperr', where, repr(recs), tuple(sorted(poison)), fail, cols, kind,
            case.get('badcol', 0), a, b, follow), True)
  control = where == 'apply-call' or not b
  cnt.add('w3_skiperr_checks')
  if control:
    cnt.add('w3_skiperr_control_checks')
  elif where == 'assign-path':
    cnt.add('w3_skiperr_assign_path_fncall_checks' if poison
            else 'w3_skiperr_assign_path_badrec_checks')
  else:
    cnt.add(f'w3_skiperr_{where.replace("-", "_")}_checks')
  if follow:
    cnt.add('w3_skiperr_with_follower_checks')

  in_keys = tuple(f'k{c}' for c in range(cols))
  out_keys = tuple(f'o{c}' for c in range(cols))
  # ---- the stream ------------------------------------------------------------
  stream, batches, bad_pos, pos, nbad = [], [], [], 0, 0
  for r in recs:
    if isinstance(r, str):
      stream.append(B._bad_record(r, cols, case.get('badcol', 0), nbad))
      bad_pos.append(pos)
      nbad += 1
    elif isinstance(r, list):
      rows, width = r
      g = np.arange(pos, pos + rows, dtype=np.int64)
      t = np.stack([g] + [-g - 1 - w for w in range(width - 1)], axis=1)
      stream.append({'t': t, 'zz': B._mk_col('list', ZZ, pos, rows)})
      batches.append((pos, rows, width))
      pos += rows
    else:
      cells = tuple(B._mk_col(B._col_kind(kind, c), c, pos, r) for c in range(cols))
      stream.append(dict(zip(in_keys, cells), zz=B._mk_col('list', ZZ, pos, r)))
      batches.append((pos, r, None))
      pos += r
  n = pos
  calls = []

  def strict(columns):
    lens = set()
    for c in columns:
      if isinstance(c, np.ndarray):
        if c.ndim == 0:
          raise TypeError('column is not a sequence')
      elif type(c) not in (list, tuple):
        raise TypeError(f'column is not a sequence: {type(c).__name__}')
      lens.add(len(c))
    if len(lens) > 1:
      raise ValueError(f'columns of different lengths: {sorted(lens)}')

  def pack(outs):
    if len(outs) == 1 and type(outs[0]) is not tuple:
      return outs[0]
    return tuple(outs)

  def fn(*columns):
    try:
      strict(columns)
    except Exception:
      calls.append(([], True))
      raise
    ids = [int(v) for v in B._tolist(columns[0])]
    failed = any(g in poison for g in ids)
    calls.append((ids, failed))
    outs = [B._add_offset(c) for c in columns]
    if failed:
      if fail in _EXC:
        raise _EXC[fail]('poisoned row')
      if fail == 'scalar':
        outs[-1] = 7
      elif fail == 'none':
        outs[-1] = None
      elif fail == 'unequal':
        outs[-1] = outs[-1][:-1]
      return tuple(outs) if len(outs) > 1 else outs[0]
    return pack(outs)

  def fn_concat(t):
    ids = [int(r[0]) for r in t]
    calls.append((ids, False))
    return [g + OFFSET for g in ids]

  ik = in_keys if (cols > 1 or not case.get('scalar_keys')) else in_keys[0]
  ok = out_keys if (cols > 1 or not case.get('scalar_keys')) else out_keys[0]
  if where == 'assign-path':
    t = transform.TreeTransform().assign(ok, fn=fn, input_keys=ik, fn_batch_size=a,
                                         batch_size=b)
    res_keys = in_keys + out_keys + ('zz',)
  elif where == 'input-concat':
    t = transform.TreeTransform().apply(fn=fn_concat, input_keys='t', output_keys='o0',
                                        fn_batch_size=a, batch_size=b)
    res_keys = ('o0',)
  else:
    t = transform.TreeTransform().apply(fn=fn, input_keys=ik, output_keys=ok,
                                        fn_batch_size=a, batch_size=b)
    res_keys = out_keys
  if follow == 'apply_id':
    t = t.apply(fn=lambda x: x)
  elif follow == 'select':
    t = t.select(res_keys)
  has_failing = bool(poison) or bool(bad_pos) or len({w for _, _, w in batches}) > 1
  in_class = bool(b) and has_failing and where in WHERES
  label = where if b else where + '-nobatch'

  def report(symptom, detail, audited=False):
    mech = (MECH_ENDS + where) if (in_class and audited) else f'skiperr-{label}:{symptom}'
    B._violation(ctx, 'skiperr', case, dict(detail, symptom=symptom, where=where), mech)

  try:
    iterator = t.make().iterate(iter(stream), ignore_error=True)
  except Exception as e:  # pylint: disable=broad-exception-caught
    report('build_raised', {'error': B._error_chain(e)[:3]})
    return
  out, err = _collect(iterator)
  if err is not None:
    # Accepted; what was emitted before the error must still be aligned.
    cnt.add('w3_skiperr_raised')
    ctx.observe('skiperr_raised:' + label, B._error_chain(err)[0][:160])
  else:
    cnt.add('w3_skiperr_completed')
    if control:
      cnt.add('w3_skiperr_control_completed')
  # ---- emitted rows ------------------------------------------------------------
  rows = []
  for j, o in enumerate(out):
    if not isinstance(o, dict) or sorted(o.keys()) != sorted(res_keys):
      report('output_keys', {'record': j, 'got': repr(o)[:200], 'want_keys': list(res_keys)})
      return
    try:
      colsl = {k: B._tolist(o[k]) for k in res_keys}
    except Exception as e:  # pylint: disable=broad-exception-caught
      report('bad_output_container', {'record': j, 'error': repr(e)[:200],
                                      'got': repr(o)[:200]})
      return
    if len({len(v) for v in colsl.values()}) > 1:
      report('column_lengths_differ', {'record': j,
                                       'lengths': {k: len(v) for k, v in colsl.items()}})
      return
    first = colsl[res_keys[0]]
    for i in range(len(first)):
      if where == 'assign-path':
        g = colsl['zz'][i] - M * ZZ
        okay = (all(colsl[f'k{c}'][i] == M * c + g for c in range(cols)) and
                all(colsl[f'o{c}'][i] == M * c + g + OFFSET for c in range(cols)))
      else:
        g = colsl['o0'][i] - OFFSET
        okay = all(colsl[k][i] == M * c + g + OFFSET for c, k in enumerate(res_keys))
      if not okay or not 0 <= g < n:
        report('rows_misaligned', {'record': j, 'row': i,
                                   'cells': {k: v[i] for k, v in colsl.items()},
                                   'emitted': repr(out)[:400]})
        return
      rows.append(g)
  cnt.add('alignment_checks')
  if any(x >= y for x, y in zip(rows, rows[1:])):
    report('rows_out_of_order', {'emitted_rows': rows[:40]})
    return
  if err is not None:
    return
  # ---- which rows may be missing -------------------------------------------------
  excused = set()
  for start, size, _ in batches:
    if any(start <= g < start + size for g in poison):
      excused.update(range(start, start + size))
  for ids, failed in calls:
    if failed:
      excused.update(ids)
  if a:
    for p in bad_pos:
      excused.update(range(p - a + 1, p + a - 1))
  if where == 'input-concat' and a >= 2:
    for i, (s1, z1, w1) in enumerate(batches):
      for j, (s2, z2, w2) in enumerate(batches):
        if w1 != w2 and i < j and s2 - (s1 + z1) <= a - 2:
          excused.update(range(s1, s1 + z1))
          excused.update(range(s2, s2 + z2))
  emitted = set(rows)
  lost = [g for g in range(n) if g not in emitted and g not in excused]
  if lost:
    called = set(itertools.chain.from_iterable(ids for ids, _ in calls))
    report('good_rows_silently_lost',
           {'lost': lost[:20], 'lost_count': len(lost), 'input_rows': n,
            'emitted_rows': rows[:40], 'excusable_rows': sorted(excused)[:40],
            'lost_rows_never_passed_to_fn': [g for g in lost if g not in called][:20],
            'stream_ended_normally': True}, True)


_SKIP_ASSIGN_AB = ((0, 0), (0, 2), (2, 2), (1, 2), (4, 2), (0, 3), (3, 3))
_SKIP_OUT_AB = ((0, 2), (0, 3), (2, 2), (3, 2), (2, 3))
_SKIP_CONCAT_AB = ((2, 2), (3, 2), (4, 4), (4, 1))


def _gp_seqs(maxlen):
  for length in range(1, maxlen + 1):
    for seq in itertools.product('GP', repeat=length):
      if 'P' in seq:
        yield seq


def _run_skiperr_sweep(ctx, cnt, spec):
  B = _base()
  part, n = spec['part'], 0
  for seq in _gp_seqs(spec['maxlen']):
    if part == 'assign':
      for fail in ('ValueError', 'TypeError') + BAD_RECS:
        for a, b in _SKIP_ASSIGN_AB:
          n += 1
          cols = 2 if fail == 'unequal_columns' else 1 + n % 2
          size = b or 1 + n % 3
          recs, poison, pos = [], [], 0
          for s in seq:
            if s == 'P' and fail in BAD_RECS:
              recs.append(fail)
              continue
            if s == 'P':
              poison.append(pos + (n + pos) % size)
            recs.append(size)
            pos += size
          check_skiperr(ctx, cnt, {
              'api': 'skiperr', 'where': 'assign-path', 'recs': recs, 'poison': poison,
              'fail': fail if fail in _EXC else None, 'cols': cols, 'kind': B.KINDS[n % 3],
              'badcol': (n // 2) % cols, 'a': a, 'b': b, 'follow': _FOLLOW[n % 3],
              'scalar_keys': n % 4 == 0})
    elif part == 'apply':
      for fail in BAD_OUT + ('ValueError', 'TypeError'):
        for a, b in _SKIP_OUT_AB:
          for follow in _FOLLOW:
            n += 1
            cols = 2 if fail == 'unequal' else 1 + n % 2
            recs, poison, pos = [], [], 0
            for k, s in enumerate(seq):
              size = 1 + (n + k) % 3
              if s == 'P':
                poison.append(pos + (n + k) % size)
              recs.append(size)
              pos += size
            check_skiperr(ctx, cnt, {
                'api': 'skiperr',
                'where': 'apply-call' if fail in _EXC else 'output-rebatcher',
                'recs': recs, 'poison': poison, 'fail': fail, 'cols': cols,
                'kind': B.KINDS[n % 3], 'a': a, 'b': b, 'follow': follow,
                'scalar_keys': n % 4 == 0})
    else:
      for sizing in (1, 2, 0):
        for a, b in _SKIP_CONCAT_AB:
          for follow in (None, 'apply_id'):
            n += 1
            recs = [[sizing or 1 + (n + k) % 3, 4 if s == 'P' else 3]
                    for k, s in enumerate(seq)]
            check_skiperr(ctx, cnt, {
                'api': 'skiperr', 'where': 'input-concat', 'recs': recs, 'cols': 1,
                'a': a, 'b': b, 'follow': follow})


def _run_skiperr_random(ctx, cnt, spec):
  B = _base()
  rng = random.Random(spec['rseed'] * 49979693 + spec['index'] * 86028157 + 41)
  for _ in range(spec['count']):
    where = rng.choice(['assign-path', 'assign-path', 'output-rebatcher', 'input-concat',
                        'apply-call'])
    length = rng.randint(1, 14)
    p_bad = rng.choice([0.08, 0.2, 0.4])
    follow = rng.choice(_FOLLOW)
    case = {'api': 'skiperr', 'where': where, 'follow': follow,
            'kind': rng.choice(['list', 'tuple', 'array', 'mixed']),
            'scalar_keys': rng.random() < 0.5}
    if where == 'input-concat':
      a = rng.choice([2, 3, 4, 6])
      case.update(recs=[[rng.randint(1, 4), 4 if rng.random() < p_bad else 3]
                        for _ in range(length)], cols=1, a=a,
                  b=rng.choice([1, 2, 3, 4, 7]))
    elif where == 'assign-path':
      b = rng.choice([0, 1, 2, 3, 4])
      a = rng.choice([0, 0, 1, 2, 3, 4, 6]) if b else 0
      cols = rng.randint(1, 2)
      mode = rng.choice(['fncall', 'badrec'])
      kinds = [k for k in BAD_RECS if cols == 2 or k != 'unequal_columns']
      recs, poison, pos = [], [], 0
      for _ in range(length):
        size = b or rng.randint(1, 4)
        if rng.random() < p_bad:
          if mode == 'badrec':
            recs.append(rng.choice(kinds))
            continue
          poison.append(pos + rng.randrange(size))
        recs.append(size)
        pos += size
      if b and pos and rng.random() < 0.5:
        recs.append(rng.randint(1, b))             # a shorter last batch
      case.update(recs=recs, poison=poison, cols=cols, badcol=rng.randrange(cols), a=a, b=b,
                  fail=rng.choice(['ValueError', 'TypeError']) if mode == 'fncall' else None)
    else:
      cols = rng.randint(1, 2)
      fails = list(_EXC) if where == 'apply-call' else [
          f for f in BAD_OUT if cols == 2 or f != 'unequal']
      recs, poison, pos = [], [], 0
      for _ in range(length):
        size = rng.randint(1, 4)
        if rng.random() < p_bad:
          poison.append(pos + rng.randrange(size))
        recs.append(size)
        pos += size
      a = rng.choice([0, 0, 1, 2, 3, 5])
      case.update(recs=recs, poison=poison, cols=cols, a=a, b=rng.choice([1, 2, 3, 4, 7]),
                  fail=rng.choice(fails))
    check_skiperr(ctx, cnt, case)


# ---------------------------------------------------------------------------
# plan / dispatch (called from vlib/props/C19.py)
# ---------------------------------------------------------------------------


def plan(tier, seed):
  thorough = tier == 'thorough'
  smax, maxlen = (4, 4) if thorough else (3, 3)
  specs = [{'mode': 'w3_assign', 'prefix': None, 'smax': smax, 'maxlen': maxlen}]
  for p in range(smax + 1):
    specs.append({'mode': 'w3_assign', 'prefix': [p], 'smax': smax, 'maxlen': maxlen})
  for part in ('assign', 'apply', 'concat'):
    specs.append({'mode': 'w3_skiperr', 'part': part, 'maxlen': 6 if thorough else 5})
  for i in range(8 if thorough else 1):
    specs.append({'mode': 'w3_assign_random', 'rseed': seed, 'index': i,
                  'count': 6000 if thorough else 1200})
    specs.append({'mode': 'w3_skiperr_random', 'rseed': seed, 'index': i,
                  'count': 6000 if thorough else 1200})
  return specs


def run_chunk(ctx, cnt, spec):
  mode = spec['mode']
  if mode == 'w3_assign':
    _run_w3_assign_sweep(ctx, cnt, spec)
  elif mode == 'w3_assign_random':
    _run_w3_assign_random(ctx, cnt, spec)
  elif mode == 'w3_skiperr':
    _run_skiperr_sweep(ctx, cnt, spec)
  elif mode == 'w3_skiperr_random':
    _run_skiperr_random(ctx, cnt, spec)
  else:
    raise ValueError(mode)


def run_case(ctx, cnt, case):
  if case['api'] == 'assign_w3':
    check_assign_w3(ctx, cnt, case)
  elif case['api'] == 'skiperr':
    check_skiperr(ctx, cnt, case)
  else:
    raise ValueError(case['api'])
