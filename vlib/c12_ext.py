"""C12 scenario families added after the independent pipeline audit.

Three families complement the scenario grid of `vlib/props/C12.py`:

srcfirst  failing rows of a random-access data source (SequenceDataSource over
          an object whose __getitem__ raises for some indices) in front of
          EVERY kind of first operator (apply / select / assign / filter / sink
          / batch) and in front of re-batching first operators (fn_batch_size /
          batch_size on apply, select, assign); the rows are skipped by the
          source itself (ignore_error of the source), by iterate(ignore_error=
          True), by both, or by nobody (the error has to surface).  The case
          format is the one of C12.check_case, which also judges it.
release   one to three chained named stages with num_threads 0..3 each; an
          aggregate whose update_state raises at a chosen call, or an operator
          of some stage that raises for chosen units (surfacing, or skipped).
          After the run has ended (error caught or stream exhausted) a bounded
          wait follows and no thread carrying one of the stage names may be
          alive; no maybe_stop() is called before the verdict.
tsink     failure-free chains holding a sink under num_threads 0..3 with slow
          records: every record is written exactly once, close() is called
          exactly once, after the last write has returned.

fresult   the failure class "the function returns normally but its RESULT is
          unusable by the operator": a filter predicate whose result cannot be
          truth-tested for chosen units, the filter at every position of the
          chain (only / first / middle / last operator).  Judged by
          C12.check_case with the oracle of a raising predicate.
restore   a chain with a sink, single-threaded, checkpointed after a random
          number of deliveries, restored, the original iterator dropped (del +
          gc.collect()), the restored one run to the end: every record is
          delivered and written exactly once over original + restored, the
          sink is closed exactly once and never written after close.

Everything random comes from random.Random(f(seed, index)); a case dict is
self-contained (literal chain, records, fault) and is re-executed by
`run_case`.
"""

from __future__ import annotations

import copy
import itertools
import random
import sys
import threading
import time

FIRST_KINDS = ['apply', 'select', 'assign', 'filter', 'sink', 'batch',
               'apply_fbs', 'apply_bs', 'select_bs', 'assign_fbs', 'assign_bs']
# who skips the failing source rows
SRC_MODES = ['iterate', 'own', 'both', 'none']
RELEASE_WAIT_S = 4.0          # bounded wait for helper threads after the run ended
RUN_HANG_S = 20.0             # watchdog of the main run (expiry = inconclusive)
NEXT_HANG_S = 5.0
_UID = itertools.count(1)

M_REBATCH = 'source-error-with-input-rebatching-truncates-stream'
M_INDEXERROR = 'source-error-first-operator-assign-filter-sink-indexerror'
M_AGG = 'threads-not-released-after-aggregate-error'
M_DOWNSTREAM = 'threads-not-released-after-downstream-stage-error'
M_SINK = 'threaded-sink-closed-per-worker-thread'
M_TRUTH = 'filter-truth-test-outside-error-skipping'
M_ABANDONED = 'abandoned-pre-restore-iterator-closes-shared-sink'
FRESULT_POS = ['only', 'first', 'middle', 'last']
FRESULT_FORMS = ['array2', 'boolraises']


CAPPED = (M_TRUTH, M_ABANDONED)
KEEP_PER_CHUNK = 4


def keep_witness(ctx, kind, mech):
  """Every hit of a characterised mechanism is counted ('viol:<mechanism>'); only the
  first few per chunk and kind are kept as witnesses, so that they cannot crowd out
  another violation class."""
  if mech not in CAPPED:
    return True
  name = f'kept:{kind}:{mech}'
  ctx.count(name)
  return ctx.counters[name] <= KEEP_PER_CHUNK


def plan(tier, seed):
  """Chunk specs of the families (the sleeping `release` chunks first)."""
  if tier == 'quick':
    rel, snk, src, fres, rst = (16, 16), (8, 12), (12, 11), (12, 12), (4, 60)
  else:
    rel, snk, src, fres, rst = (32, 64), (16, 60), (32, 33), (24, 24), (8, 400)
  # a small mixed chunk first: the first replays written cover every family
  specs = [{'mode': 'showcase', 'rseed': seed}]
  for c in range(rel[0]):
    specs.append({'mode': 'release', 'rseed': seed, 'lo': c * rel[1],
                  'hi': (c + 1) * rel[1]})
  for c in range(src[0]):
    specs.append({'mode': 'srcfirst', 'rseed': seed, 'lo': c * src[1],
                  'hi': (c + 1) * src[1]})
  for c in range(snk[0]):
    specs.append({'mode': 'tsink', 'rseed': seed, 'lo': c * snk[1],
                  'hi': (c + 1) * snk[1]})
  for c in range(fres[0]):
    specs.append({'mode': 'fresult', 'rseed': seed, 'lo': c * fres[1],
                  'hi': (c + 1) * fres[1]})
  for c in range(rst[0]):
    specs.append({'mode': 'restore', 'rseed': seed, 'lo': c * rst[1],
                  'hi': (c + 1) * rst[1]})
  return specs


def run_chunk(ctx, spec):
  mode = spec['mode']
  if mode == 'srcfirst':
    for sidx in range(spec['lo'], spec['hi']):
      run_srcfirst_scenario(ctx, spec['rseed'], sidx, spec['tier'])
  elif mode == 'release':
    cases = []
    for idx in range(spec['lo'], spec['hi']):
      case = gen_release(spec['rseed'], idx, spec['tier'])
      if case is None:
        ctx.count('release_not_generated')
      else:
        cases.append(case)
    run_release_batch(ctx, cases)
  elif mode == 'tsink':
    for idx in range(spec['lo'], spec['hi']):
      case = gen_tsink(spec['rseed'], idx, spec['tier'])
      if case is None:
        ctx.count('tsink_not_generated')
      else:
        check_tsink(ctx, case)
  elif mode == 'fresult':
    for sidx in range(spec['lo'], spec['hi']):
      run_fresult_scenario(ctx, spec['rseed'], sidx, spec['tier'])
  elif mode == 'restore':
    for idx in range(spec['lo'], spec['hi']):
      case = gen_restore(spec['rseed'], idx, spec['tier'])
      if case is None:
        ctx.count('restore_not_generated')
      else:
        check_restore(ctx, case)
  elif mode == 'showcase':
    # indices far outside the ranges of the other chunks (no case is run twice)
    far = len(FIRST_KINDS) * len(SRC_MODES) * 3 * 1000  # first kind / mode / threads kept
    for first in ('apply_fbs', 'sink'):                 # skipped by iterate(), no threads
      run_srcfirst_scenario(ctx, spec['rseed'], far + FIRST_KINDS.index(first),
                            spec['tier'], max_cases=1)
    case = gen_tsink(spec['rseed'], 1000002, spec['tier'])   # num_threads=2
    if case is not None:
      check_tsink(ctx, case)
    cases = [gen_release(spec['rseed'], 1200000 + i, spec['tier']) for i in range(4)]
    run_release_batch(ctx, [c for c in cases if c is not None])
    # filter in the middle / as the last operator, skipping on, no threads
    for pos in (2, 3):
      run_fresult_scenario(ctx, spec['rseed'], 1300032 + pos, spec['tier'], max_cases=1)
    for i in range(2):
      case = gen_restore(spec['rseed'], 1400000 + i, spec['tier'])
      if case is not None:
        check_restore(ctx, case)
  else:
    raise ValueError(mode)


def run_case(ctx, case):
  fam = case.get('family')
  if fam == 'release':
    run_release_batch(ctx, [case])
  elif fam == 'tsink':
    check_tsink(ctx, case)
  elif fam == 'restore':
    check_restore(ctx, case)
  else:
    raise ValueError(fam)


# ---------------------------------------------------------------------------
# srcfirst: failing source rows in front of every kind of first operator
# ---------------------------------------------------------------------------


def _cols_records(rng, n, const_rows):
  keys = rng.choice([['a'], ['a', 'b']])
  rows = rng.choice([1, 2, 3])
  records = []
  for r in range(n):
    b = 100 * (r + 1)
    k_rows = rows if const_rows else rng.randint(1, 3)
    records.append({k: [b + 10 * j + i for i in range(k_rows)]
                    for j, k in enumerate(keys)})
  return records


def _first_matches(first, op):
  base, _, mode = first.partition('_')
  if op['op'] != base:
    return False
  fbs, bs = op.get('fbs', 0), op.get('bs', 0)
  if base == 'batch':
    return True
  if not mode:
    return not fbs and not bs
  if mode == 'fbs':
    return bool(fbs)
  return bool(bs) and not fbs


def gen_srcfirst(rseed, sidx, tier):
  """Base case (no failing rows yet) of one srcfirst scenario."""
  from vlib import pipeline_gen as g
  rng = random.Random(f'C12F:{rseed}:{sidx}')
  first = FIRST_KINDS[sidx % len(FIRST_KINDS)]
  mode = SRC_MODES[(sidx // len(FIRST_KINDS)) % len(SRC_MODES)]
  nt = (sidx // (len(FIRST_KINDS) * len(SRC_MODES))) % 3
  exc = ['ValueError', 'TypeError'][(sidx // 7) % 2]
  base, _, rb = first.partition('_')
  rebatch = bool(rb)
  if nt == 2 and (rebatch or base == 'batch'):
    nt = 1            # group composition would depend on the interleaving
  n_max = 8 if tier == 'quick' else rng.choice([8, 12, 20])
  kinds_ctx = [k for k in g.KINDS if k != 'batch' or nt < 2]
  for _ in range(80):
    if rebatch:
      records = _cols_records(rng, rng.randint(4, n_max), const_rows=base == 'assign')
    else:
      shape = rng.choice(['dict', 'dict', 'list', 'tuple'] if base == 'assign'
                         else ['dict', 'dict', 'list', 'int', 'tuple'])
      _, records = g.gen_records(rng, shape=shape, n=rng.randint(4, n_max))
    stream = [g.dec(g.enc(r)) for r in records]
    state, op = None, None
    for _try in range(200):
      op = g.propose(rng, stream, frozenset(), kinds=[base], rebatch_ok=rebatch,
                     c12_assign=True)
      if op is None or not _first_matches(first, op):
        op = None
        continue
      # a filter as the very first operator is a repaired C08 defect, not a trigger
      trig = [t for t in g.op_triggers(op, frozenset())
              if t != 'filter-before-any-output-key']
      if trig:
        op = None
        continue
      if base == 'assign' and not g.assign_is_documented_valid(frozenset(), op['out']):
        op = None
        continue
      try:
        state = g._extend(([], stream, frozenset()), op)  # pylint: disable=protected-access
      except Exception:  # pylint: disable=broad-exception-caught
        op = None
        continue
      break
    if op is None or not state[1]:
      continue
    state = g.gen_chain(rng, records, rng.choice([0, 0, 1, 2]), kinds=kinds_ctx,
                        rebatch_ok=nt < 2 and not rebatch, c12_assign=True,
                        state=state)
    chain = state[0]
    for i, o in enumerate(chain):
      o['id'] = i
    return {'family': 'srcfirst', 'first': first, 'src_mode': mode,
            'chain': chain, 'records': g.enc(records), 'num_threads': nt,
            'ignore_error': mode in ('iterate', 'both'), 'feed': 'raising_seq',
            'fail': {},
            'src': {'bad': [], 'exc': exc, 'slicing': rng.random() < 0.5,
                    'ignore': mode in ('own', 'both'),
                    'via_state': rng.random() < 0.3,
                    'split': (rng.randint(0, len(records))
                              if rng.random() < 0.3 else None)}}
  return None


def _src_subsets(n, tier, rng):
  if tier == 'quick':
    n = min(n, 8)
    yield from itertools.combinations(range(n), 1)
    yield from itertools.combinations(range(n), 2)
    triples = list(itertools.combinations(range(n), 3))
    yield from rng.sample(triples, min(8, len(triples)))
  else:
    for _ in range(60):
      k = rng.randint(1, min(5, n))
      yield tuple(sorted(rng.sample(range(n), k)))


def run_srcfirst_scenario(ctx, rseed, sidx, tier, max_cases=None):
  from vlib import pipeline_gen as g
  from vlib.props import C12
  case = gen_srcfirst(rseed, sidx, tier)
  if case is None:
    ctx.count('srcfirst_not_generated')
    return
  ctx.count('srcfirst_scenarios')
  rng = random.Random(f'C12FS:{rseed}:{sidx}')
  n = len(g.dec(case['records']))
  for pos in itertools.islice(_src_subsets(n, tier, rng), max_cases):
    c = copy.deepcopy(case)
    c['src']['bad'] = list(pos)
    C12.check_case(ctx, c)
  ctx.count('failure_free_twins')
  C12.check_case(ctx, copy.deepcopy(case))


def srcfirst_mechanism(kind, case, err_repr):
  """Root-cause key of a srcfirst violation, or None (= generic key).

  Only the scenario "rows fail in the source, the source itself does not skip,
  iterate(ignore_error=True) does, no operator fails" is attributed, and only by
  the kind of the FIRST operator: the source error reaches nothing else.
  """
  src = case.get('src') or {}
  if not (src.get('bad') and not src.get('ignore') and case['ignore_error']
          and not case.get('fail')):
    return None
  first = case['chain'][0]
  if kind == 'raised_while_skipping' and first['op'] in ('assign', 'filter', 'sink') \
      and (err_repr or '').startswith('IndexError: No element left'):
    return M_INDEXERROR
  rebatching = bool(first.get('fbs') or first.get('bs'))
  if first['op'] == 'assign' and rebatching and kind in ('stream_differs', 'sink_records'):
    # (masked by the IndexError above on the unchanged tree) the source error
    # finishes the re-batching generator inside processed_with_inputs: the root
    # cause of the recorded finding, reached by a source error instead of a unit
    return 'assign-with-batch-size-loses-tail-after-skipped-error'
  # apply: the truncated stream ends with a shorter re-batched group; besides the
  # silent loss a later operator may fail to resolve a key in it
  if kind in ('stream_differs', 'sink_records', 'raised_while_skipping') \
      and first['op'] == 'apply' and first.get('fbs'):
    return M_REBATCH
  return None


# ---------------------------------------------------------------------------
# Shared pieces of release / tsink
# ---------------------------------------------------------------------------


class FailingCount:
  """Aggregatable counting its updates; raises at the chosen update calls."""

  def __init__(self, fail_calls, exc):
    self.fail_calls, self.exc = set(fail_calls), exc
    self.calls = 0
    self.raised = []
    self.lock = threading.Lock()

  def create_state(self):
    return 0

  def update_state(self, state, inputs):
    del inputs
    with self.lock:
      k = self.calls
      self.calls += 1
    if k in self.fail_calls:
      e = self.exc(f'aggregate fails at update {k}')
      with self.lock:
        self.raised.append(e)
      raise e
    return state + 1

  def merge_states(self, states):
    return sum(states)

  def get_result(self, state):
    return state


class Slow:
  """Wraps a user function: sleeps for the calls whose arguments are in `keys`."""

  def __init__(self, fn, keys, delay_s):
    self.fn, self.keys, self.delay_s = fn, keys, delay_s
    self.slept = 0

  def __call__(self, *args, **kwargs):
    from vlib import pipeline_gen as g
    if g.canon((args, sorted(kwargs.items()))) in self.keys:
      self.slept += 1
      time.sleep(self.delay_s)
    return self.fn(*args, **kwargs) if self.fn is not None else None


class LogSink:
  """A sink that logs, under a lock, every completed write and every close."""

  def __init__(self, hook=None):
    self.hook = hook
    self.events = []
    self.lock = threading.Lock()

  def write(self, *args, **kwargs):
    if self.hook is not None:
      self.hook(*args, **kwargs)
    with self.lock:
      self.events.append(('write', (args, kwargs)))

  def close(self):
    with self.lock:
      self.events.append(('close', None))

  @property
  def data(self):
    return [x for k, x in self.events if k == 'write']


def build_logged(chain, resolve_fn, *, num_threads=0, name=''):
  """As pipeline_gen.build, with LogSink sinks."""
  from vlib import pipeline_gen as g
  from ml_metrics._src.chainables import transform
  t = transform.TreeTransform.new(name=name, num_threads=num_threads)
  sinks = []
  for op in chain:
    if op['op'] == 'sink':
      sink = LogSink(resolve_fn(op))
      sinks.append(sink)
      kw = {}
      if 'in' in op and not op.get('in_default'):
        kw['input_keys'] = g.lib_keys(op['in'])
      t = t.sink(sink, **kw)
    else:
      t = g.add_op(t, op, resolve_fn(op), sinks)
  return t, sinks


def make_feed(feed, records):
  from ml_metrics._src.chainables import io
  if feed == 'list':
    return records
  if feed == 'iter':
    return iter(records)
  if feed == 'seq_ds':
    return io.SequenceDataSource(records)
  raise ValueError(feed)


def _in_watchdog(fn, timeout_s, name):
  """Runs fn() in a daemon thread; returns (finished, box)."""
  box = {}

  def work():
    box['res'] = fn()

  th = threading.Thread(target=work, daemon=True, name=name)
  th.start()
  th.join(timeout_s)
  return not th.is_alive(), box


def _further_next(it):
  extra = []
  for _ in range(2):
    try:
      extra.append(('data', next(it)))
    except StopIteration:
      extra.append(('stop', None))
    except Exception as e:  # pylint: disable=broad-exception-caught
      extra.append(('error', type(e).__name__))
  return extra


# ---------------------------------------------------------------------------
# release: helper threads end after an aggregate / a later stage failed
# ---------------------------------------------------------------------------


def gen_release(rseed, idx, tier):
  from vlib import pipeline_gen as g
  from vlib.oracles import pipeline_interp as interp
  from vlib.props import C12
  rng = random.Random(f'C12R:{rseed}:{idx}')
  fault_kind = ['agg', 'op', 'agg', 'op', 'op', 'none'][idx % 6]
  exc = ['ValueError', 'TypeError'][(idx // 6) % 2]
  kinds = [k for k in g.KINDS if k != 'batch']
  sizes = [4, 8, 15, 30, 60] if tier == 'quick' else [4, 8, 15, 30, 60, 120, 250]
  for _ in range(60):
    n_stages = rng.choice([1, 2, 2, 2, 3])
    nts = [rng.choice([0, 1, 2]) for _ in range(n_stages)]
    nts[0] = 1 + (idx // 12) % 3 if rng.random() < 0.8 else rng.choice([0, 1, 2, 3])
    shape = rng.choice(['int', 'int', 'dict', 'list', 'tuple'])
    _, records = g.gen_records(rng, shape=shape, n=rng.choice(sizes))
    stream = [g.dec(g.enc(r)) for r in records]
    stages, flat, units_after = [], [], []
    ok = True
    for j in range(n_stages):
      chain, stream, _ = g.gen_chain(rng, records, rng.choice([1, 1, 2]), kinds=kinds,
                                     rebatch_ok=False, c12_assign=True,
                                     state=([], stream, frozenset()))
      if not chain or len(stream) < 3:
        ok = False
        break
      stages.append({'nt': nts[j], 'chain': chain})
      flat.extend(chain)
      units_after.append(len(stream))
    if not ok:
      continue
    for i, op in enumerate(flat):
      op['id'] = i
    case = {'family': 'release', 'records': g.enc(records),
            'feed': rng.choice(['list', 'list', 'seq_ds', 'iter']),
            'stages': stages, 'ignore_error': False, 'fault': None}
    if fault_kind == 'agg':
      j = rng.randrange(n_stages)
      n_units = units_after[j]
      k = rng.choice([0, 1, rng.randrange(n_units), rng.randrange(n_units),
                      n_units - 1])
      case['fault'] = {'kind': 'agg', 'stage': j, 'calls': [min(k, n_units - 1)],
                       'exc': exc}
    elif fault_kind == 'op':
      j = rng.randrange(1, n_stages) if n_stages > 1 and rng.random() < 0.8 \
          else rng.randrange(n_stages)
      cands = [op for op in stages[j]['chain']
               if op['op'] == 'sink' or (op.get('fn') and op['op'] != 'select')]
      if not cands:
        continue
      op = rng.choice(cands)
      # units of the failing operator in the failure-free evaluation
      s = [g.dec(g.enc(r)) for r in records]
      for o in flat[:op['id']]:
        s = interp.run_op(o, s, g.resolve)
      probe = C12.Probe(g.resolve(op))
      interp.run_op(op, s, lambda _op, p=probe: p, skip=True)
      n_units = len(probe.keys)
      if n_units < 2:
        continue
      pos = sorted({rng.choice([0, 1, rng.randrange(n_units), n_units - 1])
                    for _ in range(rng.choice([1, 1, 2]))})
      case['fault'] = {'kind': 'op', 'stage': j, 'op': op['id'], 'pos': pos,
                       'exc': exc}
      case['ignore_error'] = rng.random() < 0.3
    return case
  return None


def _flat_case(case):
  """The C12.oracle view of a release case (one flat chain, operator faults)."""
  flat = [op for st in case['stages'] for op in st['chain']]
  fault = case.get('fault')
  fail = {}
  if fault and fault['kind'] == 'op':
    fail = {str(fault['op']): {'pos': fault['pos'], 'exc': fault['exc']}}
  return {'chain': flat, 'fail': fail, 'src': None,
          'ignore_error': case['ignore_error']}


def stage_threads(uid):
  """{stage index: [names of live threads carrying that stage's name]}."""
  out = {}
  tag = f'c12r{uid}s'
  for th in threading.enumerate():
    at = th.name.find(tag)
    if at < 0 or not th.is_alive():
      continue
    digits = ''
    for ch in th.name[at + len(tag):]:
      if not ch.isdigit():
        break
      digits += ch
    if digits:
      out.setdefault(int(digits), []).append(th.name)
  return out


def _blocked_where(uid):
  """Innermost library frames of the live helper threads (detail only)."""
  frames = sys._current_frames()  # pylint: disable=protected-access
  tag = f'c12r{uid}s'
  where = set()
  for th in threading.enumerate():
    if tag in th.name and th.ident in frames:
      f = frames[th.ident]
      names = []
      while f is not None and len(names) < 40:
        if 'ml_metrics' in f.f_code.co_filename:
          names.append(f.f_code.co_name)
        f = f.f_back
      where.add(names[0] if names else 'idle-pool-worker')
  return sorted(where)


def release_start(case):
  """Builds and runs the pipeline; leaves its helper threads alone."""
  from vlib import pipeline_gen as g
  from vlib.oracles import pipeline_interp as interp
  from vlib.props import C12
  records = g.dec(case['records'])
  flat_case = _flat_case(case)
  run = {'skip': None, 'hang': False}
  try:
    ora = C12.oracle(flat_case, records)
  except (interp.RouteError, interp.Undefined):
    run['skip'] = 'key_unresolvable_after_removal'
    return run
  run['ora'] = ora
  fault = case.get('fault')
  # number of records every stage emits in the failure-free evaluation
  s = [g.dec(g.enc(r)) for r in records]
  run['units_after'] = []
  for st in case['stages']:
    for op in st['chain']:
      s = interp.run_op(op, s, g.resolve)
    run['units_after'].append(len(s))

  uid = next(_UID)
  run['uid'] = uid
  poisons = {}

  def resolve_fn(op):
    fn = g.resolve(op)
    if ora['bad'].get(op['id']):
      poisons[op['id']] = C12.Poison(fn, ora['bad'][op['id']], C12.EXC[fault['exc']])
      return poisons[op['id']]
    return fn

  agg = None
  t, sinks = None, []
  for j, st in enumerate(case['stages']):
    tj, sj = g.build(st['chain'], resolve_fn, num_threads=st['nt'],
                     name=f'c12r{uid}s{j}')
    sinks.extend(sj)
    if fault and fault['kind'] == 'agg' and fault['stage'] == j:
      agg = FailingCount(fault['calls'], C12.EXC[fault['exc']])
      tj = tj.aggregate(fn=agg, output_keys='agg_n')
    t = tj if t is None else t.chain(tj)
  it = t.make().iterate(make_feed(case['feed'], g.dec(case['records'])),
                        ignore_error=case['ignore_error'])
  run['it'] = it
  seen = set(stage_threads(uid))
  limit = 10 * len(records) + 50

  def work():
    got = []
    try:
      for x in it:
        got.append(x)
        if len(got) <= 2:
          seen.update(stage_threads(uid))
        if len(got) > limit:
          return got, None, True
    except Exception as e:  # pylint: disable=broad-exception-caught
      seen.update(stage_threads(uid))
      return got, e, False
    return got, None, False

  finished, box = _in_watchdog(work, RUN_HANG_S, 'c12-consumer')
  if not finished:
    run['hang'] = True
    return run
  got, err, overrun = box.pop('res')
  raised = [e for p in poisons.values() for e in p.raised] + (agg.raised if agg else [])
  obs = {'got': got, 'overrun': overrun, 'err_repr': None, 'in_chain': None,
         'n_raised': len(raised), 'seen_stages': sorted(seen),
         'agg_calls': agg.calls if agg else None, 'sinks': sinks}
  if err is not None:
    obs['err_repr'] = f'{type(err).__name__}: {str(err)[:160]}'
    obs['in_chain'] = C12.in_chain(err, raised)
  del err, raised
  for p in poisons.values():
    p.raised.clear()
  if agg:
    agg.raised.clear()
  run['obs'] = obs
  run['ended'] = time.time()
  return run


def run_release_batch(ctx, cases):
  """Runs the cases one after the other, then ONE bounded wait, then the verdicts."""
  runs = []
  for case in cases:
    try:
      runs.append(release_start(case))
    except Exception as e:  # pylint: disable=broad-exception-caught
      runs.append({'skip': None, 'hang': False, 'broken': f'{type(e).__name__}: {e}'})
  pending = [r for r in runs if r.get('obs')]
  if pending:
    deadline = max(r['ended'] for r in pending) + RELEASE_WAIT_S
    while time.time() < deadline and any(stage_threads(r['uid']) for r in pending):
      time.sleep(0.02)
  for case, run in zip(cases, runs):
    judge_release(ctx, case, run)


def _release_mech(kind, case):
  fault = case.get('fault') or {'kind': 'none'}
  m = f'{kind}:release:{fault["kind"]}'
  if any(st['nt'] for st in case['stages']):
    m += ':threads'
  return m


def judge_release(ctx, case, run):
  from vlib.props import C08, C12
  if run.get('broken'):
    ctx.inconclusive_case('release case could not be built/run: ' + run['broken'], case)
    return
  if run['skip']:
    ctx.count('skipped_' + run['skip'])
    return
  fault = case.get('fault')
  stages = case['stages']
  threaded = any(st['nt'] for st in stages)
  ctx.case(('c12r', case), bool(fault) and threaded)
  ctx.count('release_checks')
  ctx.count('release_fault_' + (fault['kind'] if fault else 'none'))
  ctx.count(f'release_stages_{len(stages)}')
  for st in stages:
    ctx.count(f'release_stage_threads_{st["nt"]}')
  if run['hang']:
    ctx.inconclusive_case(f'real run did not finish within {RUN_HANG_S} s', case)
    return
  obs, ora, uid = run['obs'], run['ora'], run['uid']
  tags = [[C08.op_tags(op) for op in st['chain']] for st in stages]

  def viol(kind, detail, mech=None):
    mech = mech or _release_mech(kind, case)
    ctx.count('viol:' + mech)
    ctx.violation(kind, case, dict(detail, stages=tags, threads=[st['nt'] for st in stages],
                                   fault=fault), mechanism=mech)

  if threaded and obs['seen_stages']:
    ctx.count('release_helper_threads_identified')
  elif threaded:
    ctx.count('release_helper_threads_not_identified')
  ordered = all(st['nt'] <= 1 for st in stages)
  seq_eq = C08.same if ordered else (lambda a, b: C12.multiset(a) == C12.multiset(b))
  if fault and fault['kind'] == 'agg':
    expect_error = min(fault['calls']) < run['units_after'][fault['stage']]
  else:
    expect_error = ora['n_failing'] > 0 and not case['ignore_error']

  if obs['overrun']:
    viol('endless_stream', {'delivered': len(obs['got'])})
  elif not expect_error:
    ctx.count('release_no_error_checks')
    if obs['err_repr'] is not None:
      viol('raised_while_skipping' if fault else 'raised_without_fault',
           {'error': obs['err_repr'], 'delivered': C08.short(obs['got'])})
    elif not seq_eq(obs['got'], ora['want']):
      viol('stream_differs', {'got': C08.short(obs['got'], 400),
                              'want': C08.short(ora['want'], 400)})
    else:
      for j, (sink, log) in enumerate(zip(obs['sinks'], ora['sinks'], strict=True)):
        if not seq_eq(sink.data, log):
          viol('sink_records', {'sink': j, 'got': C08.short(sink.data),
                                'want': C08.short(log)})
          break
  else:
    ctx.count('release_error_checks')
    if obs['err_repr'] is None:
      viol('error_swallowed', {'delivered': C08.short(obs['got'])})
    else:
      if not obs['in_chain']:
        viol('original_exception_not_in_chain', {'error': obs['err_repr']})
      ref = ora['want_nofail']
      if ordered:
        ok = len(obs['got']) <= len(ref) and C08.same(obs['got'], ref[:len(obs['got'])])
        if ok and fault['kind'] == 'agg' and fault['stage'] == len(stages) - 1 \
            and all(st['nt'] == 0 for st in stages):
          ok = len(obs['got']) == min(fault['calls'])
      else:
        pool = C12.multiset(ref)
        for x in C12.multiset(obs['got']):
          if x in pool:
            pool.remove(x)
          else:
            pool = None
            break
        ok = pool is not None
      if not ok:
        viol('wrong_data_before_error', {'got': C08.short(obs['got']),
                                         'failure_free': C08.short(ref)})

  # helper threads: the run has ended, the bounded wait is over, nothing stopped them
  ctx.count('release_thread_checks')
  alive = stage_threads(uid)
  if alive:
    waited = round(time.time() - run['ended'], 2)
    where = _blocked_where(uid)
    keys = {}
    for j in sorted(alive):
      if obs['err_repr'] is None or not fault:
        key = _release_mech('helper_threads_alive_after_exhaustion', case)
      elif j < fault['stage']:
        key = M_DOWNSTREAM
      elif j == fault['stage'] and fault['kind'] == 'agg':
        key = M_AGG
      elif j == fault['stage']:
        key = _release_mech('helper_threads_alive_in_failing_stage', case)
      else:
        key = _release_mech('helper_threads_alive_in_later_stage', case)
      keys.setdefault(key, []).append(j)
    for key, js in keys.items():
      viol('helper_threads_alive',
           {'stages_with_live_threads': js,
            'threads': sorted(n for j in js for n in alive[j])[:6],
            'waited_s': waited, 'innermost_library_frames': where,
            'error': obs['err_repr']}, mech=key)

  # a further next() must not yield data (after the thread verdict: it may release them)
  it = run.pop('it')
  finished, box = _in_watchdog(lambda: _further_next(it), NEXT_HANG_S, 'c12-next')
  ctx.count('release_next_after_end_checks')
  if not finished:
    viol('next_after_end_blocks', {'waited_s': NEXT_HANG_S, 'error': obs['err_repr']})
  elif any(k == 'data' for k, _ in box['res']):
    if fault and fault['kind'] == 'agg' and obs['err_repr'] is not None:
      mech = 'iterator-yields-data-after-aggregate-error'
    else:
      mech = None
    viol('data_after_end', {'extra': C08.short(box['res']), 'error': obs['err_repr']},
         mech=mech)
  # clean up so that blocked threads do not pile up in this process
  if stage_threads(uid):
    _in_watchdog(it.maybe_stop, 3.0, 'c12-stop')
    t_end = time.time() + 2.0
    while stage_threads(uid) and time.time() < t_end:
      time.sleep(0.01)
    if stage_threads(uid):
      ctx.observe('helper_threads_alive_even_after_maybe_stop', _release_mech('x', case))
  del it
  if len(ctx.samples) < 4 and fault and threaded:
    ctx.sample({k: v for k, v in case.items() if k != 'records'})


# ---------------------------------------------------------------------------
# tsink: sinks under threads with slow records
# ---------------------------------------------------------------------------


def gen_tsink(rseed, idx, tier):
  from vlib import pipeline_gen as g
  from vlib.oracles import pipeline_interp as interp
  from vlib.props import C12
  rng = random.Random(f'C12K:{rseed}:{idx}')
  nt = idx % 4
  kinds = [k for k in g.KINDS if k != 'batch'] + ['sink'] * 3
  for _ in range(80):
    shape = rng.choice(['int', 'dict', 'dict', 'list', 'tuple'])
    _, records = g.gen_records(rng, shape=shape, n=rng.randint(3, 8 if tier == 'quick' else 14))
    chain, stream, _ = g.gen_chain(rng, records, rng.choice([1, 2, 2, 3]), kinds=kinds,
                                   rebatch_ok=False, c12_assign=True)
    sink_ids = [i for i, op in enumerate(chain) if op['op'] == 'sink']
    if not sink_ids or not stream:
      continue
    for i, op in enumerate(chain):
      op['id'] = i
    # the slow operator: a function at or before the last sink, or a sink's write
    cands = [i for i, op in enumerate(chain[:sink_ids[-1] + 1])
             if op['op'] == 'sink' or (op.get('fn') and op['op'] != 'select')]
    i = rng.choice(cands)
    s = [g.dec(g.enc(r)) for r in records]
    for o in chain[:i]:
      s = interp.run_op(o, s, g.resolve)
    probe = C12.Probe(g.resolve(chain[i]))
    interp.run_op(chain[i], s, lambda _op, p=probe: p, skip=True)
    if not probe.keys:
      continue
    n_units = len(probe.keys)
    pos = sorted({rng.choice([0, 0, rng.randrange(n_units), n_units - 1])
                  for _ in range(rng.choice([1, 1, 2]))})
    return {'family': 'tsink', 'chain': chain, 'records': g.enc(records),
            'num_threads': nt, 'feed': rng.choice(['list', 'list', 'seq_ds', 'iter']),
            'slow': {'op': i, 'pos': pos, 'ms': rng.choice([30, 50, 80])}}
  return None


def check_tsink(ctx, case):
  from vlib import pipeline_gen as g
  from vlib.oracles import pipeline_interp as interp
  from vlib.props import C08, C12
  records = g.dec(case['records'])
  chain, nt, slow = case['chain'], case['num_threads'], case['slow']
  try:
    want, info = interp.run_chain(chain, records, g.resolve)
    s = [g.dec(g.enc(r)) for r in records]
    for o in chain[:slow['op']]:
      s = interp.run_op(o, s, g.resolve)
    probe = C12.Probe(g.resolve(chain[slow['op']]))
    interp.run_op(chain[slow['op']], s, lambda _op, p=probe: p, skip=True)
  except Exception as e:  # pylint: disable=broad-exception-caught
    ctx.inconclusive_case(f'oracle failed: {type(e).__name__}: {e}', case)
    return
  keys = {probe.keys[p] for p in slow['pos'] if p < len(probe.keys)}
  sink_logs = [info[i]['sink'] for i, op in enumerate(chain) if op['op'] == 'sink']
  ctx.case(('c12k', case), nt >= 1 and len(want) >= 2)
  ctx.count('tsink_checks')
  ctx.count(f'tsink_threads_{nt}')
  slows = []

  def resolve_fn(op):
    fn = g.resolve(op)
    if op['id'] == slow['op']:
      slows.append(Slow(fn, keys, slow['ms'] / 1000.0))
      return slows[-1]
    return fn

  baseline = set(threading.enumerate())
  t, sinks = build_logged(chain, resolve_fn, num_threads=nt)
  it = t.make().iterate(make_feed(case['feed'], g.dec(case['records'])))
  limit = 10 * len(records) + 50

  def work():
    return C12.consume(it, limit)

  finished, box = _in_watchdog(work, RUN_HANG_S, 'c12-consumer')
  if not finished:
    ctx.inconclusive_case(f'real run did not finish within {RUN_HANG_S} s', case)
    return
  got, err, overrun = box.pop('res')
  if slows and slows[0].slept:
    ctx.count('tsink_slow_records_slept', slows[0].slept)

  def viol(kind, detail, mech=None):
    mech = mech or f'{kind}:tsink' + (f':threads{nt}' if nt else '')
    ctx.count('viol:' + mech)
    ctx.violation(kind, case, dict(detail, num_threads=nt,
                                   chain=[C08.op_tags(op) for op in chain]),
                  mechanism=mech)

  seq_eq = C08.same if nt <= 1 else (lambda a, b: C12.multiset(a) == C12.multiset(b))
  if overrun:
    viol('endless_stream', {'delivered': len(got)})
    return
  if err is not None:
    viol('raised_without_fault', {'error': f'{type(err).__name__}: {str(err)[:160]}'})
    return
  if not seq_eq(got, want):
    viol('stream_differs', {'got': C08.short(got, 400), 'want': C08.short(want, 400)})
  for j, (sink, log) in enumerate(zip(sinks, sink_logs, strict=True)):
    with sink.lock:
      events = list(sink.events)
    ctx.count('tsink_written_once_checks')
    if not seq_eq([x for k, x in events if k == 'write'], log):
      viol('sink_records', {'sink': j, 'got': C08.short(sink.data), 'want': C08.short(log)})
    ctx.count('tsink_close_once_checks')
    kinds = [k for k, _ in events]
    n_close = kinds.count('close')
    shown = [k if k == 'close' else 'write' + C08.short(x[0], 40) for k, x in events]
    per_thread = M_SINK if nt >= 2 else None
    if n_close == 0:
      viol('sink_not_closed', {'sink': j, 'events': shown})
    else:
      late = kinds[kinds.index('close'):].count('write')
      if late:
        viol('sink_write_after_close', {'sink': j, 'writes_after_first_close': late,
                                        'close_calls': n_close, 'events': shown},
             mech=per_thread)
      if n_close > 1:
        viol('sink_closed_more_than_once', {'sink': j, 'close_calls': n_close,
                                            'events': shown}, mech=per_thread)
  ctx.count('tsink_thread_checks')
  deadline = time.time() + RELEASE_WAIT_S
  while True:
    alive = [x.name for x in set(threading.enumerate()) - baseline if x.is_alive()]
    if not alive or time.time() > deadline:
      break
    time.sleep(0.01)
  if alive:
    viol('helper_threads_alive', {'threads': alive[:6], 'waited_s': RELEASE_WAIT_S})
  ctx.count('tsink_next_after_end_checks')
  finished, box = _in_watchdog(lambda: _further_next(it), NEXT_HANG_S, 'c12-next')
  if finished and any(k == 'data' for k, _ in box['res']):
    viol('data_after_end', {'extra': C08.short(box['res'])})
  if len(ctx.samples) < 5 and nt >= 2:
    ctx.sample({k: v for k, v in case.items() if k != 'records'})


# ---------------------------------------------------------------------------
# fresult: the predicate returns normally, its result cannot be truth-tested
# ---------------------------------------------------------------------------


def gen_fresult(rseed, sidx, tier):
  """Base case (no failing units yet) and the number of units of the filter."""
  from vlib import pipeline_gen as g
  from vlib.oracles import pipeline_interp as interp
  from vlib.props import C12
  rng = random.Random(f'C12U:{rseed}:{sidx}')
  pos = FRESULT_POS[sidx % 4]
  nt = (sidx // 4) % 3
  ignore = (sidx // 12) % 3 != 2
  form = FRESULT_FORMS[(sidx // 36) % 2]
  exc = ['ValueError', 'TypeError'][(sidx // 72) % 2]
  n_max = 8 if tier == 'quick' else rng.choice([8, 12, 20])
  kinds_ctx = [k for k in g.KINDS if k != 'batch' or nt < 2]
  for _ in range(80):
    shape = rng.choice(['dict', 'dict', 'list', 'int', 'tuple'])
    _, records = g.gen_records(rng, shape=shape, n=rng.randint(4, n_max))
    state = ([], [g.dec(g.enc(r)) for r in records], frozenset())
    if pos in ('middle', 'last'):
      state = g.gen_chain(rng, records, rng.choice([1, 1, 2]), kinds=kinds_ctx,
                          rebatch_ok=nt < 2, c12_assign=True)
      if not state[0] or len(state[1]) < 3:
        continue
    op = None
    for _try in range(200):
      op = g.propose(rng, state[1], state[2], kinds=['filter'], rebatch_ok=False,
                     c12_assign=True)
      if op is None:
        continue
      # a filter in front of every output key is a repaired C08 defect, not a trigger
      if [t for t in g.op_triggers(op, state[2]) if t != 'filter-before-any-output-key']:
        op = None
        continue
      try:
        state2 = g._extend(state, op)  # pylint: disable=protected-access
      except Exception:  # pylint: disable=broad-exception-caught
        op = None
        continue
      break
    if op is None:
      continue
    tidx = len(state[0])
    state = state2
    if pos in ('first', 'middle'):
      if not state[1]:
        continue
      state = g.gen_chain(rng, records, rng.choice([1, 1, 2]), kinds=kinds_ctx,
                          rebatch_ok=nt < 2, c12_assign=True, state=state)
      if len(state[0]) == tidx + 1:
        continue
    chain = state[0]
    for i, o in enumerate(chain):
      o['id'] = i
    stream = [g.dec(g.enc(r)) for r in records]
    for o in chain[:tidx]:
      stream = interp.run_op(o, stream, g.resolve)
    probe = C12.Probe(g.resolve(chain[tidx]))
    interp.run_op(chain[tidx], stream, lambda _op, p=probe: p, skip=True)
    if len(set(probe.keys)) < 3:
      continue
    case = {'family': 'fresult', 'pos': pos, 'chain': chain, 'records': g.enc(records),
            'num_threads': nt, 'ignore_error': ignore,
            'feed': rng.choice(['list', 'list', 'seq_ds']), 'fail': {}, 'src': None}
    return case, (tidx, len(probe.keys), exc, form)
  return None, None


def run_fresult_scenario(ctx, rseed, sidx, tier, max_cases=None):
  from vlib.props import C12
  case, units = gen_fresult(rseed, sidx, tier)
  if case is None:
    ctx.count('fresult_not_generated')
    return
  ctx.count('fresult_scenarios')
  tidx, n_units, exc, form = units
  rng = random.Random(f'C12US:{rseed}:{sidx}')
  for pos in itertools.islice(_src_subsets(n_units, tier, rng), max_cases):
    c = copy.deepcopy(case)
    c['fail'] = {str(tidx): {'pos': list(pos), 'exc': exc, 'mode': 'result',
                             'form': form}}
    C12.check_case(ctx, c)


def fresult_mechanism(kind, case):
  """Root-cause key of a violation of a case of the input class 'the predicate of a
  filter returns a result that cannot be truth-tested', skipping on; else None."""
  fails = list((case.get('fail') or {}).items())
  if len(fails) != 1 or case.get('src') or not case['ignore_error']:
    return None
  k, f = fails[0]
  if f.get('mode') != 'result' or case['chain'][int(k)]['op'] != 'filter':
    return None
  if kind in ('stream_differs', 'raised_while_skipping', 'sink_records', 'data_after_end'):
    return M_TRUTH
  return None


# ---------------------------------------------------------------------------
# restore: the original iterator of a checkpoint is dropped, its sink is shared
# ---------------------------------------------------------------------------


def gen_restore(rseed, idx, tier):
  from vlib import pipeline_gen as g
  rng = random.Random(f'C12X:{rseed}:{idx}')
  kinds = [k for k in g.KINDS if k != 'batch'] + ['sink'] * 3
  for _ in range(80):
    shape = rng.choice(['int', 'dict', 'dict', 'list', 'tuple'])
    _, records = g.gen_records(rng, shape=shape,
                               n=rng.randint(3, 8 if tier == 'quick' else 16))
    chain, stream, _ = g.gen_chain(rng, records, rng.choice([1, 2, 2, 3]), kinds=kinds,
                                   rebatch_ok=False, c12_assign=True)
    if not any(op['op'] == 'sink' for op in chain) or len(stream) < 2:
      continue
    for i, op in enumerate(chain):
      op['id'] = i
    n = len(stream)
    cut = [0, n, rng.randint(1, n - 1), rng.randint(1, n - 1), rng.randint(1, n - 1),
           rng.randint(0, n)][idx % 6]
    # the original is dropped after `drop_after` further deliveries of the restored one
    drop_after = 0 if rng.random() < 0.6 else rng.randint(1, max(1, n - cut))
    return {'family': 'restore', 'chain': chain, 'records': g.enc(records),
            'num_threads': 0, 'cut': cut, 'drop_after': min(drop_after, n - cut),
            'source': rng.choice(['transform', 'iterate'])}
  return None


def check_restore(ctx, case):
  import gc
  from ml_metrics._src.chainables import io
  from vlib import pipeline_gen as g
  from vlib.oracles import pipeline_interp as interp
  from vlib.props import C08, C12
  records = g.dec(case['records'])
  chain, cut, drop_after = case['chain'], case['cut'], case['drop_after']
  try:
    want, info = interp.run_chain(chain, records, g.resolve)
  except Exception as e:  # pylint: disable=broad-exception-caught
    ctx.inconclusive_case(f'oracle failed: {type(e).__name__}: {e}', case)
    return
  sink_logs = [info[i]['sink'] for i, op in enumerate(chain) if op['op'] == 'sink']
  n = len(want)
  cut = min(cut, n)
  ctx.case(('c12x', case), 0 < cut < n)
  ctx.count('restore_checks')
  ctx.count('restore_cut_0' if cut == 0 else 'restore_cut_end' if cut == n
            else 'restore_cut_inside')
  ctx.count('restore_dropped_before_restored_runs' if drop_after == 0
            else 'restore_dropped_while_restored_runs')

  def viol(kind, detail, lifecycle=False):
    # input class: the original had started (it delivered >= 1 record) when it was
    # dropped; only violations of the life cycle of the shared sink belong to it
    mech = M_ABANDONED if lifecycle and cut >= 1 else f'{kind}:restore'
    ctx.count('viol:' + mech)
    if not keep_witness(ctx, kind, mech):
      return
    ctx.violation(kind, case, dict(detail, cut=cut, drop_after=drop_after,
                                   chain=[C08.op_tags(op) for op in chain]),
                  mechanism=mech)

  t, sinks = build_logged(chain, g.resolve)
  got, err = [], None
  try:
    if case['source'] == 'transform':
      from ml_metrics._src.chainables import transform
      head = transform.TreeTransform.new().data_source(io.SequenceDataSource(records))
      it = head.chain(t).make().iterate()
    else:
      it = t.make().iterate(io.SequenceDataSource(records))
    for _ in range(cut):
      got.append(next(it))
    restored = it.from_state(it.state)
    for _ in range(drop_after):
      got.append(next(restored))
    del it
    gc.collect()
    limit = 10 * len(records) + 50
    for x in restored:
      got.append(x)
      if len(got) > limit:
        break
  except Exception as e:  # pylint: disable=broad-exception-caught
    err = f'{type(e).__name__}: {str(e)[:200]}'
  if err is not None:
    viol('raised_without_fault', {'error': err, 'delivered': C08.short(got)})
    return
  ctx.count('restore_delivered_once_checks')
  if not C08.same(got, want):
    viol('stream_differs', {'got': C08.short(got, 400), 'want': C08.short(want, 400)})
  for j, (sink, log) in enumerate(zip(sinks, sink_logs, strict=True)):
    events = list(sink.events)
    kinds = [k for k, _ in events]
    shown = [k if k == 'close' else 'write' + C08.short(x[0], 40) for k, x in events]
    ctx.count('restore_written_once_checks')
    if not C08.same([x for k, x in events if k == 'write'], log):
      viol('sink_records', {'sink': j, 'got': C08.short(sink.data), 'want': C08.short(log)})
    ctx.count('restore_close_once_checks')
    n_close = kinds.count('close')
    if n_close == 0:
      viol('sink_not_closed', {'sink': j, 'events': shown})
      continue
    late = kinds[kinds.index('close'):].count('write')
    if late:
      viol('sink_write_after_close', {'sink': j, 'writes_after_first_close': late,
                                      'close_calls': n_close, 'events': shown},
           lifecycle=True)
    if n_close > 1:
      viol('sink_closed_more_than_once', {'sink': j, 'close_calls': n_close,
                                          'events': shown}, lifecycle=True)
  extra = _further_next(restored)
  if any(k == 'data' for k, _ in extra):
    viol('data_after_end', {'extra': C08.short(extra)})
  if len(ctx.samples) < 6 and 0 < cut < n:
    ctx.sample({k: v for k, v in case.items() if k != 'records'})
