"""Producer/consumer workloads on the real IteratorQueue under the scheduler.

Used by C04 (fault-free), C05 (faults / stop / timeouts).  A case dict fully
determines configuration and schedule (seed + strategy), so replay is exact.
The event log is appended to by whichever controlled thread is running; since
only one runs at a time it is a total order consistent with the schedule.
"""

from __future__ import annotations

import asyncio
import queue as _queue
import random

from vlib.sched import core, shims


class InjectedError(Exception):
  """Failure raised by a producer's iterator."""


class StopRequest(Exception):
  """Exception handed to maybe_stop(exc)."""


def fault_exception(kind, text):
  """The exception a failing producer raises (fault['exc'], default InjectedError)."""
  if kind in (None, 'InjectedError'):
    return InjectedError(text)
  if kind == 'Empty':
    return _queue.Empty(text)
  if kind == 'QueueEmpty':
    return asyncio.QueueEmpty(text)
  if kind == 'Full':
    return _queue.Full(text)
  return {'TimeoutError': TimeoutError, 'KeyError': KeyError, 'ValueError': ValueError,
          'RuntimeError': RuntimeError, 'IndexError': IndexError}[kind](text)


class FailingIterable:
  """An iterable whose __iter__ raises (a lazily opened source that cannot be opened)."""

  def __init__(self, exc, log, p):
    self._exc, self._log, self._p = exc, log, p

  def __iter__(self):
    self._log.append(('fail', self._p, -1))
    raise self._exc


_patched = False


def patch_iter_utils():
  """Installs shims + line-level yields on iter_utils (idempotent)."""
  global _patched
  from ml_metrics._src.utils import iter_utils
  took = shims.install(iter_utils)
  n_codes = 0
  if not _patched:
    fns = [
        iter_utils.IteratorQueue.get_nowait, iter_utils.IteratorQueue.get,
        iter_utils.IteratorQueue.get_batch, iter_utils.IteratorQueue.put,
        iter_utils.IteratorQueue.put_nowait,
        iter_utils.IteratorQueue._start_enqueue,
        iter_utils.IteratorQueue._stop_enqueue,
        iter_utils.IteratorQueue._set_exhausted,
        iter_utils.IteratorQueue.maybe_stop,
        iter_utils.IteratorQueue.enqueue_from_iterator,
        iter_utils.IteratorQueue.__dict__['enqueue_done'],
        iter_utils._release_and_notify,
        iter_utils.DequeueIterator.__next__,
        iter_utils._ThreadSafeIterator.__next__,
        iter_utils.MultiplexIterator.__next__,
        iter_utils.MultiplexIterator.maybe_stop,
        iter_utils.piter_multiplex, iter_utils.piter_fn,
    ]
    n_codes = core.install_line_yield(fns)
    _patched = True
  return took, n_codes


def make_raw_queue(flavour, cap):
  if flavour == 'default':
    return cap
  if flavour == 'queue':
    return _queue.Queue(maxsize=cap)
  if flavour == 'simple':
    assert cap == 0
    return _queue.SimpleQueue()
  if flavour == 'asyncio':
    return asyncio.Queue(maxsize=cap)
  if flavour == 'lifo_bad':  # not used by checks; for validating the monitor
    return _queue.LifoQueue(maxsize=cap)
  raise ValueError(flavour)


def run_queue_case(case, watchdog_s=20.0):
  """Executes one (configuration, schedule) and returns (sched, log, info)."""
  from ml_metrics._src.utils import iter_utils
  took, _ = patch_iter_utils()
  info = {'shims': took}
  P, C = case['P'], case['C']
  lens = case['lens']
  cap = case['cap']
  timeout = case.get('timeout')
  fault = case.get('fault')
  stop = case.get('stop')
  rnd = random.Random(case.get('mode_seed', 0))
  sched = core.Scheduler(
      case['sched_seed'], strategy=case.get('strategy', 'random'),
      p_sync=case.get('p_sync', 0.35), p_line=case.get('p_line', 0.08),
      max_steps=case.get('max_steps', 60000))
  q = iter_utils.IteratorQueue(
      make_raw_queue(case.get('flavour', 'default'), cap), name='q',
      timeout=timeout, max_enqueuer=P if case.get('preset', True) else 0,
      ignore_error=case.get('ignore_error', False))
  log = []
  info['queue'] = q
  state = {'produced': 0, 'consumers_ended': 0, 'producers_ended': 0}
  # Timing scenarios (see timing_variants): threads that sleep, consumers that
  # retry after a TimeoutError, and pass-through tracing of the queue's steps.
  pnaps, cnaps = case.get('pnaps'), case.get('cnaps')
  retry = case.get('retry') or 0

  def me():
    st = core.ACTIVE.me()
    return st.name if st is not None else '?'

  def nap():
    # time.sleep() under the scheduler: a timed block that never becomes enabled.
    # Like every timed wait it expires only when no thread is enabled, and which of
    # several timed waits expires first is the scheduler's (seeded) choice, i.e. the
    # sleep may be shorter or longer than the queue's timeout.
    log.append(('nap', me()))
    core.ACTIVE.block(lambda: False, f'nap({me()})', timed=True)

  if case.get('trace_queue'):
    orig_put, orig_put_nowait, orig_get_nowait = q.put, q.put_nowait, q.get_nowait

    def traced_put(value):
      try:
        return orig_put(value)
      except TimeoutError:
        log.append(('put_timeout', me(), value))
        raise

    def traced_put_nowait(value):
      orig_put_nowait(value)
      log.append(('enq', me(), value))

    def traced_get_nowait():
      value = orig_get_nowait()
      log.append(('deq', me(), value))
      return value

    q.put, q.put_nowait, q.get_nowait = traced_put, traced_put_nowait, traced_get_nowait

  def gen(p):
    n = lens[p]
    for i in range(n):
      if fault and fault['p'] == p and fault['at'] == i:
        log.append(('fail', p, i))
        raise fault_exception(fault.get('exc'), f'p{p}@{i}')
      if pnaps and i in pnaps[p]:
        nap()
      log.append(('produce', p, i))
      state['produced'] += 1
      core.ACTIVE.yield_point('user-gen')
      yield (p, i)
    if fault and fault['p'] == p and fault['at'] == n:
      log.append(('fail', p, n))
      raise fault_exception(fault.get('exc'), f'p{p}@{n}')
    if pnaps and n in pnaps[p]:
      nap()
    return f'r{p}'

  def source(p):
    if fault and fault['p'] == p and fault['at'] == -1:
      return FailingIterable(fault_exception(fault.get('exc'), f'p{p}@iter'), log, p)
    return gen(p)

  def producer(p):
    try:
      q.enqueue_from_iterator(source(p))
      log.append(('prod_return', p))
    except core.SchedAbort:
      raise
    except BaseException as e:  # pylint: disable=broad-exception-caught
      log.append(('prod_raise', p, type(e).__name__, str(e)[:80]))
    finally:
      state['producers_ended'] += 1

  def check_invariants(where):
    if stop:
      # A stop is a cancellation: an element put by a producer that was already
      # past its enqueue_done test may land after the queue was drained.
      return
    with q._states_lock:  # pylint: disable=protected-access
      st, sp, mx = q._enqueue_start, q._enqueue_stop, q._max_enqueuer  # pylint: disable=protected-access
      if not (0 <= sp <= st <= max(mx, st)):
        log.append(('invariant', where, f'start={st} stop={sp} max={mx}'))
      if q.exhausted and q.exception is None and not q._queue.empty():  # pylint: disable=protected-access
        log.append(('invariant', where, 'exhausted but raw queue not empty'))
      if q.exhausted and not q.enqueue_done:
        log.append(('invariant', where, 'exhausted but enqueue not done'))

  def consumer(c, mode):
    it = None
    max_ops = case.get('consumer_max_ops')
    ops = 0
    retries = 0

    def dequeue(m):
      # One dequeue operation of a retrying consumer (timing scenarios).
      nonlocal it
      if m == 'get':
        return [q.get()]
      if m.startswith('batch_nb:'):
        return q.get_batch(int(m.split(':')[1]), block=False)
      if m.startswith('batch_b:'):
        return q.get_batch(int(m.split(':')[1]), block=True)
      if m == 'batch0':
        return q.get_batch()
      if m == 'iter':
        if it is None:
          it = q.dequeue_as_iterator()
        return [next(it)]
      raise ValueError(m)

    try:
      if cnaps and cnaps[c] == 'late':
        # An absent consumer: it only turns up once every producer has returned.
        core.ACTIVE.block(lambda: state['producers_ended'] >= P, 'consumer.late')
      while True:
        if max_ops is not None and ops >= max_ops:
          log.append(('end', c, 'quit', ()))
          return
        ops += 1
        if cnaps and cnaps[c] != 'late' and ops <= cnaps[c]:
          nap()
        m = mode
        was_exhausted = q.exhausted
        if mode == 'mixed':
          m = rnd.choice(['get', 'batch_nb:2', 'batch_b:2', 'batch0'])
        if retry:
          log.append(('op', c, m))
          try:
            vals = dequeue(m)
          except TimeoutError as e:
            # A timeout is a retriable condition as long as the queue has not failed
            # (bounded: a consumer that keeps timing out gives up with the error).
            if q.exception is not None or retries >= retry:
              raise
            retries += 1
            log.append(('retry', c, m, 'TimeoutError', str(e)[:60]))
            continue
          if not vals and was_exhausted:
            log.append(('end', c, 'exc', 'EmptyBatchAfterExhausted', m))
            return
          for v in vals:
            log.append(('recv', c, v[0], v[1]))
          check_invariants(f'c{c}')
          continue
        if m == 'get':
          vals = [q.get()]
        elif m == 'nowait':
          try:
            vals = [q.get_nowait()]
          except (_queue.Empty, asyncio.QueueEmpty):
            vals = []
            core.ACTIVE.yield_point('spin')
            # A pure spinner can starve everyone under PCT; block until there
            # is something to do.
            core.ACTIVE.block(
                lambda: not q._queue.empty() or q.enqueue_done or q.exhausted,  # pylint: disable=protected-access
                'consumer.spin')
        elif m.startswith('batch_nb:'):
          vals = q.get_batch(int(m.split(':')[1]), block=False)
        elif m.startswith('batch_b:'):
          vals = q.get_batch(int(m.split(':')[1]), block=True)
        elif m == 'batch0':
          vals = q.get_batch()
        elif m == 'iter':
          if it is None:
            it = q.dequeue_as_iterator()
          vals = [next(it)]
        else:
          raise ValueError(m)
        if not vals and was_exhausted and m != 'nowait':
          # Once the queue is exhausted every dequeue call ends the stream (or
          # raises the recorded exception); an empty batch is neither.
          log.append(('end', c, 'exc', 'EmptyBatchAfterExhausted', m))
          return
        for v in vals:
          log.append(('recv', c, v[0], v[1]))
        check_invariants(f'c{c}')
    except StopIteration as e:
      log.append(('end', c, 'stop', tuple(e.args)))
    except core.SchedAbort:
      raise
    except BaseException as e:  # pylint: disable=broad-exception-caught
      log.append(('end', c, 'exc', type(e).__name__, str(e)[:80]))
    finally:
      state['consumers_ended'] += 1

  def stopper():
    k = stop['after']
    s = core.ACTIVE
    s.block(lambda: (state['produced'] >= k
                     or state['consumers_ended'] >= C
                     or state['producers_ended'] >= P), 'stopper.wait')
    log.append(('stop_request', bool(stop.get('exc'))))
    try:
      q.maybe_stop(StopRequest('stop!') if stop.get('exc') else None)
      log.append(('stop_returned',))
    except core.SchedAbort:
      raise
    except BaseException as e:  # pylint: disable=broad-exception-caught
      log.append(('stop_raised', type(e).__name__, str(e)[:80]))

  modes = case['modes']
  for p in range(P):
    sched.spawn(producer, name=f'P{p}', args=(p,))
  for c in range(C):
    sched.spawn(consumer, name=f'C{c}', args=(c, modes[c % len(modes)]))
  if stop:
    sched.spawn(stopper, name='S')
  sched.run(watchdog_s)
  return sched, log, info


def analyse(case, sched, log):
  """Offline checker over the event log. Returns list of (kind, detail)."""
  P, C, lens = case['P'], case['C'], case['lens']
  fault, stop = case.get('fault'), case.get('stop')
  out = []
  if sched.status == 'deadlock':
    out.append(('deadlock', sched.witness))
    return out
  if sched.status != 'ok':
    return out  # inconclusive, handled by the caller
  produced = [(e[1], e[2]) for e in log if e[0] == 'produce']
  recv = [(e[1], e[2], e[3]) for e in log if e[0] == 'recv']
  ids = [(p, i) for (_, p, i) in recv]
  if len(set(ids)) != len(ids):
    dup = sorted({x for x in ids if ids.count(x) > 1})
    out.append(('duplicate', dup[:5]))
  if not set(ids) <= set(produced):
    out.append(('phantom', sorted(set(ids) - set(produced))[:5]))
  # per-consumer per-producer order
  last = {}
  for (c, p, i) in recv:
    if last.get((c, p), -1) >= i:
      out.append(('order', {'consumer': c, 'producer': p, 'prev': last[(c, p)],
                            'got': i}))
      break
    last[(c, p)] = i
  for e in log:
    if e[0] == 'invariant':
      out.append(('invariant', e[1:]))
  ends = {e[1]: e for e in log if e[0] == 'end'}
  errs = sched.thread_errors()
  if errs:
    out.append(('thread_error', {k: repr(v) for k, v in errs.items()}))
  quitting = case.get('consumer_max_ops') is not None
  if not fault and not stop:
    expected_all = {(p, i) for p in range(P) for i in range(lens[p])}
    if not quitting and set(ids) != expected_all:
      out.append(('lost', sorted(expected_all - set(ids))[:5]))
    for c in range(C):
      e = ends.get(c)
      if e is None:
        out.append(('consumer_no_end', c))
      elif e[2] == 'quit':
        pass
      elif e[2] != 'stop':
        out.append(('consumer_bad_end', e[1:]))
      elif sorted(map(str, e[3])) != sorted(f'r{p}' for p in range(P)):
        out.append(('returned_values', {'consumer': c, 'got': list(e[3])}))
    for p in range(P):
      if ('prod_return', p) not in log:
        out.append(('producer_no_return', p))
  elif fault:
    # Every consumer that kept consuming ends with the producer's exception.
    for c in range(C):
      e = ends.get(c)
      if e is None:
        out.append(('consumer_no_end', c))
      elif e[2] == 'quit':
        pass
      elif e[2] == 'stop':
        out.append(('clean_end_after_failure', {'consumer': c}))
      elif e[3] != {None: 'InjectedError', 'QueueEmpty': 'QueueEmpty'}.get(
          fault.get('exc'), fault.get('exc')):
        out.append(('wrong_exception', e[1:]))
    for p in range(P):
      ended = [e for e in log if e[0] in ('prod_return', 'prod_raise') and e[1] == p]
      if not ended:
        out.append(('producer_no_return', p))
      elif p == fault['p'] and ended[0][0] != 'prod_raise':
        out.append(('failing_producer_returned_cleanly', p))
  elif stop:
    stop_with_exc = bool(stop.get('exc'))
    raised = [e for e in log if e[0] == 'stop_raised']
    if raised:
      out.append(('stop_raised', raised[0][1:]))
    for c in range(C):
      e = ends.get(c)
      if e is None:
        out.append(('consumer_no_end', c))
      elif e[2] == 'quit':
        pass
      elif stop_with_exc:
        # Consumers may have finished cleanly before the stop arrived only if
        # everything had been consumed; otherwise they must see the exception.
        if e[2] == 'exc' and e[3] != 'StopRequest':
          out.append(('wrong_exception', e[1:]))
      elif e[2] != 'stop':
        out.append(('consumer_bad_end', e[1:]))
    for p in range(P):
      ended = [e for e in log if e[0] in ('prod_return', 'prod_raise') and e[1] == p]
      if not ended:
        out.append(('producer_no_return', p))
      elif ended[0][0] == 'prod_raise':
        out.append(('producer_raised_on_stop', ended[0][1:]))
  return out


# -- timing scenarios: sleeping threads, timeouts that fire mid-stream -------------

TIMING_SCENARIOS = ('slow_consumer', 'late_consumer', 'slow_producer')
MECH_PUT_TIMEOUT_DROP = 'ignore-error-queue-drops-element-on-put-timeout'
MECH_GET_BATCH_TIMEOUT_DROP = 'get-batch-timeout-drops-dequeued-elements'


def timing_variants(cfg, rng):
  """Timing variants of one configuration (see C04.gen_config).

  slow_consumer / late_consumer: bounded queue with a timeout; the consumers sleep
  before their first operations (or only turn up once the producers have returned), so
  a put() on the full buffer may time out; with and without ignore_error.
  slow_producer: queue with a timeout; the sources sleep before some elements, so a
  blocked dequeue may time out; the consumers retry after a TimeoutError.
  In all of them every thread goes on until the stream ends or an error is reported.
  """
  out = []
  P, C = cfg['P'], cfg['C']
  base = dict(cfg, timeout=3.0, fault=None, stop=None, trace_queue=True, retry=40)
  # -- starved put -------------------------------------------------------------------
  cap = cfg['cap'] or rng.choice([1, 2])
  flavour = cfg['flavour'] if cfg['cap'] else rng.choice(['default', 'queue', 'asyncio'])
  lens = list(cfg['lens'])
  one = rng.randrange(P)
  lens[one] = max(lens[one], cap + rng.randint(1, 3))   # at least one put must block
  bounded = dict(base, cap=cap, flavour=flavour, lens=lens)
  naps = [rng.randint(1, 3) for _ in range(C)]
  ignore = rng.random() < 0.75
  out.append(dict(bounded, scn='slow_consumer', cnaps=naps, ignore_error=ignore))
  out.append(dict(bounded, scn='slow_consumer', cnaps=naps, ignore_error=not ignore))
  out.append(dict(bounded, scn='late_consumer', cnaps=['late'] * C, ignore_error=True))
  # -- starved get -------------------------------------------------------------------
  lens = [max(l, rng.choice([1, 2, 3])) for l in cfg['lens']]
  pnaps = [sorted(rng.sample(range(n + 1), rng.randint(0, min(2, n + 1)))) for n in lens]
  if not any(pnaps):
    p = rng.randrange(P)
    pnaps[p] = [rng.randint(0, lens[p])]
  slow = dict(base, scn='slow_producer', lens=lens, pnaps=pnaps)
  out.append(slow)
  modes = list(cfg['modes'])
  modes[rng.randrange(len(modes))] = f'batch_b:{rng.choice([2, 3, 4])}'
  out.append(dict(slow, modes=modes))
  return out


def _next_event_of_consumer(log, start, c):
  for e in log[start:]:
    if e[0] in ('op', 'retry', 'end') and e[1] == c:
      return e
  return None


def analyse_timing(case, sched, log, info):
  """Oracle of the timing scenarios. Returns list of (kind, detail).

  No produced element may vanish silently: each one is received by a consumer, is still
  in the buffer, or somebody was told (a producer raised, the queue recorded an
  exception, a consumer ended with an exception).  TimeoutErrors that a consumer
  retried are not such a report: the queue was neither failed nor stopped.
  """
  P, C, lens = case['P'], case['C'], case['lens']
  if sched.status == 'deadlock':
    return [('deadlock', sched.witness)]
  if sched.status != 'ok':
    return []
  out = []
  produced = [(e[1], e[2]) for e in log if e[0] == 'produce']
  recv = [(e[1], e[2], e[3]) for e in log if e[0] == 'recv']
  ids = [(p, i) for (_, p, i) in recv]
  if len(set(ids)) != len(ids):
    out.append(('duplicate', sorted({x for x in ids if ids.count(x) > 1})[:5]))
  if not set(ids) <= set(produced):
    out.append(('phantom', sorted(set(ids) - set(produced))[:5]))
  last = {}
  for (c, p, i) in recv:
    if last.get((c, p), -1) >= i:
      out.append(('order', {'consumer': c, 'producer': p, 'prev': last[(c, p)], 'got': i}))
      break
    last[(c, p)] = i
  for e in log:
    if e[0] == 'invariant':
      out.append(('invariant', e[1:]))
  errs = sched.thread_errors()
  if errs:
    out.append(('thread_error', {k: repr(v) for k, v in errs.items()}))
  ends = {e[1]: e for e in log if e[0] == 'end'}
  for c in range(C):
    if c not in ends:
      out.append(('consumer_no_end', c))
  prod_end = {e[1]: e for e in log if e[0] in ('prod_return', 'prod_raise')}
  for p in range(P):
    if p not in prod_end:
      out.append(('producer_no_return', p))
  q = info['queue']
  residual = []
  raw = q._queue  # pylint: disable=protected-access
  while True:
    try:
      residual.append(tuple(raw.get_nowait()))
    except (_queue.Empty, asyncio.QueueEmpty):
      break
  info['residual'] = residual
  reports = ([f'P{e[1]} raised {e[2]}' for e in prod_end.values() if e[0] == 'prod_raise']
             + [f'C{e[1]} ended with {e[3]}' for e in ends.values() if e[2] == 'exc']
             + ([f'queue.exception={type(q.exception).__name__}'] if q.exception is not None
                else []))
  info['reports'] = reports
  lost = sorted(set(produced) - set(ids) - set(residual))
  if not reports:
    for c, e in sorted(ends.items()):
      if e[2] == 'stop' and sorted(map(str, e[3])) != sorted(f'r{p}' for p in range(P)):
        out.append(('returned_values', {'consumer': c, 'got': list(e[3])}))
    if lost:
      why = {}
      for v in lost:
        enq = any(e[0] == 'enq' and tuple(e[2]) == v for e in log)
        put_to = any(e[0] == 'put_timeout' and tuple(e[2]) == v for e in log)
        deq = [(n, e) for n, e in enumerate(log) if e[0] == 'deq' and tuple(e[2]) == v]
        if not enq and put_to:
          why[v] = 'put_timeout_swallowed'
        elif deq and deq[0][1][1].startswith('C'):
          c = int(deq[0][1][1][1:])
          nxt = _next_event_of_consumer(log, deq[0][0], c)
          if nxt is not None and nxt[0] == 'retry' and nxt[2].startswith('batch'):
            why[v] = f'dequeued_by_get_batch_that_timed_out:{nxt[2]}'
          else:
            why[v] = f'dequeued_by_C{c}_not_delivered'
        else:
          why[v] = 'enqueued_never_dequeued' if enq else 'never_enqueued'
      out.append(('silent_loss', {
          'lost': [list(v) for v in lost[:6]], 'why': {f'{v[0]},{v[1]}': w for v, w in why.items()},
          'consumer_ends': [list(e[1:3]) for e in ends.values()],
          'producer_ends': [list(e[:2]) for e in prod_end.values()],
          'queue_exception': None, 'residual_in_buffer': len(residual)}))
  return out


def deadlock_sites(kind, detail):
  """'[C:get,P:put]' for a deadlock witness (who is stuck in which queue method)."""
  if kind != 'deadlock' or not isinstance(detail, dict):
    return ''
  sites = set()
  for name, v in detail.items():
    st = [s for s in (v.get('stack') or []) if s.startswith('iter_utils.py')]
    fn = st[-1].split(':')[-1] if st else '?'
    sites.add(f'{name[0]}:{fn}')
  return '[' + ','.join(sorted(sites)) + ']'


def classify_timing(case, kind, detail):
  """Stable key of a root cause, by scenario and recorded evidence (None = no special key)."""
  if kind != 'silent_loss' or not isinstance(detail, dict):
    return None
  whys = set(detail.get('why', {}).values())
  scn = case.get('scn')
  if (scn in ('slow_consumer', 'late_consumer') and case.get('ignore_error')
      and whys == {'put_timeout_swallowed'}):
    return MECH_PUT_TIMEOUT_DROP
  if (scn == 'slow_producer' and case.get('retry') and whys
      and all(w.startswith('dequeued_by_get_batch_that_timed_out:batch_b') for w in whys)):
    return MECH_GET_BATCH_TIMEOUT_DROP
  return None
