"""Producer/consumer workloads on the real IteratorQueue under the scheduler.

Used by C04 (fault-free), C05 (faults / stop / timeouts).  A case dict fully
determines configuration and schedule (seed + strategy), so replay is exact.
The event log is appended to by whichever controlled thread is running; since
only one runs at a time it is a total order consistent with the schedule.
"""

from __future__ import annotations

import asyncio
import dataclasses
import queue as _queue
import random

from vlib.sched import core, shims


class InjectedError(Exception):
  """Failure raised by a producer's iterator."""


class StopRequest(Exception):
  """Exception handed to maybe_stop(exc)."""


@dataclasses.dataclass(frozen=True)
class FrozenNotesError(Exception):
  """An immutable exception (frozen dataclass): every attribute assignment is refused,
  hence BaseException.add_note(), which stores __notes__ with a plain setattr, raises
  dataclasses.FrozenInstanceError."""
  text: str = ''


class ReadOnlyNotesError(Exception):
  """An exception whose __notes__ is a read-only property that is not a list:
  BaseException.add_note() raises TypeError."""

  @property
  def __notes__(self):
    return ('read-only note',)


# Input class: producer failures whose exception object cannot be decorated with a note.
NOTES_REJECTING = ('FrozenNotesError', 'ReadOnlyNotesError')
MECH_FAILURE_NOT_RECORDED_NOTES = 'producer-failure-not-recorded-when-exception-rejects-notes'


def rejects_notes(case):
  return bool(case.get('fault')) and case['fault'].get('exc') in NOTES_REJECTING


def fault_exception(kind, text):
  """The exception a failing producer raises (fault['exc'], default InjectedError)."""
  if kind in (None, 'InjectedError'):
    return InjectedError(text)
  if kind == 'FrozenNotesError':
    return FrozenNotesError(text)
  if kind == 'ReadOnlyNotesError':
    return ReadOnlyNotesError(text)
  if kind == 'Empty':
    return _queue.Empty(text)
  if kind == 'QueueEmpty':
    return asyncio.QueueEmpty(text)
  if kind == 'Full':
    return _queue.Full(text)
  return {'TimeoutError': TimeoutError, 'KeyError': KeyError, 'ValueError': ValueError,
          'RuntimeError': RuntimeError, 'IndexError': IndexError}[kind](text)


def exception_chain(e):
  """Type names of the exceptions e chains (__cause__ / __context__), e excluded."""
  names, seen, todo = [], {id(e)}, [e.__cause__, e.__context__]
  while todo:
    x = todo.pop(0)
    if x is None or id(x) in seen or len(seen) > 20:
      continue
    seen.add(id(x))
    names.append(type(x).__name__)
    todo += [x.__cause__, x.__context__]
  return names


class FailingIterable:
  """An iterable whose __iter__ raises (a lazily opened source that cannot be opened)."""

  def __init__(self, exc, log, p):
    self._exc, self._log, self._p = exc, log, p

  def __iter__(self):
    self._log.append(('fail', self._p, -1))
    raise self._exc


_patched = False


def patch_iter_utils():
  """Installs shims + line-level yields on iter_utils (idempotent)."""
  global _patched
  from ml_metrics._src.utils import iter_utils
  took = shims.install(iter_utils)
  n_codes = 0
  if not _patched:
    fns = [
        iter_utils.IteratorQueue.get_nowait, iter_utils.IteratorQueue.get,
        iter_utils.IteratorQueue.get_batch, iter_utils.IteratorQueue.put,
        iter_utils.IteratorQueue.put_nowait,
        iter_utils.IteratorQueue._start_enqueue,
        iter_utils.IteratorQueue._stop_enqueue,
        iter_utils.IteratorQueue._set_exhausted,
        iter_utils.IteratorQueue.maybe_stop,
        iter_utils.IteratorQueue.enqueue_from_iterator,
        iter_utils.IteratorQueue.__dict__['enqueue_done'],
        iter_utils._release_and_notify,
        iter_utils.DequeueIterator.__next__,
        iter_utils._ThreadSafeIterator.__next__,
        iter_utils.MultiplexIterator.__next__,
        iter_utils.MultiplexIterator.maybe_stop,
        iter_utils.piter_multiplex, iter_utils.piter_fn,
    ]
    # Helpers that a tree may split off the non-blocking operations (none at present).
    fns += [v for k, v in vars(iter_utils.IteratorQueue).items()
            if callable(v) and k.lstrip('_') in ('get_nowait', 'put_nowait') and v not in fns]
    n_codes = core.install_line_yield(fns)
    _patched = True
  return took, n_codes


def make_raw_queue(flavour, cap):
  if flavour == 'default':
    return cap
  if flavour == 'queue':
    return _queue.Queue(maxsize=cap)
  if flavour == 'simple':
    assert cap == 0
    return _queue.SimpleQueue()
  if flavour == 'asyncio':
    return asyncio.Queue(maxsize=cap)
  if flavour == 'lifo_bad':  # not used by checks; for validating the monitor
    return _queue.LifoQueue(maxsize=cap)
  raise ValueError(flavour)


class RawTrace:
  """Pass-through recorder around the raw buffer: who enqueued / dequeued which element.

  Recording at the buffer itself (not at a queue method) attributes an element also when
  the method that popped it raises afterwards, whatever helper it was called through.
  """

  def __init__(self, raw, log, me):
    self.raw, self._log, self._me = raw, log, me

  def get_nowait(self):
    value = self.raw.get_nowait()
    self._log.append(('deq', self._me(), value))
    return value

  def put_nowait(self, value):
    self.raw.put_nowait(value)
    self._log.append(('enq', self._me(), value))

  def empty(self):
    return self.raw.empty()

  def __getattr__(self, name):
    return getattr(self.raw, name)


def run_queue_case(case, watchdog_s=20.0):
  """Executes one (configuration, schedule) and returns (sched, log, info)."""
  from ml_metrics._src.utils import iter_utils
  took, _ = patch_iter_utils()
  info = {'shims': took}
  P, C = case['P'], case['C']
  lens = case['lens']
  cap = case['cap']
  timeout = case.get('timeout')
  fault = case.get('fault')
  stop = case.get('stop')
  rnd = random.Random(case.get('mode_seed', 0))
  sched = core.Scheduler(
      case['sched_seed'], strategy=case.get('strategy', 'random'),
      p_sync=case.get('p_sync', 0.35), p_line=case.get('p_line', 0.08),
      max_steps=case.get('max_steps', 60000))
  q = iter_utils.IteratorQueue(
      make_raw_queue(case.get('flavour', 'default'), cap), name='q',
      timeout=timeout, max_enqueuer=P if case.get('preset', True) else 0,
      ignore_error=case.get('ignore_error', False))
  log = []
  info['queue'] = q
  state = {'produced': 0, 'consumers_ended': 0, 'producers_ended': 0,
           'get_nowait_calls': 0, 'put_nowait_calls': 0, 'empty_seen': 0, 'full_seen': 0,
           'poll_bound_hit': 0}
  info['state'] = state
  # Polling workloads (see poll_variants): a side that uses the public non-blocking
  # operation in a loop instead of the blocking one.
  max_polls = case.get('max_polls', 400)
  # Timing scenarios (see timing_variants): threads that sleep, consumers that
  # retry after a TimeoutError, and pass-through tracing of the queue's steps.
  pnaps, cnaps = case.get('pnaps'), case.get('cnaps')
  retry = case.get('retry') or 0
  away = bool(case.get('away'))

  def me():
    st = core.ACTIVE.me()
    return st.name if st is not None else '?'

  def nap():
    # time.sleep() under the scheduler: a timed block that never becomes enabled.
    # Like every timed wait it expires only when no thread is enabled, and which of
    # several timed waits expires first is the scheduler's (seeded) choice, i.e. the
    # sleep may be shorter or longer than the queue's timeout.
    log.append(('nap', me()))
    core.ACTIVE.block(lambda: False, f'nap({me()})', timed=True)

  if case.get('trace_queue'):
    orig_put = q.put

    def traced_put(value):
      try:
        return orig_put(value)
      except TimeoutError:
        log.append(('put_timeout', me(), value))
        raise

    q.put = traced_put
    q._queue = RawTrace(q._queue, log, me)  # pylint: disable=protected-access

  def gen(p):
    n = lens[p]
    for i in range(n):
      if fault and fault['p'] == p and fault['at'] == i:
        log.append(('fail', p, i))
        raise fault_exception(fault.get('exc'), f'p{p}@{i}')
      if pnaps and i in pnaps[p]:
        nap()
      log.append(('produce', p, i))
      state['produced'] += 1
      core.ACTIVE.yield_point('user-gen')
      yield (p, i)
    if fault and fault['p'] == p and fault['at'] == n:
      log.append(('fail', p, n))
      raise fault_exception(fault.get('exc'), f'p{p}@{n}')
    if pnaps and n in pnaps[p]:
      nap()
    return f'r{p}'

  def source(p):
    if fault and fault['p'] == p and fault['at'] == -1:
      return FailingIterable(fault_exception(fault.get('exc'), f'p{p}@iter'), log, p)
    return gen(p)

  def producer(p):
    try:
      q.enqueue_from_iterator(source(p))
      log.append(('prod_return', p))
    except core.SchedAbort:
      raise
    except BaseException as e:  # pylint: disable=broad-exception-caught
      log.append(('prod_raise', p, type(e).__name__, str(e)[:80]))
    finally:
      state['producers_ended'] += 1

  def raw_full():
    full = getattr(q._queue, 'full', None)  # pylint: disable=protected-access
    return bool(full()) if full is not None else False   # SimpleQueue: unbounded

  def close_stream():
    # Producers that put_nowait() are not registered enqueuers: the stream is closed
    # through the public maybe_stop() once all of them are done ('after_drain': only once
    # the buffer was emptied by the consumers, i.e. the stop never has to wake a consumer
    # for an element that is already queued).
    if case.get('close') == 'after_drain':
      log.append(('close_wait',))
      core.ACTIVE.block(lambda: q._queue.empty(), 'closer.wait_drained')  # pylint: disable=protected-access
    log.append(('close',))
    q.maybe_stop()

  def poll_producer(p):
    try:
      for i in range(lens[p]):
        log.append(('produce', p, i))
        state['produced'] += 1
        core.ACTIVE.yield_point('user-gen')
        polls = 0
        while True:
          polls += 1
          if polls > max_polls:
            state['poll_bound_hit'] += 1
            log.append(('prod_quit', p, i))
            return
          state['put_nowait_calls'] += 1
          try:
            q.put_nowait((p, i))
            break
          except (_queue.Full, asyncio.QueueFull):
            # 'try again': re-polls once a put_nowait() could succeed (a pure spinner
            # would starve everyone under PCT; the result of the poll cannot change
            # before that).
            state['full_seen'] += 1
            core.ACTIVE.yield_point('spin')
            core.ACTIVE.block(lambda: not raw_full(), f'poll.retry(P{p})')
      log.append(('prod_return', p))
    except core.SchedAbort:
      raise
    except BaseException as e:  # pylint: disable=broad-exception-caught
      log.append(('prod_raise', p, type(e).__name__, str(e)[:80]))
    state['producers_ended'] += 1
    if state['producers_ended'] == P:
      try:
        close_stream()
      except core.SchedAbort:
        raise
      except BaseException as e:  # pylint: disable=broad-exception-caught
        log.append(('stop_raised', type(e).__name__, str(e)[:80]))

  def check_invariants(where):
    if stop:
      # A stop is a cancellation: an element put by a producer that was already
      # past its enqueue_done test may land after the queue was drained.
      return
    with q._states_lock:  # pylint: disable=protected-access
      st, sp, mx = q._enqueue_start, q._enqueue_stop, q._max_enqueuer  # pylint: disable=protected-access
      if not (0 <= sp <= st <= max(mx, st)):
        log.append(('invariant', where, f'start={st} stop={sp} max={mx}'))
      if q.exhausted and q.exception is None and not q._queue.empty():  # pylint: disable=protected-access
        log.append(('invariant', where, 'exhausted but raw queue not empty'))
      if q.exhausted and not q.enqueue_done:
        log.append(('invariant', where, 'exhausted but enqueue not done'))

  def consumer(c, mode):
    it = None
    max_ops = case.get('consumer_max_ops')
    ops = 0
    retries = 0
    polls = 0

    def dequeue(m):
      # One dequeue operation of a retrying consumer (timing scenarios).
      nonlocal it
      if m == 'get':
        return [q.get()]
      if m.startswith('batch_nb:'):
        return q.get_batch(int(m.split(':')[1]), block=False)
      if m.startswith('batch_b:'):
        return q.get_batch(int(m.split(':')[1]), block=True)
      if m == 'batch0':
        return q.get_batch()
      if m == 'iter':
        if it is None:
          it = q.dequeue_as_iterator()
        return [next(it)]
      raise ValueError(m)

    try:
      if cnaps and cnaps[c] == 'late':
        # An absent consumer: it only turns up once every producer has returned.
        core.ACTIVE.block(lambda: state['producers_ended'] >= P, 'consumer.late')
      while True:
        if max_ops is not None and ops >= max_ops:
          log.append(('end', c, 'quit', ()))
          return
        ops += 1
        if cnaps and cnaps[c] != 'late' and ops <= cnaps[c]:
          nap()
        if away:
          # A consumer that is busy elsewhere between its queue operations (see
          # away_variants): it only comes back once the producers need it (buffer full)
          # or have all returned.  It is PARKED meanwhile (not runnable, not a timed wait).
          log.append(('away', c))
          core.ACTIVE.block(lambda: raw_full() or state['producers_ended'] >= P,
                            f'consumer.away(C{c})')
          log.append(('op', c, mode))
        m = mode
        was_exhausted = q.exhausted
        if mode == 'mixed':
          m = rnd.choice(['get', 'batch_nb:2', 'batch_b:2', 'batch0'])
        if retry:
          log.append(('op', c, m))
          try:
            vals = dequeue(m)
          except TimeoutError as e:
            # A timeout is a retriable condition as long as the queue has not failed
            # (bounded: a consumer that keeps timing out gives up with the error).
            if q.exception is not None or retries >= retry:
              raise
            retries += 1
            log.append(('retry', c, m, 'TimeoutError', str(e)[:60]))
            continue
          if not vals and was_exhausted:
            log.append(('end', c, 'exc', 'EmptyBatchAfterExhausted', m))
            return
          for v in vals:
            log.append(('recv', c, v[0], v[1]))
          check_invariants(f'c{c}')
          continue
        if m == 'get':
          vals = [q.get()]
        elif m == 'nowait':
          try:
            vals = [q.get_nowait()]
          except (_queue.Empty, asyncio.QueueEmpty):
            vals = []
            core.ACTIVE.yield_point('spin')
            # A pure spinner can starve everyone under PCT; block until there
            # is something to do.
            core.ACTIVE.block(
                lambda: not q._queue.empty() or q.enqueue_done or q.exhausted,  # pylint: disable=protected-access
                'consumer.spin')
        elif m == 'poll':
          # A consumer that only ever calls the public get_nowait(): queue.Empty means
          # 'try again'.  It re-polls once the outcome of a poll can have changed
          # (get_nowait() raises Empty exactly while the buffer is empty and the queue is
          # neither done nor exhausted), so it never spins and never masks a verdict.
          polls += 1
          if polls > max_polls:
            state['poll_bound_hit'] += 1
            log.append(('end', c, 'quit', ()))
            return
          state['get_nowait_calls'] += 1
          try:
            vals = [q.get_nowait()]
          except (_queue.Empty, asyncio.QueueEmpty) as e:
            if e is q.exception:
              raise
            vals = []
            state['empty_seen'] += 1
            core.ACTIVE.yield_point('spin')
            core.ACTIVE.block(
                lambda: not q._queue.empty() or q.enqueue_done or q.exhausted,  # pylint: disable=protected-access
                f'poll.retry(C{c})')
        elif m.startswith('batch_nb:'):
          vals = q.get_batch(int(m.split(':')[1]), block=False)
        elif m.startswith('batch_b:'):
          vals = q.get_batch(int(m.split(':')[1]), block=True)
        elif m == 'batch0':
          vals = q.get_batch()
        elif m == 'iter':
          if it is None:
            it = q.dequeue_as_iterator()
          vals = [next(it)]
        else:
          raise ValueError(m)
        if not vals and was_exhausted and m not in ('nowait', 'poll'):
          # Once the queue is exhausted every dequeue call ends the stream (or
          # raises the recorded exception); an empty batch is neither.
          log.append(('end', c, 'exc', 'EmptyBatchAfterExhausted', m))
          return
        for v in vals:
          log.append(('recv', c, v[0], v[1]))
        check_invariants(f'c{c}')
    except StopIteration as e:
      log.append(('end', c, 'stop', tuple(e.args)))
    except core.SchedAbort:
      raise
    except BaseException as e:  # pylint: disable=broad-exception-caught
      if rejects_notes(case):
        # 'the original exception or an error chaining it'
        log.append(('end_chain', c, exception_chain(e)))
      log.append(('end', c, 'exc', type(e).__name__, str(e)[:80]))
    finally:
      state['consumers_ended'] += 1

  def stopper():
    k = stop['after']
    s = core.ACTIVE
    s.block(lambda: (state['produced'] >= k
                     or state['consumers_ended'] >= C
                     or state['producers_ended'] >= P), 'stopper.wait')
    log.append(('stop_request', bool(stop.get('exc'))))
    try:
      q.maybe_stop(StopRequest('stop!') if stop.get('exc') else None)
      log.append(('stop_returned',))
    except core.SchedAbort:
      raise
    except BaseException as e:  # pylint: disable=broad-exception-caught
      log.append(('stop_raised', type(e).__name__, str(e)[:80]))

  modes = case['modes']
  for p in range(P):
    sched.spawn(poll_producer if case.get('prod_kind') == 'poll' else producer,
                name=f'P{p}', args=(p,))
  for c in range(C):
    sched.spawn(consumer, name=f'C{c}', args=(c, modes[c % len(modes)]))
  if stop:
    sched.spawn(stopper, name='S')
  sched.run(watchdog_s)
  return sched, log, info


def analyse(case, sched, log):
  """Offline checker over the event log. Returns list of (kind, detail)."""
  P, C, lens = case['P'], case['C'], case['lens']
  fault, stop = case.get('fault'), case.get('stop')
  out = []
  if sched.status == 'deadlock':
    out.append(('deadlock', sched.witness))
    return out
  if sched.status != 'ok':
    return out  # inconclusive, handled by the caller
  produced = [(e[1], e[2]) for e in log if e[0] == 'produce']
  recv = [(e[1], e[2], e[3]) for e in log if e[0] == 'recv']
  ids = [(p, i) for (_, p, i) in recv]
  if len(set(ids)) != len(ids):
    dup = sorted({x for x in ids if ids.count(x) > 1})
    out.append(('duplicate', dup[:5]))
  if not set(ids) <= set(produced):
    out.append(('phantom', sorted(set(ids) - set(produced))[:5]))
  # per-consumer per-producer order
  last = {}
  for (c, p, i) in recv:
    if last.get((c, p), -1) >= i:
      out.append(('order', {'consumer': c, 'producer': p, 'prev': last[(c, p)],
                            'got': i}))
      break
    last[(c, p)] = i
  for e in log:
    if e[0] == 'invariant':
      out.append(('invariant', e[1:]))
  ends = {e[1]: e for e in log if e[0] == 'end'}
  errs = sched.thread_errors()
  if errs:
    out.append(('thread_error', {k: repr(v) for k, v in errs.items()}))
  quitting = case.get('consumer_max_ops') is not None
  # Producers that put_nowait() are not enqueuers: they have no way to return a value.
  want_returned = [] if case.get('prod_kind') == 'poll' else sorted(f'r{p}' for p in range(P))
  if not fault and not stop:
    raised = [e for e in log if e[0] == 'stop_raised']
    if raised:
      out.append(('stop_raised', raised[0][1:]))
    expected_all = {(p, i) for p in range(P) for i in range(lens[p])}
    if not quitting and set(ids) != expected_all:
      out.append(('lost', sorted(expected_all - set(ids))[:5]))
    for c in range(C):
      e = ends.get(c)
      if e is None:
        out.append(('consumer_no_end', c))
      elif e[2] == 'quit':
        pass
      elif e[2] != 'stop':
        out.append(('consumer_bad_end', e[1:]))
      elif sorted(map(str, e[3])) != want_returned:
        out.append(('returned_values', {'consumer': c, 'got': list(e[3])}))
    for p in range(P):
      if ('prod_return', p) not in log:
        out.append(('producer_no_return', p))
  elif fault:
    # Every consumer that kept consuming ends with the producer's exception.
    want_exc = {None: 'InjectedError', 'QueueEmpty': 'QueueEmpty'}.get(
        fault.get('exc'), fault.get('exc'))
    chains = {e[1]: e[2] for e in log if e[0] == 'end_chain'}
    for c in range(C):
      e = ends.get(c)
      if e is None:
        out.append(('consumer_no_end', c))
      elif e[2] == 'quit':
        pass
      elif e[2] == 'stop':
        out.append(('clean_end_after_failure', {'consumer': c}))
      elif e[3] != want_exc and not (rejects_notes(case) and want_exc in chains.get(c, ())):
        # (an exception that cannot carry a note may be reported by an error chaining it)
        out.append(('wrong_exception', e[1:]))
    for p in range(P):
      ended = [e for e in log if e[0] in ('prod_return', 'prod_raise') and e[1] == p]
      if not ended:
        out.append(('producer_no_return', p))
      elif p == fault['p'] and ended[0][0] != 'prod_raise':
        out.append(('failing_producer_returned_cleanly', p))
  elif stop:
    stop_with_exc = bool(stop.get('exc'))
    raised = [e for e in log if e[0] == 'stop_raised']
    if raised:
      out.append(('stop_raised', raised[0][1:]))
    for c in range(C):
      e = ends.get(c)
      if e is None:
        out.append(('consumer_no_end', c))
      elif e[2] == 'quit':
        pass
      elif stop_with_exc:
        # Consumers may have finished cleanly before the stop arrived only if
        # everything had been consumed; otherwise they must see the exception.
        if e[2] == 'exc' and e[3] != 'StopRequest':
          out.append(('wrong_exception', e[1:]))
      elif e[2] != 'stop':
        out.append(('consumer_bad_end', e[1:]))
    for p in range(P):
      ended = [e for e in log if e[0] in ('prod_return', 'prod_raise') and e[1] == p]
      if not ended:
        out.append(('producer_no_return', p))
      elif ended[0][0] == 'prod_raise':
        out.append(('producer_raised_on_stop', ended[0][1:]))
  return out


def classify_notes_fault(case, kind, log, info):
  """Key of a violation in a case whose fault exception rejects notes (else None).

  Input class (the generator injected an exception that refuses add_note) + recorded
  evidence: the fault fired, the failing producer did not leave enqueue_from_iterator with
  the injected exception but with a secondary error (or not at all), and the queue never
  recorded a failure.  Anything else on these inputs keeps a generic key.
  """
  if not rejects_notes(case):
    return None
  fault = case['fault']
  p = fault['p']
  fired = any(e[0] == 'fail' and e[1] == p for e in log)
  ended = [e for e in log if e[0] in ('prod_return', 'prod_raise') and e[1] == p]
  secondary = (not ended) or (ended[0][0] == 'prod_raise' and ended[0][2] != fault['exc'])
  unrecorded = info['queue'].exception is None
  if fired and secondary and unrecorded:
    return MECH_FAILURE_NOT_RECORDED_NOTES
  return None


# -- timing scenarios: sleeping threads, timeouts that fire mid-stream -------------

TIMING_SCENARIOS = ('slow_consumer', 'late_consumer', 'slow_producer')
MECH_PUT_TIMEOUT_DROP = 'ignore-error-queue-drops-element-on-put-timeout'
MECH_GET_BATCH_TIMEOUT_DROP = 'get-batch-timeout-drops-dequeued-elements'


def timing_variants(cfg, rng):
  """Timing variants of one configuration (see C04.gen_config).

  slow_consumer / late_consumer: bounded queue with a timeout; the consumers sleep
  before their first operations (or only turn up once the producers have returned), so
  a put() on the full buffer may time out; with and without ignore_error.
  slow_producer: queue with a timeout; the sources sleep before some elements, so a
  blocked dequeue may time out; the consumers retry after a TimeoutError.
  In all of them every thread goes on until the stream ends or an error is reported.
  """
  out = []
  P, C = cfg['P'], cfg['C']
  base = dict(cfg, timeout=3.0, fault=None, stop=None, trace_queue=True, retry=40)
  # -- starved put -------------------------------------------------------------------
  cap = cfg['cap'] or rng.choice([1, 2])
  flavour = cfg['flavour'] if cfg['cap'] else rng.choice(['default', 'queue', 'asyncio'])
  lens = list(cfg['lens'])
  one = rng.randrange(P)
  lens[one] = max(lens[one], cap + rng.randint(1, 3))   # at least one put must block
  bounded = dict(base, cap=cap, flavour=flavour, lens=lens)
  naps = [rng.randint(1, 3) for _ in range(C)]
  ignore = rng.random() < 0.75
  out.append(dict(bounded, scn='slow_consumer', cnaps=naps, ignore_error=ignore))
  out.append(dict(bounded, scn='slow_consumer', cnaps=naps, ignore_error=not ignore))
  out.append(dict(bounded, scn='late_consumer', cnaps=['late'] * C, ignore_error=True))
  # -- starved get -------------------------------------------------------------------
  lens = [max(l, rng.choice([1, 2, 3])) for l in cfg['lens']]
  pnaps = [sorted(rng.sample(range(n + 1), rng.randint(0, min(2, n + 1)))) for n in lens]
  if not any(pnaps):
    p = rng.randrange(P)
    pnaps[p] = [rng.randint(0, lens[p])]
  slow = dict(base, scn='slow_producer', lens=lens, pnaps=pnaps)
  out.append(slow)
  modes = list(cfg['modes'])
  modes[rng.randrange(len(modes))] = f'batch_b:{rng.choice([2, 3, 4])}'
  out.append(dict(slow, modes=modes))
  return out


def _next_event_of_consumer(log, start, c):
  for e in log[start:]:
    if e[0] in ('op', 'retry', 'end') and e[1] == c:
      return e
  return None


def analyse_timing(case, sched, log, info):
  """Oracle of the timing scenarios. Returns list of (kind, detail).

  No produced element may vanish silently: each one is received by a consumer, is still
  in the buffer, or somebody was told (a producer raised, the queue recorded an
  exception, a consumer ended with an exception).  TimeoutErrors that a consumer
  retried are not such a report: the queue was neither failed nor stopped.
  """
  P, C, lens = case['P'], case['C'], case['lens']
  if sched.status == 'deadlock':
    return [('deadlock', sched.witness)]
  if sched.status != 'ok':
    return []
  out = []
  produced = [(e[1], e[2]) for e in log if e[0] == 'produce']
  recv = [(e[1], e[2], e[3]) for e in log if e[0] == 'recv']
  ids = [(p, i) for (_, p, i) in recv]
  if len(set(ids)) != len(ids):
    out.append(('duplicate', sorted({x for x in ids if ids.count(x) > 1})[:5]))
  if not set(ids) <= set(produced):
    out.append(('phantom', sorted(set(ids) - set(produced))[:5]))
  last = {}
  for (c, p, i) in recv:
    if last.get((c, p), -1) >= i:
      out.append(('order', {'consumer': c, 'producer': p, 'prev': last[(c, p)], 'got': i}))
      break
    last[(c, p)] = i
  for e in log:
    if e[0] == 'invariant':
      out.append(('invariant', e[1:]))
  errs = sched.thread_errors()
  if errs:
    out.append(('thread_error', {k: repr(v) for k, v in errs.items()}))
  ends = {e[1]: e for e in log if e[0] == 'end'}
  for c in range(C):
    if c not in ends:
      out.append(('consumer_no_end', c))
  prod_end = {e[1]: e for e in log if e[0] in ('prod_return', 'prod_raise')}
  for p in range(P):
    if p not in prod_end:
      out.append(('producer_no_return', p))
  q = info['queue']
  residual = []
  raw = q._queue  # pylint: disable=protected-access
  raw = getattr(raw, 'raw', raw)   # not through the recorder: this is the harness draining
  while True:
    try:
      residual.append(tuple(raw.get_nowait()))
    except (_queue.Empty, asyncio.QueueEmpty):
      break
  info['residual'] = residual
  reports = ([f'P{e[1]} raised {e[2]}' for e in prod_end.values() if e[0] == 'prod_raise']
             + [f'C{e[1]} ended with {e[3]}' for e in ends.values() if e[2] == 'exc']
             + ([f'queue.exception={type(q.exception).__name__}'] if q.exception is not None
                else []))
  info['reports'] = reports
  lost = sorted(set(produced) - set(ids) - set(residual))
  if not reports:
    for c, e in sorted(ends.items()):
      if e[2] == 'stop' and sorted(map(str, e[3])) != sorted(f'r{p}' for p in range(P)):
        out.append(('returned_values', {'consumer': c, 'got': list(e[3])}))
    if lost:
      why = {}
      for v in lost:
        enq = any(e[0] == 'enq' and tuple(e[2]) == v for e in log)
        put_to = any(e[0] == 'put_timeout' and tuple(e[2]) == v for e in log)
        deq = [(n, e) for n, e in enumerate(log) if e[0] == 'deq' and tuple(e[2]) == v]
        if not enq and put_to:
          why[v] = 'put_timeout_swallowed'
        elif deq and deq[0][1][1].startswith('C'):
          c = int(deq[0][1][1][1:])
          nxt = _next_event_of_consumer(log, deq[0][0], c)
          if nxt is not None and nxt[0] == 'retry' and nxt[2].startswith('batch'):
            why[v] = f'dequeued_by_get_batch_that_timed_out:{nxt[2]}'
          else:
            why[v] = f'dequeued_by_C{c}_not_delivered'
        else:
          why[v] = 'enqueued_never_dequeued' if enq else 'never_enqueued'
      out.append(('silent_loss', {
          'lost': [list(v) for v in lost[:6]], 'why': {f'{v[0]},{v[1]}': w for v, w in why.items()},
          'consumer_ends': [list(e[1:3]) for e in ends.values()],
          'producer_ends': [list(e[:2]) for e in prod_end.values()],
          'queue_exception': None, 'residual_in_buffer': len(residual)}))
  return out


# -- a consumer that stays away after ONE get_batch() freed several slots -------------

MECH_GET_BATCH_WAKES_ONE = 'get-batch-frees-n-slots-wakes-one-producer'


def away_variants(cfg, rng):
  """'batch_then_away' variant of one configuration (see C04.gen_config).

  Bounded buffer of 2-3 with a timeout, 2-4 registered producers with 2-4 elements each
  (so that several of them block in put() on the full buffer), ONE consumer that only
  dequeues through get_batch() (directly or through the iterator, which caches a batch)
  and is away between its queue operations: it is parked until the buffer is full again
  or every producer has returned.  No thread is ever starved for longer than it takes its
  peers to run: a TimeoutError in such a run is spurious (fault-free oracle).
  """
  P = cfg['P'] if cfg['P'] >= 2 else rng.choice([2, 3])
  cap = cfg['cap'] if cfg['cap'] >= 2 else rng.choice([2, 3])
  flavour = cfg['flavour'] if cfg['flavour'] != 'simple' else rng.choice(['default', 'queue', 'asyncio'])
  lens = [rng.randint(2, 4) for _ in range(P)]
  return [dict(cfg, scn='batch_then_away', away=True, P=P, lens=lens, C=1, cap=cap,
               flavour=flavour, preset=True, timeout=3.0, fault=None, stop=None,
               ignore_error=False, trace_queue=True, retry=0,
               modes=[rng.choice(['batch0', 'iter'])])]


def away_evidence(case, log):
  """A put() that timed out while the buffer had room, after a dequeue operation of the
  (get_batch-only) consumer that had freed >= 2 slots at once; None if there is none."""
  cap = case['cap']
  for n, e in enumerate(log):
    if e[0] != 'put_timeout':
      continue
    ops = [i for i, x in enumerate(log[:n]) if x[0] == 'op']
    freed = sum(1 for x in log[ops[-1]:n] if x[0] == 'deq') if ops else 0
    occ = _occupancy(log, n)
    if occ < cap and freed >= 2:
      return {'producer': e[1], 'element': list(e[2]), 'buffered': occ, 'capacity': cap,
              'slots_freed_by_last_get_batch': freed}
  return None


def analyse_away(case, sched, log):
  """Fault-free oracle (analyse) + key by input class and recorded evidence."""
  problems = analyse(case, sched, log)
  ev = away_evidence(case, log)
  out = []
  for kind, detail in problems:
    mech = f'{case["scn"]}:queue-{kind}{deadlock_sites(kind, detail)}'
    spurious_timeout = (
        (kind == 'consumer_bad_end' and detail[2] == 'TimeoutError')
        or kind in ('lost', 'producer_no_return'))
    if ev and spurious_timeout:
      mech = MECH_GET_BATCH_WAKES_ONE
    out.append((kind, detail, mech))
  return out, ev


def deadlock_sites(kind, detail):
  """'[C:get,P:put]' for a deadlock witness (who is stuck in which queue method)."""
  if kind != 'deadlock' or not isinstance(detail, dict):
    return ''
  sites = set()
  for name, v in detail.items():
    st = [s for s in (v.get('stack') or []) if s.startswith('iter_utils.py')]
    fn = st[-1].split(':')[-1] if st else '?'
    sites.add(f'{name[0]}:{fn}')
  return '[' + ','.join(sorted(sites)) + ']'


def classify_timing(case, kind, detail):
  """Stable key of a root cause, by scenario and recorded evidence (None = no special key)."""
  if kind != 'silent_loss' or not isinstance(detail, dict):
    return None
  whys = set(detail.get('why', {}).values())
  scn = case.get('scn')
  if (scn in ('slow_consumer', 'late_consumer') and case.get('ignore_error')
      and whys == {'put_timeout_swallowed'}):
    return MECH_PUT_TIMEOUT_DROP
  if (scn == 'slow_producer' and case.get('retry') and whys
      and all(w.startswith('dequeued_by_get_batch_that_timed_out:batch_b') for w in whys)):
    return MECH_GET_BATCH_TIMEOUT_DROP
  return None


# -- polling workloads: one side uses the public non-blocking operation -------------

POLL_CLASSES = ('consumer_polls', 'consumer_polls_any_cap', 'producer_polls', 'both_poll')
MECH_GET_NOWAIT_UNHELD = 'get-nowait-end-detection-notifies-unheld-condition'
MECH_NOWAIT_NO_HANDSHAKE = 'nowait-ops-skip-condition-handshake:'
_UNHELD_TEXT = 'cannot notify on un-acquired lock'
_BLOCKING_MODES = ['get', 'get', 'batch_nb:1', 'batch_nb:2', 'batch_b:2', 'batch_b:3', 'batch0',
                   'iter', 'mixed']


def poll_variants(cfg, rng):
  """Polling variants of one configuration (see C04.gen_config).

  consumer_polls: bounded buffer (1-3), producers block in enqueue_from_iterator -> put(),
    at least one of them has more elements than the buffer holds; one or all consumers only
    call get_nowait() (queue.Empty = try again), the others keep their blocking mode.
  consumer_polls_any_cap: the configuration as generated (also unbounded), one or all
    consumers poll.
  producer_polls: all producers call put_nowait() (queue.Full = try again) and are not
    registered enqueuers; the last one to finish closes the stream with maybe_stop(),
    either at once or only after the consumers emptied the buffer; consumers block.
  both_poll: both of the above.
  Oracle as for every fault-free case (qwork.analyse) + exact deadlock detection.
  """
  P, C = cfg['P'], cfg['C']
  base = dict(cfg, fault=None, stop=None, trace_queue=True, max_polls=400)
  out = []

  def with_pollers(modes):
    modes = [m if m != 'poll' else 'get' for m in modes]
    modes = (modes * C)[:C]
    if rng.random() < 0.5:
      return ['poll'] * C
    modes[rng.randrange(C)] = 'poll'
    return modes

  # -- blocked producer, polling consumer ----------------------------------------------
  cap = cfg['cap'] or rng.choice([1, 2, 3])
  flavour = cfg['flavour'] if cfg['cap'] else rng.choice(['default', 'queue', 'asyncio'])
  lens = list(cfg['lens'])
  one = rng.randrange(P)
  lens[one] = max(lens[one], cap + rng.randint(1, 3))   # at least one put() must block
  out.append(dict(base, pollcls='consumer_polls', cap=cap, flavour=flavour, lens=lens,
                  modes=with_pollers(cfg['modes'])))
  out.append(dict(base, pollcls='consumer_polls_any_cap', modes=with_pollers(cfg['modes'])))
  # -- blocked consumer, polling producer ----------------------------------------------
  lens = list(cfg['lens'])
  if not any(lens):
    lens[rng.randrange(P)] = rng.randint(1, 3)
  blocking = [m if m != 'poll' else rng.choice(_BLOCKING_MODES) for m in (cfg['modes'] * C)[:C]]
  close = rng.choice(['after_drain', 'after_drain', 'immediately'])
  out.append(dict(base, pollcls='producer_polls', prod_kind='poll', preset=False, lens=lens,
                  modes=blocking, close=close))
  out.append(dict(base, pollcls='both_poll', prod_kind='poll', preset=False, lens=lens,
                  modes=with_pollers(blocking),
                  close=rng.choice(['after_drain', 'immediately'])))
  return out


def _occupancy(log, upto):
  n = 0
  for e in log[:upto]:
    if e[0] == 'enq':
      n += 1
    elif e[0] == 'deq':
      n -= 1
  return n


def _in_queue_method(entry, names):
  """Is the witness entry a thread asleep on a condition inside one of the queue methods?"""
  if not str(entry.get('blocked_on') or '').startswith('Condition'):
    return False
  frames = [s.split(':')[-1] for s in (entry.get('stack') or []) if s.startswith('iter_utils.py')]
  return bool(frames) and frames[-1] in names


def poll_evidence(case, sched, log):
  """What the record of a polling case says, independent of the verdict.

  unheld:       poll consumers whose direct get_nowait() raised the condition's
                'cannot notify on un-acquired lock' (+ the elements those calls had popped).
  starved_put:  a blocking producer asleep in put() (deadlock witness) or timed out in put()
                while the buffer had room, the last element having been taken out by a poll
                consumer's direct get_nowait().
  starved_get:  a blocking consumer asleep in get()/get_batch() (deadlock witness) or timed out
                there while the buffer held an element put by a producer's direct put_nowait().
  """
  C, cap = case['C'], case['cap']
  modes = [case['modes'][c % len(case['modes'])] for c in range(C)]
  ev = {'unheld': [], 'popped_by_unheld': [], 'starved_put': None, 'starved_get': None}
  for n, e in enumerate(log):
    if (e[0] == 'end' and e[2] == 'exc' and modes[e[1]] == 'poll' and e[3] == 'RuntimeError'
        and _UNHELD_TEXT in e[4]):
      c = e[1]
      ev['unheld'].append(c)
      mine = [x for x in log[:n] if (x[0] == 'deq' and x[1] == f'C{c}')
              or (x[0] == 'recv' and x[1] == c)]
      if mine and mine[-1][0] == 'deq':
        ev['popped_by_unheld'].append(tuple(mine[-1][2]))
  witness = sched.witness if sched.status == 'deadlock' and isinstance(sched.witness, dict) else {}

  def last_actor(kind, upto):
    for e in reversed(log[:upto]):
      if e[0] == kind:
        return e[1]
    return None

  def polling_consumer(name):
    return bool(name) and name[0] == 'C' and name[1:].isdigit() and modes[int(name[1:])] == 'poll'

  if case.get('prod_kind') != 'poll' and cap and 'poll' in modes:
    moments = [(len(log), name, 'asleep in put()') for name, v in sorted(witness.items())
               if name[0] == 'P' and _in_queue_method(v, ('put',))]
    moments += [(n, e[1], 'put() timed out') for n, e in enumerate(log) if e[0] == 'put_timeout']
    for n, name, what in moments:
      occ, by = _occupancy(log, n), last_actor('deq', n)
      if occ < cap and polling_consumer(by):
        ev['starved_put'] = {'producer': name, 'what': what, 'buffered': occ, 'capacity': cap,
                             'last_dequeue_by': f'{by} (direct get_nowait)'}
        break
  if case.get('prod_kind') == 'poll':
    moments = [(len(log), name, 'asleep in get()/get_batch()')
               for name, v in sorted(witness.items())
               if name[0] == 'C' and not polling_consumer(name)
               and _in_queue_method(v, ('get', 'get_batch'))]
    moments += [(n, f'C{e[1]}', 'dequeue timed out') for n, e in enumerate(log)
                if e[0] == 'end' and e[2] == 'exc' and e[3] == 'TimeoutError'
                and modes[e[1]] != 'poll']
    for n, name, what in moments:
      occ, by = _occupancy(log, n), last_actor('enq', n)
      if occ > 0 and by and by[0] == 'P':
        ev['starved_get'] = {'consumer': name, 'what': what, 'buffered': occ,
                             'last_enqueue_by': f'{by} (direct put_nowait)'}
        break
  return ev


def classify_poll(case, kind, detail, ev, lost):
  """Stable key of a root cause: input class of the case + recorded evidence."""
  generic = f'{case["pollcls"]}:queue-{kind}{deadlock_sites(kind, detail)}'
  handshake = None
  if ev['starved_put']:
    handshake = MECH_NOWAIT_NO_HANDSHAKE + 'get_nowait'
  elif ev['starved_get']:
    handshake = MECH_NOWAIT_NO_HANDSHAKE + 'put_nowait'
  if kind == 'deadlock':
    return handshake or generic
  if kind == 'consumer_bad_end':
    c, exc = detail[0], detail[2]
    if c in ev['unheld']:
      return MECH_GET_NOWAIT_UNHELD
    # the spurious timeout of the starved peer, as every consumer gets to see it
    if exc == 'TimeoutError' and handshake:
      return handshake
    return generic
  if kind == 'lost':
    if lost and set(lost) <= set(ev['popped_by_unheld']):
      return MECH_GET_NOWAIT_UNHELD
    timed_out = ((ev['starved_put'] or {}).get('what') == 'put() timed out'
                 or (ev['starved_get'] or {}).get('what') == 'dequeue timed out')
    return handshake if handshake and timed_out else generic
  if kind == 'producer_no_return' and (ev['starved_put'] or {}).get('what') == 'put() timed out':
    return handshake
  return generic


def analyse_poll(case, sched, log):
  """Oracle of the polling cases: the fault-free oracle; adds the evidence + keys."""
  problems = analyse(case, sched, log)
  ev = poll_evidence(case, sched, log)
  got = {(e[2], e[3]) for e in log if e[0] == 'recv'}
  lost = sorted({(p, i) for p in range(case['P']) for i in range(case['lens'][p])} - got)
  return [(kind, detail, classify_poll(case, kind, detail, ev, lost)) for kind, detail in problems], ev
