"""Module-level definitions for the C06 abort scenarios (iterate_abort, interleaved_failure).

Everything shipped to a "remote" worker is importable here, so cloudpickle ships
it by reference.
"""

from __future__ import annotations

import functools
import sys
import threading
import time

from vlib import c16lib

APP_ERROR_MARK = 'c06-application-error'


# -- the family of application errors -----------------------------------------------
#
# What an application raises is its own business: a plain ValueError, an exception of a
# library that carries attributes (`code`, `errno`, ...), a parser error.  A spec is a
# JSON-able dict; the exception object is built on the side that raises it.


class CodedError(Exception):
  """A user exception that carries an attribute `code` (HTTPError.code, SystemExit.code,
  click / grpc / expat style error objects do the same)."""

  def __init__(self, message, code=0):
    super().__init__(message)
    self.code = code

  def __reduce__(self):
    return (CodedError, (self.args[0], self.code))


_MALFORMED = {
    'invalid_token': '<a>\x01</a>',     # expat: not well-formed (invalid token), code 4
    'mismatched_tag': '<a><b></a>',     # expat: mismatched tag, code 7
    'no_element': '<a>',                # expat: no element found, code 3
}
_PARSE_TEXT = {'invalid_token': 'not well-formed (invalid token)',
               'mismatched_tag': 'mismatched tag', 'no_element': 'no element found'}

# (errno 110 is left out: OSError(ETIMEDOUT) IS a TimeoutError, which the workers' own
#  protocol uses for "retry this shard")
EXC_FAMILY = [
    {'type': 'value'},
    {'type': 'coded', 'code': 4},
    {'type': 'coded', 'code': 0},
    {'type': 'parse', 'doc': 'invalid_token'},
    {'type': 'coded', 'code': 3},
    {'type': 'oserror', 'errno': 4},
    {'type': 'parse', 'doc': 'mismatched_tag'},
    {'type': 'coded', 'code': 'x'},
    {'type': 'oserror', 'errno': 2},
    {'type': 'parse', 'doc': 'no_element'},
    {'type': 'oserror', 'errno': 5},
]


def make_app_error(spec, what):
  """The exception object of an application error described by `spec`."""
  kind = (spec or {}).get('type', 'value')
  text = f'{APP_ERROR_MARK}: {what}'
  if kind == 'value':
    return ValueError(text)
  if kind == 'coded':
    return CodedError(text, spec['code'])
  if kind == 'oserror':
    return OSError(spec['errno'], text)
  if kind == 'parse':
    from xml.etree import ElementTree
    try:
      ElementTree.fromstring(_MALFORMED[spec['doc']])
    except ElementTree.ParseError as e:
      return e
    raise AssertionError('the malformed document was parsed')
  raise ValueError(f'unknown application error spec {spec!r}')


def app_error_marks(spec, what):
  """Texts one of which an error that names / chains the original exception contains."""
  if (spec or {}).get('type') == 'parse':
    return [_PARSE_TEXT[spec['doc']]]
  return [f'{APP_ERROR_MARK}: {what}']


def app_error_key(spec):
  """Stable name of the input class of an application error."""
  kind = (spec or {}).get('type', 'value')
  if kind == 'coded':
    return f'user-exception-code-{spec["code"]}'
  if kind == 'oserror':
    return f'oserror-errno-{spec["errno"]}'
  if kind == 'parse':
    return f'parse-error-{spec["doc"]}'
  return 'valueerror'


def app_error_code_attr(spec):
  """The attribute `code` of the exception object the generator put in (None: it has none)."""
  return getattr(make_app_error(spec, ''), 'code', None)


def op_failing(xs, value=-1, exc=None):
  """Application error on the record that contains `value`."""
  if value in xs:
    if exc is not None:
      raise make_app_error(exc, f'record with {value} failed')
    raise ValueError(f'{APP_ERROR_MARK}: record with {value} failed')
  return list(xs)


def task_fn(task_id, exc=None):
  """Uniquely numbered task for as_completed / WorkerPool.run; fails with `exc` if given."""
  if exc is not None:
    raise make_app_error(exc, f'task {task_id} failed')
  return ('done', task_id)


def transport_call_stats(addresses):
  """(init_generator calls issued, data-plane calls that ended in a transport deadline)."""
  n_init = n_deadline = 0
  for a, m, f in list(TRACK['calls']):
    if a not in addresses or m == 'heartbeat':
      continue
    if m == 'init_generator':
      n_init += 1
    if f.done() and not f.cancelled() and getattr(f.exception(), 'code', 0) == 4:
      n_deadline += 1
  return n_init, n_deadline


# The pipeline builder of c16lib looks its ops up by name.
c16lib._OPS.setdefault('failing', op_failing)  # pylint: disable=protected-access


def read_records(spec, shard_index, num_shards):
  """A data source that reads (parses) its records one by one; one record is unreadable.

  Contiguous shards.  spec['fail_source'] = {'record': index, 'exc': exception spec}.
  """
  recs = c16lib.records(spec['n'], spec['rec'])
  fs = spec['fail_source']
  lo = shard_index * len(recs) // num_shards
  hi = (shard_index + 1) * len(recs) // num_shards
  for i in range(lo, hi):
    if i == fs['record']:
      raise make_app_error(fs.get('exc'), f'record {i} cannot be read')
    yield recs[i]


def define_pipeline(spec, shard_index=0, num_shards=1, with_source=True):
  """c16lib.define_pipeline plus the 'failing' op (resolved on the worker side)."""
  c16lib._OPS.setdefault('failing', op_failing)  # pylint: disable=protected-access
  if with_source and spec.get('fail_source'):
    # the error is raised by the data source itself (nothing of the library wraps it)
    from ml_metrics._src.chainables import transform
    stage = c16lib.define_pipeline(spec, shard_index=shard_index, num_shards=num_shards,
                                   with_source=False)
    source = transform.TreeTransform.new(name='datasource').data_source(
        read_records(spec, shard_index, num_shards))
    return source.chain(stage)
  return c16lib.define_pipeline(spec, shard_index=shard_index, num_shards=num_shards,
                                with_source=with_source)


# -- outputs that are slow to un-pickle on the driver (what a big batch is) --------

_NO_LOAD_COST = set()   # thread idents that un-pickle without the simulated cost


def _slow_load(v, delay):
  if delay and threading.get_ident() not in _NO_LOAD_COST:
    time.sleep(delay)      # real seconds: the un-pickling cost is CPU time of the driver
  return v


class SlowToLoad:
  """A batch output that takes `delay` s to un-pickle; it un-pickles to the plain list."""

  def __init__(self, v, delay):
    self.v, self.delay = v, delay

  def __reduce__(self):
    return (_slow_load, (self.v, self.delay))


def op_wrap_slow(xs, delay=0.0):
  return SlowToLoad(list(xs), delay)


def define_pipeline_slow_outputs(spec, shard_index=0, num_shards=1):
  """c16lib.define_pipeline, every output batch costs spec['load_delay'] s to un-pickle."""
  from ml_metrics._src.chainables import transform
  p = c16lib.define_pipeline(spec, shard_index=shard_index, num_shards=num_shards)
  return p.chain(transform.TreeTransform.new(name='wrap').apply(
      fn=functools.partial(op_wrap_slow, delay=spec.get('load_delay', 0.0))))


def reply_has_end_marker(pickled):
  """True if a next-batch reply carries the end marker of its generator.

  Looked at on the server side (handler thread), without the un-pickling cost.
  """
  from ml_metrics._src.chainables import lazy_fns
  me = threading.get_ident()
  _NO_LOAD_COST.add(me)
  try:
    elems = lazy_fns.pickler.loads(pickled)
  except Exception:  # pylint: disable=broad-exception-caught
    return False
  finally:
    _NO_LOAD_COST.discard(me)
  return isinstance(elems, list) and any(isinstance(e, StopIteration) for e in elems)


def tap_final_replies(server, on_final):
  """Re-binds the next-batch handler of `server` on its transport server.

  on_final() is called in the handler thread, before the reply leaves, for every
  reply that carries the end marker (the last reply of a shard).  The handler
  itself is the library's.
  """
  orig = server._next_batch  # pylint: disable=protected-access

  def handler(batch_size=0):
    r = orig(batch_size)
    if reply_has_end_marker(r):
      on_final()
    return r

  server._server.Bind('next_batch_from_generator', handler)  # pylint: disable=protected-access


# -- run_pipeline_interleaved ---------------------------------------------------


def apply_fn(x, delay=0.0):
  if delay:
    time.sleep(delay)
  return 3 * x + 1


def post_fn(x, fail_at=None):
  if fail_at is not None and x == 3 * fail_at + 1:
    raise ValueError(f'{APP_ERROR_MARK}: post-processing of element {fail_at} failed')
  return x + 7


def interleaved_pipeline(n, fail_at, delay=0.0):
  """datasource (in process) -> 'apply' (remote) -> 'post' (in process, may fail)."""
  from ml_metrics._src.chainables import transform
  T = transform.TreeTransform
  return (
      T.new(name='datasource').data_source(range(n))
      .chain(T.new(name='apply').apply(fn=functools.partial(apply_fn, delay=delay)))
      .chain(T.new(name='post').apply(fn=functools.partial(post_fn, fail_at=fail_at))))


def interleaved_reference(n):
  return sorted(3 * x + 1 + 7 for x in range(n))


# -- helpers ----------------------------------------------------------------------


def error_chain_text(exc, limit=12):
  """Text of an exception, its notes and its causes / contexts / sub-exceptions."""
  out, todo, seen = [], [exc], set()
  while todo and len(seen) < limit:
    e = todo.pop()
    if e is None or id(e) in seen:
      continue
    seen.add(id(e))
    out.append(f'{type(e).__name__}: {e} {getattr(e, "message", "")}')
    out.extend(str(n) for n in getattr(e, '__notes__', ()) or ())
    todo.extend([e.__cause__, e.__context__])
    todo.extend(getattr(e, 'exceptions', ()) or ())
  return '\n'.join(out)


TRACK = {'on': False, 'calls': []}   # (address, method, transport future)


def track_transport_calls(on):
  """Records the futures of every transport call issued while switched on."""
  import courier
  if not getattr(courier.Client, '_c06_tracked', False):
    orig = courier.Client._call  # pylint: disable=protected-access

    def _call(self, method, args, kwargs):
      fut = orig(self, method, args, kwargs)
      if TRACK['on']:
        TRACK['calls'].append((self._address, method, fut))  # pylint: disable=protected-access
      return fut

    courier.Client._call = _call  # pylint: disable=protected-access
    courier.Client._c06_tracked = True  # pylint: disable=protected-access
  TRACK['on'] = on
  TRACK['calls'] = []


def outstanding_calls(addresses):
  return [(a, m) for a, m, f in list(TRACK['calls']) if a in addresses and not f.done()]


def states_without_transport_call(worker):
  """Pending states of a client that no transport call backs (nothing completes them)."""
  futs = [f for a, _, f in list(TRACK['calls']) if a == worker.address]
  return [p for p in worker.pendings if all(p.state is not f for f in futs)]


def frames_named(threads, func_name):
  """Frames of the given threads that execute a function called func_name."""
  frames = sys._current_frames()  # pylint: disable=protected-access
  out = []
  for t in threads:
    fr = frames.get(t.ident)
    while fr is not None:
      if fr.f_code.co_name == func_name:
        out.append(fr)
        break
      fr = fr.f_back
  return out
