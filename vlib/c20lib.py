"""Module-level helpers shipped to "remote" workers by the C20 pool scenarios.

Everything here is importable, so cloudpickle ships it by reference and the
in-process transport stand-in shares the execution log with the harness.
"""

from __future__ import annotations

import threading
import time

# (task_id, name of the handler thread that ran it, start, end) - time.monotonic()
EXEC_LOG = []
_log_lock = threading.Lock()


def timed_task(task_id, dur):
  """Uniquely numbered task that records where and when it ran."""
  t0 = time.monotonic()
  time.sleep(dur)
  t1 = time.monotonic()
  with _log_lock:
    EXEC_LOG.append((task_id, threading.current_thread().name, t0, t1))
  return ('done', task_id)


def ran_on(thread_name, server_name):
  """True if the handler thread belongs to the transport server `server_name`."""
  prefix = f'fakecourier-server-{server_name}_'
  return thread_name.startswith(prefix) and thread_name[len(prefix):].isdigit()


class NoSignal:
  """Replaces the `signal` module inside courier_server."""

  SIGINT, SIGTERM, SIGABRT = 2, 15, 6

  @staticmethod
  def signal(*a, **k):
    return None


class Unpicklable:
  """An argument no pickler accepts (what a lock / open handle / generator is)."""

  def __reduce__(self):
    raise TypeError('this object cannot be pickled')

  def __repr__(self):
    return 'Unpicklable()'
