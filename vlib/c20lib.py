"""Module-level helpers shipped to "remote" workers by the C20 pool scenarios.

Everything here is importable, so cloudpickle ships it by reference and the
in-process transport stand-in shares the execution log with the harness.
"""

from __future__ import annotations

import threading
import time

# (task_id, name of the handler thread that ran it, start, end) - time.monotonic()
EXEC_LOG = []
_log_lock = threading.Lock()


def timed_task(task_id, dur):
  """Uniquely numbered task that records where and when it ran."""
  t0 = time.monotonic()
  time.sleep(dur)
  t1 = time.monotonic()
  with _log_lock:
    EXEC_LOG.append((task_id, threading.current_thread().name, t0, t1))
  return ('done', task_id)


def ran_on(thread_name, server_name):
  """True if the handler thread belongs to the transport server `server_name`."""
  prefix = f'fakecourier-server-{server_name}_'
  return thread_name.startswith(prefix) and thread_name[len(prefix):].isdigit()


class NoSignal:
  """Replaces the `signal` module inside courier_server."""

  SIGINT, SIGTERM, SIGABRT = 2, 15, 6

  @staticmethod
  def signal(*a, **k):
    return None


class Unpicklable:
  """An argument no pickler accepts (what a lock / open handle / generator is)."""

  def __reduce__(self):
    raise TypeError('this object cannot be pickled')

  def __repr__(self):
    return 'Unpicklable()'


# ---------------------------------------------------------------------------
# helpers of the scheduler-hosted 'run_siblings' scenario (C20 ownership mode)
# ---------------------------------------------------------------------------


class SchedClock:
  """`time` look-alike for library code running under the deterministic scheduler.

  The clock stands still (no give-up path is ever reached); sleep() is a
  scheduling point where every enabled thread may be chosen, so the polling
  loops of WorkerPool.run / Worker.submit cannot starve the other threads.
  """

  def __init__(self, now=1000.0):
    self.now = now

  def time(self):
    return self.now

  def sleep(self, x):
    del x
    from vlib.sched import core
    s = core.ACTIVE
    if s is not None and s.controlled() and not s.aborted:
      s.block(lambda: True, 'time.sleep')

  def __getattr__(self, name):
    return getattr(time, name)


def sched_futures(real_futures):
  """`concurrent.futures` look-alike whose wait() parks a controlled thread."""
  from vlib.sched import core, shims

  def wait(fs, timeout=None, return_when=real_futures.ALL_COMPLETED):
    fs = list(fs)
    s = core.ACTIVE
    if s is None or not s.controlled():
      return real_futures.wait(fs, timeout=timeout, return_when=return_when)
    if return_when == real_futures.ALL_COMPLETED:
      pred = lambda: all(f.done() for f in fs)
    else:
      pred = lambda: any(f.done() for f in fs)
    s.block(pred, 'futures.wait', timed=timeout is not None)
    done = {f for f in fs if f.done()}
    return real_futures._base.DoneAndNotDoneFutures(done, set(fs) - done)  # pylint: disable=protected-access

  return shims._Namespace(real_futures, {'wait': wait})  # pylint: disable=protected-access


def counting_lock():
  """Shim lock that counts its releases.

  "Did this release() call free the ownership lock" must not be read from
  locked() afterwards: a waiting acquirer may already hold the lock again.
  """
  from vlib.sched import shims

  class CountingLock(shims.Lock):

    def __init__(self):
      super().__init__()
      self.releases = 0

    def release(self):
      self.releases += 1
      return super().release()

  return CountingLock()
