"""C11 scenarios beyond the 2-5 states of a regular case.

reservoir_many - FixedSizeSample: 20-300 tiny states (or 3-8 states that each
reviewed 1e5-3e6 samples, fed as `range` objects) are merged under several
groupings / orders (left fold, balanced tree, one n-ary merge_states call,
reversed and shuffled order), every time on deep copies of the same states, and
the merged sampler is then used further: result() read twice, later batches
added. C11 ("all interleavings of add / merge / result calls"; for the reservoir
size, membership and reviewed count are what is fixed) demands for every
grouping: no step raises, the invariants hold after the merges and after the
later add()s, the last operand still reports what it reported before, and
reading the result twice gives the same value.

The case generator and the fold helper are those of `vlib.c01_scenarios`; a
case dict is literal, replay re-executes it exactly.

reservoir_unequal - FixedSizeSample states of DIFFERENT max_size merged in both
directions (third audit round): generator and oracle are shared with C01, see
`vlib.c01_scenarios` ("merge only ever modifies its receiver" - and a merge
that fails must not leave a half-merged receiver behind).
"""

from __future__ import annotations

import random
import warnings

from vlib import agg_adapters as A
from vlib import c01_scenarios as S1

N_CASES = {'quick': 96, 'thorough': 3000}
N_UNEQUAL = {'quick': 512, 'thorough': 16000}


def plan_slice(tier, i, k):
  return S1.plan_slice(tier, i, k, N_CASES[tier], N_UNEQUAL[tier])


def run_item(ctx, rseed, tier, item):
  name, idx = item
  rng = random.Random(A.stable_int('C11-scenario', rseed, name, idx))
  if name == 'reservoir_unequal':
    # samplers of different max_size merged in both directions; generator and
    # oracle live in vlib/c01_scenarios.py (see its docstring)
    case = S1.gen_reservoir_unequal(rng, tier, idx)
    case['prop'] = 'C11'
    S1.check(ctx, case)
    return
  case = S1.gen_reservoir_many(rng, tier)
  del case['fold']
  folds = ['left', 'tree', 'reversed', 'shuffled'] + (['nary'] * 2 if case['mode'] == 'aggfn'
                                                       else [])
  case['folds'] = rng.sample(folds, 2)
  case['oseed'] = rng.getrandbits(32)
  check(ctx, case)


def check(ctx, case):
  if case.get('scenario') == 'reservoir_unequal':
    S1.check(ctx, case)
    return
  with warnings.catch_warnings():
    warnings.simplefilter('ignore')
    _check_reservoir_many(ctx, case)


def _check_reservoir_many(ctx, case):
  ad = A.FixedSizeSampleAd(case['max_size'], case['seed'])
  drv = A.Driver(ad, case['mode'])
  shards, tail, base = case['shards'], case['tail'], case['base']
  merged_n = sum(shards)
  data = range(base, base + merged_n + sum(tail))
  ctx.case(('C11', 'reservoir_many', case['mode'], case['max_size'], case['seed'], base,
            shards, tail, case['folds'], case['oseed']), True)
  ctx.count('family:' + ad.family)
  ctx.count('reservoir_many_states_cases')
  ctx.count('reservoir_many_%s_cases' % case['layout'])
  lit = {'max_size': case['max_size'], 'seed': case['seed'], 'api': case['mode'],
         'states': S1._summary(shards), 'then_batches': tail,  # pylint: disable=protected-access
         'data': f'range({data.start}, {data.stop})'}

  def viol(kind, detail, diffs=None, exc=None):
    A.report(ctx, ad, kind, case, dict(lit, **detail), diffs=diffs, exc=exc)

  states, p = [], 0
  try:
    for size in shards:
      h = drv.make()
      if size:
        drv.feed(h, data[p:p + size])
      p += size
      states.append(h)
  except Exception as e:  # pylint: disable=broad-exception-caught
    ctx.inconclusive_case('building a state raised: ' + repr(A.exc_info(e)), case)
    return

  for how in case['folds']:
    order = list(range(len(states)))
    if how == 'reversed':
      order.reverse()
    elif how == 'shuffled':
      random.Random(case['oseed']).shuffle(order)
    fold = how if how in ('tree', 'nary') else 'left'
    where = {'grouping': how}
    hs = [drv.clone(states[i]) for i in order]
    snap = drv.observe(hs[-1])
    ctx.count('grouping_checks')
    try:
      merged = S1.fold_states(drv, hs, fold)
    except Exception as e:  # pylint: disable=broad-exception-caught
      viol('merge_raises', where, exc=A.exc_info(e))
      continue
    ctx.count('reservoir_checks')
    o1 = drv.observe(merged)
    d = ad.reservoir_diffs(o1, data[:merged_n])
    if d:
      viol('reservoir_after_merge', where, diffs=d)
    ctx.count('operand_checks')
    d = A.compare_obs(ad, drv.observe(hs[-1]), snap)
    if d:
      viol('operand_changed_by_merge', dict(where, operand='last state'), diffs=d)
    ctx.count('result_checks')
    d = A.compare_obs(ad, drv.observe(merged), o1)
    if d:
      viol('result_not_repeatable', where, diffs=d)
    ctx.count('reservoir_add_after_merge_checks')
    q = merged_n
    try:
      for b in tail:
        drv.feed(merged, data[q:q + b])
        q += b
    except Exception as e:  # pylint: disable=broad-exception-caught
      viol('add_after_merge_raises',
           dict(where, want='add() on the merged sampler works',
                fed_before_the_failure=q - merged_n), exc=A.exc_info(e))
      continue
    ctx.count('reservoir_checks')
    d = ad.reservoir_diffs(drv.observe(merged), data)
    if d:
      viol('reservoir_after_merge_then_add', where, diffs=d)
