"""Two-line stub for portpicker used by the upstream courier tests."""
import itertools

_ports = itertools.count(31000)


def pick_unused_port():
  return next(_ports)
