"""In-process stand-in for DeepMind Courier (engine E4).

Implements exactly the surface google/ml-metrics uses:

  courier.Client(address, call_timeout=...)  .futures.<method>(*a, **kw) -> Future
                                             .<method>(*a, **kw)         -> result
  courier.Server(name=None, port=None)       .Bind/.Unbind/.Start/.Stop/.Join
                                             .address / .has_started

Semantics (assumptions of the simulated transport, listed in the evidence):
  * arguments and results cross a pickle round trip (no aliasing across the "wire");
  * handlers run concurrently on a per-server thread pool;
  * a handler exception reaches the caller as StatusNotOk(code=2) carrying the
    server traceback text in .message;
  * call_timeout expiry completes the future with code == 4 (deadline exceeded)
    while the handler may still run to completion and take effect;
  * calls to an address with no started server wait (wait-for-ready) until the
    deadline; without a deadline they wait until the server appears;
  * Stop()/kill make the address unreachable; in-flight replies are lost (the
    caller learns about it through its deadline; without a deadline the call
    hangs until the library gives up on the worker);
  * every call is logged (call event before dispatch, return event after reply)
    from one monotonic clock.
A fault plan `sim.fault_plan(server, method, index) -> action` can inject
lost requests / lost replies / slow handlers / server death / app errors.
"""

from __future__ import annotations

import concurrent.futures as _cf
import itertools
import threading
import time
import traceback

import cloudpickle as _pickle

__all__ = ['Client', 'Server', 'StatusNotOk', 'sim']


class StatusNotOk(Exception):
  """Mimics pybind11_abseil.status.StatusNotOk: has .code and .message."""

  def __init__(self, code: int, message: str):
    super().__init__(message)
    self.code = code
    self.message = message

  def __reduce__(self):
    return (StatusNotOk, (self.code, self.message))


DEADLINE_EXCEEDED = 4
UNKNOWN = 2
UNAVAILABLE = 14
CANCELLED = 1


class _Sim:
  """Global simulation state: registry, clock scale, fault plan, call log."""

  def __init__(self):
    self.lock = threading.Lock()
    self.registry = {}        # address -> Server
    self.time_scale = 1.0     # library seconds per real second (dilation S)
    self.fault_plan = None    # callable(server_addr, method, idx) -> dict | None
    self.call_log = []        # dict events
    self.call_counts = {}     # (addr) -> count of data-plane calls
    self.seq = itertools.count()
    self.handler_delay = None  # callable(server, method) -> real seconds (before the handler runs)
    self.reply_delay = None    # callable(server, method) -> real seconds (reply held back after it ran)
    self.dispatch_pool = _cf.ThreadPoolExecutor(
        max_workers=128, thread_name_prefix='fakecourier-dispatch')
    self.poll = 0.0005
    # Addresses whose process is gone AND whose port refuses connections: new
    # calls fail at once with UNAVAILABLE instead of waiting for readiness.
    self.refusing = set()

  def reset(self):
    with self.lock:
      for s in list(self.registry.values()):
        s._dead = True  # pylint: disable=protected-access
      self.registry.clear()
      self.fault_plan = None
      self.handler_delay = None
      self.reply_delay = None
      self.refusing = set()
      self.call_log = []
      self.call_counts = {}
      self.time_scale = 1.0

  def lookup(self, address):
    with self.lock:
      s = self.registry.get(address)
      if s is not None and s._started and not s._dead:  # pylint: disable=protected-access
        return s
      return None

  def kill(self, address):
    """Abrupt death: unreachable, in-flight replies lost."""
    with self.lock:
      s = self.registry.get(address)
      if s is not None:
        s._dead = True  # pylint: disable=protected-access
        s._epoch += 1  # pylint: disable=protected-access
      return s

  def revive(self, address):
    with self.lock:
      s = self.registry.get(address)
      if s is not None:
        s._dead = False  # pylint: disable=protected-access
      return s

  def log(self, **ev):
    ev['t'] = time.monotonic()
    self.call_log.append(ev)


sim = _Sim()
_port_counter = itertools.count(20000)


class Server:
  """courier.Server look-alike."""

  def __init__(self, name=None, port=None, thread_pool_size=16, **unused):
    del unused
    self._name = name
    self._port = port if port else next(_port_counter)
    self._handlers = {}
    self._started = False
    self._dead = False
    self._epoch = 0
    self._pool = None
    self._pool_size = thread_pool_size

  @property
  def address(self) -> str:
    return f'localhost:{self._port}'

  @property
  def has_started(self) -> bool:
    return self._started

  def Bind(self, name, fn):  # pylint: disable=invalid-name
    self._handlers[name] = fn

  def Unbind(self, name):  # pylint: disable=invalid-name
    self._handlers.pop(name, None)

  def Start(self):  # pylint: disable=invalid-name
    if self._started:
      return
    self._pool = _cf.ThreadPoolExecutor(
        max_workers=self._pool_size,
        thread_name_prefix=f'fakecourier-server-{self._name or self._port}')
    self._started = True
    with sim.lock:
      sim.registry[self.address] = self
      if self._name:
        sim.registry[self._name] = self

  def Stop(self):  # pylint: disable=invalid-name
    with sim.lock:
      self._started = False
      self._epoch += 1
      for k in [k for k, v in sim.registry.items() if v is self]:
        del sim.registry[k]
    if self._pool is not None:
      self._pool.shutdown(wait=False, cancel_futures=True)

  def Join(self):  # pylint: disable=invalid-name
    while self._started:
      time.sleep(0.01)


def _roundtrip(obj):
  return _pickle.loads(_pickle.dumps(obj))


class _Futures:

  def __init__(self, client):
    self._client = client

  def __getattr__(self, method):
    if method.startswith('__'):
      raise AttributeError(method)
    client = self._client

    def call(*args, **kwargs):
      return client._call(method, args, kwargs)  # pylint: disable=protected-access

    return call


def _safe_set_result(fut, value):
  try:
    if not fut.done():
      fut.set_result(value)
  except _cf.InvalidStateError:
    pass


def _safe_set_exception(fut, exc):
  try:
    if not fut.done():
      fut.set_exception(exc)
  except _cf.InvalidStateError:
    pass


class Client:
  """courier.Client look-alike."""

  def __init__(self, server_address, compress=False, call_timeout=None,
               wait_for_ready=True, **unused):
    del compress, unused
    self._address = server_address
    # Courier: 0 / None means no deadline.
    if hasattr(call_timeout, 'total_seconds'):
      call_timeout = call_timeout.total_seconds()
    self._call_timeout = call_timeout or None
    self._wait_for_ready = wait_for_ready
    self.futures = _Futures(self)

  @property
  def address(self):
    return self._address

  def __getattr__(self, method):
    if method.startswith('_'):
      raise AttributeError(method)

    def call(*args, **kwargs):
      return self._call(method, args, kwargs).result()

    return call

  def _call(self, method, args, kwargs):
    fut = _cf.Future()
    seq = next(sim.seq)
    try:
      args, kwargs = _roundtrip((args, kwargs))
    except Exception as e:  # pylint: disable=broad-exception-caught
      fut.set_exception(StatusNotOk(3, f'cannot serialise arguments: {e!r}'))
      return fut
    sim.log(ev='call', seq=seq, server=self._address, method=method)
    sim.dispatch_pool.submit(self._dispatch, fut, seq, method, args, kwargs)
    return fut

  def _deadline(self):
    if self._call_timeout is None:
      return None
    return time.monotonic() + self._call_timeout / sim.time_scale

  def _fail(self, fut, seq, method, code, msg):
    sim.log(ev='return', seq=seq, server=self._address, method=method,
            outcome=f'error{code}')
    _safe_set_exception(fut, StatusNotOk(code, msg))

  def _dispatch(self, fut, seq, method, args, kwargs):
    deadline = self._deadline()
    addr = self._address
    try:
      # wait for ready
      server = sim.lookup(addr)
      while server is None:
        if fut.done():
          return
        if addr in sim.refusing:
          return self._fail(fut, seq, method, UNAVAILABLE, f'connection refused by {addr}')
        if deadline is not None and time.monotonic() >= deadline:
          return self._fail(fut, seq, method, DEADLINE_EXCEEDED,
                            f'Deadline Exceeded (no server at {addr})')
        if not self._wait_for_ready:
          return self._fail(fut, seq, method, UNAVAILABLE, f'no server at {addr}')
        time.sleep(sim.poll * 4)
        server = sim.lookup(addr)
      epoch = server._epoch  # pylint: disable=protected-access
      handler = server._handlers.get(method)  # pylint: disable=protected-access
      if handler is None:
        return self._fail(fut, seq, method, 12, f'method {method} not found')
      # fault plan
      action = None
      plan = sim.fault_plan
      if plan is not None:
        # idx = index of this call among the data-plane (non-heartbeat) calls
        # that reached this server; heartbeats are not counted (idx -1).
        if method == 'heartbeat':
          idx = -1
        else:
          with sim.lock:
            idx = sim.call_counts.get(server.address, 0)
            sim.call_counts[server.address] = idx + 1
        action = plan(server.address, method, idx)
      kind = (action or {}).get('kind', 'ok')
      if kind != 'ok':
        sim.log(ev='fault', seq=seq, server=addr, method=method, kind=kind)
      if kind == 'die_before':
        sim.kill(server.address)
        kind = 'lost_request'
      if kind == 'lost_request':
        while (deadline is None or time.monotonic() < deadline) and not fut.done():
          time.sleep(sim.poll * 4)
        return self._fail(fut, seq, method, DEADLINE_EXCEEDED, 'Deadline Exceeded')

      def run_handler():
        delay = (action or {}).get('delay')
        if sim.handler_delay is not None and delay is None:
          delay = sim.handler_delay(server.address, method)
        if delay:
          time.sleep(delay)
        if kind == 'app_error':
          raise RuntimeError((action or {}).get('message', 'injected app error'))
        sim.log(ev='exec', seq=seq, server=addr, method=method)
        return handler(*args, **kwargs)

      try:
        hfut = server._pool.submit(run_handler)  # pylint: disable=protected-access
      except RuntimeError:
        return self._fail(fut, seq, method, UNAVAILABLE, 'server stopped')
      while True:
        if hfut.done():
          break
        if deadline is not None and time.monotonic() >= deadline:
          return self._fail(fut, seq, method, DEADLINE_EXCEEDED, 'Deadline Exceeded')
        if fut.done():
          return
        time.sleep(sim.poll)
      if kind == 'die_after':
        sim.kill(server.address)
      if kind in ('lost_reply', 'die_after') or server._dead or server._epoch != epoch:  # pylint: disable=protected-access
        # The reply is lost (machine death / partition): the caller only learns
        # about it through its deadline; without a deadline the call hangs.
        while (deadline is None or time.monotonic() < deadline) and not fut.done():
          time.sleep(sim.poll * 4)
        return self._fail(fut, seq, method, DEADLINE_EXCEEDED, 'Deadline Exceeded')
      exc = hfut.exception()
      if exc is not None:
        tb = ''.join(traceback.format_exception(type(exc), exc, exc.__traceback__))
        return self._fail(
            fut, seq, method, UNKNOWN,
            f'Python exception was raised on the server:\n{tb}')
      try:
        result = _roundtrip(hfut.result())
      except Exception as e:  # pylint: disable=broad-exception-caught
        return self._fail(fut, seq, method, 13, f'cannot serialise result: {e!r}')
      if sim.reply_delay is not None:
        rd = sim.reply_delay(server.address, method)
        if rd:
          time.sleep(rd)
      sim.log(ev='return', seq=seq, server=addr, method=method, outcome='ok')
      _safe_set_result(fut, result)
    except BaseException as e:  # pylint: disable=broad-exception-caught
      _safe_set_exception(fut, StatusNotOk(13, f'transport error: {e!r}'))
