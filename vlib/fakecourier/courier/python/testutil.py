"""Stand-in for courier.python.testutil."""


def SetupMockBNS():  # pylint: disable=invalid-name
  """Real Courier installs a mock name service; names resolve in-process here."""
  return None
