"""Literal expectations of transform_test.py / tree_fns_test.py as interpreter specs.

Every entry re-states one upstream unit test: the operator chain in the spec
grammar of `vlib/pipeline_gen.py`, the literal input stream and the literal
expected stream copied from the test.  C08 / C12 run the reference interpreter
on each entry in every tier; a disagreement with the literal is an oracle bug.
(numpy-returning helper functions of the tests are replaced by list-returning
ones with the same numbers: the interpreter is specified on lists, C19 covers
the array containers.)
"""

from __future__ import annotations

from vlib import pipeline_gen as g

K, KW, SELF, SKIP = g.K, g.KW, g.SELF, g.SKIP
idx, path, lit, kmap = g.idx, g.path, g.lit, g.kmap


def _batched_call(x):
  assert len(x) <= 2
  return [v + 1 for v in x]


def _foo2(x):
  if x == 2:
    raise ValueError('foo')
  return x


EXTRA = {
    'inc': lambda x: x + 1,
    'len': len,
    'sum': sum,
    'ident': lambda x: x,
    'xy12': lambda x, y: (x + 1, y + 2),
    'xy11': lambda x, y: (x + 1, y + 1),
    'xyb': lambda x, y, b: (x + b, y + b),
    'xy_dict': lambda x, y: {'o1': x + 1, 'o2': y + 1},
    'xy_dict_xy': lambda x, y: {'x': x + 1, 'y': y + 1},
    'xy_3': lambda x, y: ({'o1': x + 1, 'o2': y + 1}, {'o3': x + 2}, 10),
    'bc2': lambda x, y: (_batched_call(x), _batched_call(y)),
    'bc1': _batched_call,
    'ab': lambda x: (x['a'], x['b']),
    'xx1': lambda x: (x, x + 1),
    'even': lambda x: x % 2 == 0,
    'inc_list': lambda x: [e + 1 for e in x],
    'one': lambda: 1,
    'foo2': _foo2,
}


def resolve(op):
  name = op.get('fn')
  if name in EXTRA:
    return EXTRA[name]
  return g.resolve(op)


def _op(kind, fn=None, i=None, o=None, **kw):
  op = {'op': kind, 'fn': fn, 'in': i if i is not None else K(SELF)}
  if i is None:
    op['in_default'] = True
  if kind in ('apply', 'assign', 'select'):
    op['out'] = o if o is not None else K(SELF)
    if o is None and kind == 'apply':
      op['out_default'] = True
  op.update(kw)
  return op


_DATA = {'a': 7, 'b': 8, 'c': {'b': (7, 8)}}
_COLS32 = [{'a': [0, 1, 2], 'b': [1, 2, 3]}, {'a': [4, 5], 'b': [5, 6]}]
_R5_3 = [[0, 1, 2], [3, 4]]
_ABS = [{'a': 0, 'b': 1}, {'a': 2, 'b': 3}, {'a': 4, 'b': 5}]

# (name, chain, records, expected stream[, options])
CASES = [
    # ---- transform_test.test_apply_transform
    ('apply_elem', [_op('apply', 'inc')], [0], [1]),
    ('apply_with_input_keys', [_op('apply', 'inc', K(idx(1)))], [[0, 1]], [2]),
    ('apply_with_output_keys', [_op('apply', 'inc', K(idx(1)), K('output'))],
     [[0, 1]], [{'output': 2}]),
    ('apply_len', [_op('apply', 'len', K('inputs'), K('output'))],
     [{'inputs': [0, 1]}], [{'output': 2}]),
    ('apply_with_kwargs_input', [_op('apply', 'xy12', KW(x='a', y='b'))],
     [{'a': 0, 'b': 1}], [(1, 3)]),
    # ---- test_assign_transform
    ('assign_elem', [_op('assign', 'inc')], [0], [1]),
    ('assign_with_input_keys', [_op('assign', 'inc', K(idx(1)))], [[0, 1]], [2]),
    ('assign_with_output_keys', [_op('assign', 'inc', K(idx(1)), K(idx(1)))],
     [[0, 1]], [[0, 2]]),
    ('assign_len', [_op('assign', 'len', K('inputs'), K('output'))],
     [{'inputs': [0, 1]}], [{'inputs': [0, 1], 'output': 2}]),
    ('assign_with_dict_assign_keys',
     [_op('assign', None, None, K(kmap(['output', path('inputs', -1)])))],
     [{'inputs': [0, 1]}], [{'inputs': [0, 1], 'output': 1}]),
    # ---- test_apply_transform_rebatched
    ('apply_rebatched_call',
     [_op('apply', 'bc2', K('a', 'b'), K('c', 'd'), fbs=2, bs=3)], _COLS32,
     [{'c': [1, 2, 3], 'd': [2, 3, 4]}, {'c': [5, 6], 'd': [6, 7]}]),
    ('apply_rebatched_select_only',
     [_op('apply', None, K('a', 'b'), K('c', 'd'), bs=2)],
     [{'a': [0, 1, 2], 'b': [1, 2, 3]}, {'a': [3, 4], 'b': [4, 5]}],
     [{'c': [0, 1], 'd': [1, 2]}, {'c': [2, 3], 'd': [3, 4]}, {'c': [4], 'd': [5]}]),
    ('apply_rebatched_output_keys_only',
     [_op('apply', 'bc1', None, K('a'), fbs=2, bs=3)], _R5_3,
     [{'a': [1, 2, 3]}, {'a': [4, 5]}]),
    ('apply_rebatched_input_keys_only',
     [_op('apply', 'bc1', K('a'), None, fbs=2, bs=3)],
     [{'a': [0, 1, 2], 'b': [1]}, {'a': [4, 5], 'b': [5]}],
     [[1, 2, 3], [5, 6]]),
    ('apply_rebatched_without_keys', [_op('apply', 'bc1', fbs=2, bs=3)], _R5_3,
     [[1, 2, 3], [4, 5]]),
    ('apply_rebatch_only', [_op('apply', None, bs=3)], [[0, 1], [2, 3], [4]],
     [[0, 1, 2], [3, 4]]),
    # ---- test_assign_transform_rebatched
    ('assign_rebatched_call',
     [_op('assign', 'bc2', K('a', 'b'), K('c', 'd'), fbs=2, bs=3)], _COLS32,
     [{'a': [0, 1, 2], 'b': [1, 2, 3], 'c': [1, 2, 3], 'd': [2, 3, 4]},
      {'a': [4, 5], 'b': [5, 6], 'c': [5, 6], 'd': [6, 7]}]),
    ('assign_rebatched_single_in_out',
     [_op('assign', 'bc1', K('a'), K('b'), fbs=2, bs=3)],
     [{'a': [0, 1, 2]}, {'a': [3, 4]}],
     [{'a': [0, 1, 2], 'b': [1, 2, 3]}, {'a': [3, 4], 'b': [4, 5]}]),
    ('assign_rebatched_without_keys', [_op('assign', 'bc1', fbs=2, bs=3)], _R5_3,
     [[1, 2, 3], [4, 5]]),
    ('assign_rebatched_input_keys_only',
     [_op('assign', 'bc1', K('a'), None, fbs=2, bs=3)],
     [{'a': [0, 1, 2], 'b': [1]}, {'a': [4, 5], 'b': [5]}],
     [[1, 2, 3], [5, 6]]),
    # ---- test_select_transform
    ('select_self', [_op('select')], [[0]], [[0]]),
    ('select_index', [_op('select', None, K(idx(1)), K(SELF))], [[0, 1]], [1]),
    ('select_with_a_key', [_op('select', None, K('a'), K(SELF))],
     [{'a': [0, 1], 'b': 1}], [[0, 1]]),
    ('select_with_keys', [_op('select', None, K('a', 'b'), K(SELF))],
     [{'a': [0, 1], 'b': 1}], [([0, 1], 1)]),
    ('select_with_output_keys', [_op('select', None, K('b', 'a'), K('c', 'd'))],
     [{'a': 0, 'b': 1}], [{'c': 1, 'd': 0}]),
    ('select_SELF_with_output_keys', [_op('select', None, K(SELF), K('inputs'))],
     [(0, 1)], [{'inputs': (0, 1)}]),
    ('select_with_rebatch',
     [_op('select', None, K('a', 'b'), K('a', 'b'), bs=3, out_default=True)],
     [{'a': [0, 1], 'b': [1, 2], 'c': [0, 1]}, {'a': [2, 3], 'b': [3, 4], 'c': [2, 3]}],
     [{'a': [0, 1, 2], 'b': [1, 2, 3]}, {'a': [3], 'b': [4]}]),
    # ---- batch / sink / filter
    ('batch_direct', [{'op': 'batch', 'fn': None, 'n': 3, 'cols': K(SELF)}],
     list(range(10)), [[0, 1, 2], [3, 4, 5], [6, 7, 8], [9]]),
    ('batch_with_apply',
     [_op('apply', 'ab', None, K('a', 'b')),
      {'op': 'batch', 'fn': None, 'n': 2, 'cols': K('a', 'b')}], _ABS,
     [{'a': [0, 2], 'b': [1, 3]}, {'a': [4], 'b': [5]}]),
    ('batch_with_select',
     [_op('select', None, K('a', 'b'), K('a', 'b'), out_default=True),
      {'op': 'batch', 'fn': None, 'n': 2, 'cols': K('a', 'b')}], _ABS,
     [{'a': [0, 2], 'b': [1, 3]}, {'a': [4], 'b': [5]}]),
    ('sink', [_op('sink', None, K('a'))], _ABS, _ABS,
     {'sinks': [[((0,), {}), ((2,), {}), ((4,), {})]]}),
    ('sink_default', [_op('sink')], [1, 2, 3], [1, 2, 3],
     {'sinks': [[((1,), {}), ((2,), {}), ((3,), {})]]}),
    ('sink_with_input_keys', [_op('sink', None, K('b'))],
     [{'a': 1, 'b': 2}, {'a': 3, 'b': 4}], [{'a': 1, 'b': 2}, {'a': 3, 'b': 4}],
     {'sinks': [[((2,), {}), ((4,), {})]]}),
    ('transform_filter',
     [_op('apply', 'xx1', None, K('a', 'b')), _op('filter', 'even', K('a')),
      {'op': 'batch', 'fn': None, 'n': 2, 'cols': K('a', 'b')}],
     list(range(5)), [{'a': [0, 2], 'b': [1, 3]}, {'a': [4], 'b': [5]}]),
    ('filter_fn', [_op('apply', 'ident'), _op('filter', 'even')], list(range(6)),
     [0, 2, 4]),
    ('iterate_is_not_copy',
     [_op('apply', 'inc', None, K('a')), _op('assign', 'inc', K('a'), K('b'))],
     [0, 1], [{'a': 1, 'b': 2}, {'a': 2, 'b': 3}]),
    # ---- tree_fns_test
    ('tree_fn',
     [_op('apply', 'xy11', K(path('a'), path('c', 'b', idx(0)), form='list'),
          K(path('a'), path('b'), form='list'))],
     [{'model1': {'pred': [1, (7,), 3]}, 'a': 7, 'b': 8, 'c': {'b': (7, 8)},
       'model2': {'pred3': [([2, 3, 8],)]}, 'single_key': ([2, 3, 8],)}],
     [{'a': 8, 'b': 8}]),
    ('tree_fn_pass_by_kwargs',
     [_op('apply', 'xyb', KW(x='a', y=path('c', 'b', 0), b=lit(1)),
          K('a', 'b', form='list'))], [_DATA], [{'a': 8, 'b': 8}]),
    ('tree_fn_output_keys_by_kwargs',
     [_op('apply', 'xy_dict', K('a', path('c', 'b', 0)),
          K(kmap(['a', 'o1'], ['b', 'o2'])))], [_DATA], [{'a': 8, 'b': 8}]),
    ('tree_fn_output_keys_by_tuple_with_kwargs',
     [_op('apply', 'xy_3', K('a', path('c', 'b', 0)),
          K(kmap(['a', 'o1'], ['b', 'o2']), kmap(['c', 'o3']), 'd'))], [_DATA],
     [{'a': 8, 'b': 8, 'c': 9, 'd': 10}]),
    ('tree_fn_all_input', [_op('apply', 'inc_list', K(SELF))], [[1, 2, 3]],
     [[2, 3, 4]]),
    ('tree_fn_no_input', [_op('apply', 'one', K(form='tuple'))], [[1, 2, 3]], [1]),
    ('tree_fn_no_output_keys',
     [_op('apply', 'xy11', K('a', path('c', 'b', 0), form='list'))], [_DATA],
     [(8, 8)]),
    ('assign',
     [_op('assign', 'xy11', K(path('a'), path('c', 'b', idx(0)), form='list'),
          K('e', 'f', form='list'))], [_DATA], [dict(_DATA, e=8, f=8)]),
    ('assign_with_kw_output_keys',
     [_op('assign', 'xy_dict_xy', K(path('a'), path('c', 'b', idx(0)), form='list'),
          K(kmap(['g', 'x'], ['h', 'y'])))], [_DATA], [dict(_DATA, g=8, h=8)]),
    ('assign_multiple_outputs_single_key',
     [_op('assign', 'xy11', K(path('a'), path('c', 'b', 0), form='list'), K('e'))],
     [_DATA], [dict(_DATA, e=(8, 8))]),
    ('select',
     [_op('select', None, K(path('a'), path('c', 'b', idx(0)), form='list'),
          K('e', 'f', form='list'))], [_DATA], [{'e': 7, 'f': 7}]),
    ('select_with_kw_output_keys',
     [_op('select', None, K('c'), K(kmap(['e', 'b'], ['f', path('b', 1)])))],
     [_DATA], [{'e': (7, 8), 'f': 8}]),
    # ---- error skipping (rule 7)
    ('tree_fn_ignore_error', [_op('apply', 'foo2')], list(range(5)), [0, 1, 3, 4],
     {'skip': True}),
    ('apply_ignore_error', [_op('apply', 'foo2')], list(range(4)), [0, 1, 3],
     {'skip': True, 'num_threads': 1}),
    ('assign_ignore_error',
     [_op('apply', 'ident', None, K('a')), _op('assign', 'foo2', K('a'), K('b'))],
     list(range(4)), [{'a': 0, 'b': 0}, {'a': 1, 'b': 1}, {'a': 3, 'b': 3}],
     {'skip': True, 'num_threads': 1}),
]


def run(ctx, same, only=None, real=True):
  """Interpreter (and real pipeline) against every literal expectation."""
  from vlib.oracles import pipeline_interp as interp
  for entry in CASES:
    name, chain, records, want = entry[:4]
    opts = entry[4] if len(entry) > 4 else {}
    if only is not None and name != only:
      continue
    case = {'selftest': name}
    ctx.case(('selftest', name), False)
    ctx.count('selftest_checks')
    try:
      got, info = interp.run_chain(chain, records, resolve,
                                   skip=opts.get('skip', False))
    except Exception as e:  # pylint: disable=broad-exception-caught
      ctx.violation('oracle_selftest', case, {'error': repr(e)},
                    mechanism='oracle-disagrees-with-upstream-literal')
      continue
    sink_logs = [i['sink'] for i, op in zip(info, chain) if op['op'] == 'sink']
    if not same(got, want) or (
        'sinks' in opts and not same(sink_logs, opts['sinks'])):
      ctx.violation('oracle_selftest', case,
                    {'got': repr(got)[:300], 'want': repr(want)[:300]},
                    mechanism='oracle-disagrees-with-upstream-literal')
    if not real:
      continue
    try:
      t, sinks = g.build(chain, resolve, num_threads=opts.get('num_threads', 0))
      it = t.make().iterate([g.dec(g.enc(r)) for r in records],
                            ignore_error=opts.get('skip', False))
      real_out = list(it)
      ok = same(real_out, want) and all(s.closed for s in sinks)
      if 'sinks' in opts:
        ok = ok and same([s.data for s in sinks], opts['sinks'])
      detail = {'got': repr(real_out)[:300], 'want': repr(want)[:300]}
    except Exception as e:  # pylint: disable=broad-exception-caught
      ok, detail = False, {'error': repr(e)[:300]}
    ctx.count('selftest_real_checks')
    if not ok:
      ctx.violation('upstream_literal_not_reproduced', case, detail,
                    mechanism='upstream-literal-not-reproduced-by-library')
