"""Runner: fans case chunks out to child interpreters, reduces their results.

A property module (vlib/props/Cxx.py) provides

  ID, LEVEL, RULE, ASSUMPTIONS            constants
  REQUIRED = ['counter', ...]              counters that must be > 0, otherwise
                                           the run is inconclusive (monitor never
                                           reached / patch did not take effect)
  plan(tier, seed) -> list[dict]           JSON-able chunk specs
  run_chunk(ctx, spec)                     executed in a child interpreter
  run_case(ctx, case)                      re-executes one recorded case (replay)
  classify(violation) -> str | None        optional: mechanism key of a known finding

Verdicts are three-valued: held (0), violated (1), inconclusive (2).
"""

from __future__ import annotations

import argparse
import hashlib
import importlib
import json
import os
import subprocess
import sys
import tempfile
import time

ROOT = os.path.dirname(os.path.dirname(os.path.abspath(__file__)))
REPO = os.environ.get('VERIF_REPO', '/repo')
PY = os.environ.get('VERIF_PYTHON', '/venv/bin/python')
GUARD = 'ML_METRICS_VERIF'
MAX_VIOLATIONS_KEPT = 40
MAX_SAMPLES = 6


def stable_hash(obj) -> str:
  """Process-independent short hash of a JSON-able / repr-able description."""
  try:
    s = json.dumps(obj, sort_keys=True, default=repr)
  except Exception:  # pylint: disable=broad-exception-caught
    s = repr(obj)
  return hashlib.blake2b(s.encode(), digest_size=8).hexdigest()


class Ctx:
  """Accumulates what a child observed."""

  def __init__(self, spec):
    self.spec = spec
    self.evaluations = 0
    self.nontrivial = set()
    self.samples = []
    self.violations = []
    self.violation_count = 0
    self.inconclusive = []
    self.counters = {}
    self.observations = {}
    self.notes = {}

  # -- recording -----------------------------------------------------------
  def case(self, desc, nontrivial: bool = True, n: int = 1):
    """Registers one executed case; desc identifies it for distinct counting."""
    self.evaluations += n
    if nontrivial:
      self.nontrivial.add(desc if isinstance(desc, str) and len(desc) == 16
                          else stable_hash(desc))

  def sample(self, obj, force: bool = False):
    if force or len(self.samples) < MAX_SAMPLES:
      self.samples.append(obj)

  def count(self, name: str, n: int = 1):
    self.counters[name] = self.counters.get(name, 0) + n

  def observe(self, name: str, value=None):
    """Non-verdict observation (counted; first few values kept)."""
    entry = self.observations.setdefault(name, {'count': 0, 'examples': []})
    entry['count'] += 1
    if value is not None and len(entry['examples']) < 3:
      entry['examples'].append(value)

  def violation(self, kind: str, case, detail=None, mechanism: str | None = None):
    self.violation_count += 1
    if len(self.violations) < MAX_VIOLATIONS_KEPT:
      self.violations.append({
          'kind': kind,
          'mechanism': mechanism,
          'case': case,
          'detail': detail,
      })
    else:
      # Keep at least one witness per distinct (kind, mechanism).
      seen = {(v['kind'], v['mechanism']) for v in self.violations}
      if (kind, mechanism) not in seen and len(self.violations) < 4 * MAX_VIOLATIONS_KEPT:
        self.violations.append({
            'kind': kind, 'mechanism': mechanism, 'case': case, 'detail': detail,
        })

  def inconclusive_case(self, reason: str, case=None):
    self.inconclusive.append({'reason': reason, 'case': case})

  def result(self):
    return {
        'evaluations': self.evaluations,
        'nontrivial': sorted(self.nontrivial),
        'samples': self.samples,
        'violations': self.violations,
        'violation_count': self.violation_count,
        'inconclusive': self.inconclusive[:50],
        'inconclusive_count': len(self.inconclusive),
        'counters': self.counters,
        'observations': self.observations,
        'notes': self.notes,
    }


def child_env(extra_path=()):
  env = dict(os.environ)
  paths = [ROOT, *extra_path, REPO]
  deps = os.path.join(ROOT, '.deps')
  if os.path.isdir(deps):
    paths.append(deps)
  env['PYTHONPATH'] = os.pathsep.join(paths)
  env['PYTHONHASHSEED'] = '0'
  env[GUARD] = '1'
  env['PYTHONDONTWRITEBYTECODE'] = '1'
  env.setdefault('OMP_NUM_THREADS', '1')
  env.setdefault('OPENBLAS_NUM_THREADS', '1')
  env.setdefault('MKL_NUM_THREADS', '1')
  return env


def load_known_findings():
  path = os.path.join(ROOT, 'known_findings.json')
  if not os.path.exists(path):
    return []
  with open(path) as f:
    return json.load(f).get('findings', [])


def _run_children(pid, mod, specs, jobs, timeout_s, workdir):
  """Runs chunk specs in parallel child interpreters; returns list of results."""
  extra_path = [os.path.join(ROOT, p) for p in getattr(mod, 'EXTRA_PATH', ())]
  env = child_env(extra_path)
  pending = list(enumerate(specs))
  running = {}
  results = [None] * len(specs)
  while pending or running:
    while pending and len(running) < jobs:
      i, spec = pending.pop(0)
      spec_path = os.path.join(workdir, f'spec{i}.json')
      out_path = os.path.join(workdir, f'out{i}.json')
      err_path = os.path.join(workdir, f'err{i}.txt')
      with open(spec_path, 'w') as f:
        json.dump(spec, f)
      errf = open(err_path, 'w')
      p = subprocess.Popen(
          [PY, '-X', 'faulthandler', '-m', 'vlib.child', pid, spec_path, out_path],
          cwd=ROOT, env=env, stdout=errf, stderr=subprocess.STDOUT,
      )
      running[i] = (p, time.time(), out_path, err_path, errf, spec)
    time.sleep(0.02)
    for i in list(running):
      p, t0, out_path, err_path, errf, spec = running[i]
      rc = p.poll()
      timed_out = rc is None and time.time() - t0 > timeout_s
      if rc is None and not timed_out:
        continue
      if timed_out:
        # Ask faulthandler for the stacks, then kill.
        try:
          p.send_signal(6)  # SIGABRT -> faulthandler dumps all threads
          p.wait(5)
        except Exception:  # pylint: disable=broad-exception-caught
          p.kill()
          p.wait()
      errf.close()
      del running[i]
      tail = ''
      try:
        with open(err_path) as f:
          tail = f.read()[-4000:]
      except OSError:
        pass
      if timed_out:
        results[i] = {'chunk_error': 'watchdog', 'stderr': tail, 'spec': spec}
      elif rc != 0 or not os.path.exists(out_path):
        results[i] = {'chunk_error': f'exit {rc}', 'stderr': tail, 'spec': spec}
      else:
        with open(out_path) as f:
          results[i] = json.load(f)
        results[i]['stderr_tail'] = tail[-500:]
  return results


def main(argv=None):
  ap = argparse.ArgumentParser()
  ap.add_argument('pid')
  ap.add_argument('--tier', default=os.environ.get('VERIF_TIER', 'quick'),
                  choices=['quick', 'thorough'])
  ap.add_argument('--seed', type=int,
                  default=int(os.environ.get('VERIF_SEED', '0') or 0))
  ap.add_argument('--replay', default=None)
  ap.add_argument('--jobs', type=int,
                  default=int(os.environ.get('VERIF_JOBS', '0') or 0))
  ap.add_argument('--no-evidence', action='store_true')
  args = ap.parse_args(argv)
  pid = args.pid.upper()
  t0 = time.time()
  sys.path.insert(0, ROOT)
  mod = importlib.import_module(f'vlib.props.{pid}')
  jobs = args.jobs or min(16, os.cpu_count() or 4)

  if args.replay:
    with open(args.replay) as f:
      replay = json.load(f)
    specs = [{'replay_case': replay['case'], 'tier': args.tier,
              'seed': replay.get('seed', args.seed)}]
  else:
    specs = mod.plan(args.tier, args.seed)
    for s in specs:
      s.setdefault('tier', args.tier)
      s.setdefault('seed', args.seed)

  timeout_s = getattr(mod, 'CHUNK_TIMEOUT_S', {'quick': 240, 'thorough': 3000})[args.tier]
  workdir = tempfile.mkdtemp(prefix=f'verif-{pid}-')
  try:
    results = _run_children(pid, mod, specs, jobs, timeout_s, workdir)
    # One retry (sequentially, less load) for chunks that hit the watchdog or crashed.
    retry = [i for i, r in enumerate(results) if 'chunk_error' in r]
    chunk_errors = []
    if retry:
      again = _run_children(pid, mod, [specs[i] for i in retry],
                            max(1, jobs // 4), timeout_s * 2, workdir)
      for i, r in zip(retry, again):
        if 'chunk_error' in r:
          chunk_errors.append(r)
        else:
          results[i] = r
  finally:
    import shutil
    shutil.rmtree(workdir, ignore_errors=True)

  # ---- reduce ---------------------------------------------------------------
  evaluations = 0
  nontrivial = set()
  samples, violations, inconclusive = [], [], []
  violation_count = inconclusive_count = 0
  counters, observations, notes = {}, {}, {}
  for r in results:
    if 'chunk_error' in r:
      continue
    evaluations += r['evaluations']
    nontrivial.update(r['nontrivial'])
    for s in r['samples']:
      if len(samples) < MAX_SAMPLES:
        samples.append(s)
    violations.extend(r['violations'])
    violation_count += r['violation_count']
    inconclusive.extend(r['inconclusive'])
    inconclusive_count += r['inconclusive_count']
    for k, v in r['counters'].items():
      counters[k] = counters.get(k, 0) + v
    for k, v in r['observations'].items():
      e = observations.setdefault(k, {'count': 0, 'examples': []})
      e['count'] += v['count']
      e['examples'] = (e['examples'] + v['examples'])[:3]
    for k, v in r.get('notes', {}).items():
      notes.setdefault(k, v)

  # ---- classify violations against committed known findings ------------------
  known = [k for k in load_known_findings()
           if k['property'] == pid and k.get('status') == 'known']
  known_keys = {k['key']: k for k in known}
  classify = getattr(mod, 'classify', None)
  known_hits = {}
  new_violations = []
  for v in violations:
    key = v.get('mechanism')
    if classify is not None:
      try:
        key = classify(v) or key
      except Exception:  # pylint: disable=broad-exception-caught
        pass
    if key is not None and key in known_keys:
      known_hits.setdefault(key, []).append(v)
    else:
      new_violations.append(v)
  # Violations beyond the kept witnesses: counted by mechanism in counters
  # ('viol:<key>') by the property modules; anything not attributable is new.

  os.makedirs(os.path.join(ROOT, 'replays'), exist_ok=True)
  lines = []
  replay_paths = []
  for n, v in enumerate(new_violations[:10]):
    path = os.path.join(ROOT, 'replays', f'{pid}-{args.seed}-{n}.json')
    with open(path, 'w') as f:
      json.dump({'property': pid, 'seed': args.seed, 'tier': args.tier,
                 'kind': v['kind'], 'mechanism': v.get('mechanism'),
                 'detail': v['detail'], 'case': v['case']}, f, indent=1,
                default=repr)
    replay_paths.append(path)
    lines.append(f'VIOLATION property={pid} replay={path}')
    print(f'  kind={v["kind"]} mechanism={v.get("mechanism")} '
          f'detail={json.dumps(v["detail"], default=repr)[:600]}')
  for key, entry in known_keys.items():
    vs = known_hits.get(key, [])
    seen = f'{len(vs)} witnesses this run' if vs else 'not exercised / not observed in this run'
    lines.append(f'KNOWN-FINDING: property={pid} {key}: {entry["description"]} ({seen})')

  # ---- verdict ----------------------------------------------------------------
  required = list(getattr(mod, 'REQUIRED', []))
  if args.replay:
    required = []
  missing = [c for c in required if counters.get(c, 0) <= 0]
  incon_reasons = []
  if chunk_errors:
    incon_reasons.append(f'{len(chunk_errors)} chunk(s) failed twice: '
                         + chunk_errors[0]['chunk_error'])
  if missing:
    incon_reasons.append('monitor never reached: ' + ','.join(missing))
  if evaluations == 0:
    incon_reasons.append('no case was executed')
  if evaluations and inconclusive_count > 0.05 * evaluations:
    incon_reasons.append(f'{inconclusive_count}/{evaluations} cases inconclusive')

  wall = time.time() - t0
  if new_violations:
    verdict, code = 'violated', 1
  elif incon_reasons:
    verdict, code = 'inconclusive', 2
  else:
    verdict, code = 'held', 0

  if not args.replay and not args.no_evidence:
    coverage = {
        'evaluations': evaluations,
        'distinct_nontrivial': len(nontrivial),
        'rule': mod.RULE,
        'samples': samples or ['<none>'],
        'exhaustive': bool(getattr(mod, 'EXHAUSTIVE', {}).get(args.tier, False)),
        'counters': counters,
        'observations': observations,
        'inconclusive_cases': inconclusive_count,
        'inconclusive_examples': inconclusive[:3],
        'chunks': len(specs),
        'chunk_errors': [c['chunk_error'] for c in chunk_errors],
        'verdict': verdict,
        'verdict_reasons': incon_reasons,
        'known_findings': {k: len(v) for k, v in known_hits.items()},
        'new_violation_witnesses': [
            {'kind': v['kind'], 'mechanism': v.get('mechanism'),
             'detail': v['detail']} for v in new_violations[:5]],
        'notes': notes,
    }
    evidence = {
        'property_id': pid,
        'tier': args.tier,
        'seed': args.seed,
        'level': mod.LEVEL,
        'coverage': coverage,
        'assumptions': list(mod.ASSUMPTIONS),
        'wall_s': round(wall, 2),
        'violations': len(new_violations),
    }
    os.makedirs(os.path.join(ROOT, 'evidence'), exist_ok=True)
    with open(os.path.join(ROOT, 'evidence', f'{pid}.json'), 'w') as f:
      json.dump(evidence, f, indent=1, default=repr)

  hist = {}
  for v in new_violations:
    key = (v['kind'], v.get('mechanism'))
    hist[key] = hist.get(key, 0) + 1
  for key, cnt in sorted(hist.items(), key=lambda kv: -kv[1]):
    print(f'  new-violation-class kind={key[0]} mechanism={key[1]} witnesses={cnt}')
  for line in lines:
    print(line)
  if verdict == 'inconclusive':
    print(f'INCONCLUSIVE property={pid} reason={"; ".join(incon_reasons)}')
    for c in chunk_errors[:2]:
      print('  chunk stderr tail:', c.get('stderr', '')[-1500:])
  print(f'{pid} {args.tier} seed={args.seed}: {verdict}; evaluations={evaluations} '
        f'distinct_nontrivial={len(nontrivial)} violations={len(new_violations)} '
        f'known={sum(len(v) for v in known_hits.values())} inconclusive={inconclusive_count} '
        f'wall={wall:.1f}s counters={json.dumps(counters)[:400]}')
  return code


if __name__ == '__main__':
  sys.exit(main())
