"""C03 workloads: one pipeline spec executed under different execution strategies.

A *spec* is the c16lib JSON pipeline description (n integers in records of `rec`,
element-wise operators, exact integer aggregator) plus an optional second
aggregation in the middle of the chain:

  {'n': 17, 'rec': 2, 'ops': [['affine', {'a': 2, 'b': 1}], ['filter'], ['square']],
   'agg': 'sum' | 'collect' | None, 'mid_agg': {'after': 1, 'kind': 'collect'} | absent}

A *layout* says how the same operators are turned into a TreeTransform:

  {'source': 'seq' | 'gen' | 'rr' | 'list',   SequenceDataSource / plain generator
                                              iterable / ShardedIterable / list
   'stages': [0, 0, 1, 1, 2],                 stage index of [source, op..., aggs]
   'threads': [0, 2, 0],                      num_threads per stage
   'piecewise': bool}                         every element is its own
                                              TreeTransform.new(name=stage) chained with
                                              chain() (equal names fuse) | fluent stages
  or {'kind': 'c16', 'agg_fused': bool, 'num_threads': n}  ->  c16lib.define_pipeline

The expected value never touches pipeline code: c16lib.reference (plain Python).
"""

from __future__ import annotations

import copy
import functools
import time

from vlib import c16lib
from vlib.sched import core

_JITTER = {'seed': 0}


def set_jitter(seed):
  _JITTER['seed'] = int(seed)


def _pause(delay, salt):
  """Scheduler active: a pre-emption point.  Real threads: seeded micro-sleep."""
  s = core.ACTIVE
  if s is not None:
    if s.controlled():
      s.yield_point('user')
    return
  if delay:
    time.sleep(delay * ((salt * 7 + _JITTER['seed']) % 4) / 3.0)


def op_slow(xs, delay=0.0):
  _pause(delay, xs[0] if xs else 0)
  return list(xs)


_OPS = {'affine': c16lib.op_affine, 'square': c16lib.op_square, 'slow': op_slow}
_AGGS = {'sum': c16lib.SumCount, 'collect': c16lib.Collect}


class GenSource:
  """Plain re-iterable data source: not shardable, not indexable, generator backed
  (a generator entered by two threads at once raises, so a missing lock shows)."""

  def __init__(self, recs, delay=0.0):
    self._recs = [list(r) for r in recs]
    self._delay = delay

  def __iter__(self):
    return self._gen()

  def _gen(self):
    for r in self._recs:
      _pause(self._delay, r[0] if r else 0)
      yield list(r)


def source_delay(spec):
  for op in spec['ops']:
    if op[0] == 'slow' and len(op) > 1 and op[1].get('delay'):
      return op[1]['delay'] / 2
  return 0.0


# -- expected values ------------------------------------------------------------


def _agg_plain(kind, vals):
  if kind == 'sum':
    a = c16lib.SumCount()
    return a.get_result(a.update_state(a.create_state(), vals))
  return sorted(vals)


def expected(spec):
  """(batches, aggregate dict | None) by plain Python, no pipeline code."""
  base = {k: v for k, v in spec.items() if k != 'mid_agg'}
  outs, agg = c16lib.reference(base)
  want = dict(agg) if agg is not None else None
  if spec.get('slice') and spec.get('agg'):
    by = {}
    for o in outs:
      for v in o:
        by.setdefault(int(v).bit_length(), []).append(v)
    for b, vals in by.items():
      want[f'agg|bits={b}'] = _agg_plain(spec['agg'], vals)
  mid = spec.get('mid_agg')
  if mid:
    _, magg = c16lib.reference(dict(base, ops=spec['ops'][:mid['after']], agg=mid['kind']))
    want = dict(want or {})
    want['mid'] = magg['agg']
  return outs, want


def slice_bits(x):
  """Per-row slice function of the optional slicing of the final aggregate."""
  yield int(x).bit_length()


def norm_agg(res):
  """Aggregate result with MetricKey(metrics, slice) keys spelled as strings."""
  if res is None:
    return None
  out = {}
  for k, v in dict(res).items():
    if isinstance(k, str):
      out[k] = v
    else:
      sl = k.slice
      out[f'{k.metrics}|{",".join(map(str, sl.features))}='
          f'{",".join(str(int(x)) for x in sl.values)}'] = v
  return out


def canon(batches):
  return sorted(repr(list(b)) if isinstance(b, (list, tuple)) else 'non-batch:' + repr(b)
                for b in batches)


# -- layouts ----------------------------------------------------------------------


def elements(spec):
  """[('source',), ('op', op)..., ('agg', kind, key)...] in pipeline order."""
  out = [('source',)]
  mid = spec.get('mid_agg')
  for j, op in enumerate(spec['ops']):
    out.append(('op', op))
    if mid and mid['after'] == j + 1:
      out.append(('agg', mid['kind'], 'mid'))
  if spec.get('agg'):
    out.append(('agg', spec['agg'], 'agg'))
  return out


def fused_layout(spec, source='seq', num_threads=0):
  """Everything in one transform (needs a spec without mid_agg)."""
  n = len(elements(spec))
  return {'source': source, 'stages': [0] * n, 'threads': [num_threads], 'piecewise': False}


def reference_layout(spec):
  """Strategy (a): single-threaded, as few stages as the spec admits."""
  els = elements(spec)
  stages, g = [], 0
  for j, el in enumerate(els):
    stages.append(g)
    if el[0] == 'agg' and el[2] == 'mid' and j + 1 < len(els):
      g += 1
  return {'source': 'seq', 'stages': stages, 'threads': [0] * (g + 1), 'piecewise': False}


def gen_layout(rng, spec, *, source=None, p_split=0.4, piecewise=None, threads=None):
  """Random split of the elements into named stages."""
  els = elements(spec)
  stages, g = [], 0
  for j, el in enumerate(els):
    if j:
      prev = els[j - 1]
      if prev[0] == 'agg' or rng.random() < p_split:
        g += 1
    stages.append(g)
  n_st = g + 1
  return {'source': source or rng.choice(['seq', 'seq', 'gen', 'rr', 'list']),
          'stages': stages,
          'threads': list(threads) if threads is not None else [0] * n_st,
          'piecewise': (rng.random() < 0.5) if piecewise is None else piecewise}


def n_stages(layout):
  if layout.get('kind') == 'c16':
    return 2 if layout.get('agg_fused', True) else 3
  return layout['stages'][-1] + 1


def stage_names(spec, layout):
  if layout.get('kind') == 'c16':
    names = ['datasource', 'apply']
    if spec.get('agg') and not layout.get('agg_fused', True):
      names.append('agg')
    return names
  return [f's{g}' for g in range(n_stages(layout))]


def sharing_class(layout):
  """How the threaded stage(s) obtain their input: 'fanout' (shards of a shardable
  source, one per thread), 'shared' (one thread-safe iterator), 'both', 'none'."""
  if layout.get('kind') == 'c16':
    return 'shared' if layout.get('num_threads') else 'none'
  kinds = set()
  for g, nt in enumerate(layout['threads']):
    if not nt:
      continue
    has_source = g == 0
    if has_source and layout['source'] in ('seq', 'rr'):
      kinds.add('fanout')
    else:
      kinds.add('shared')
  if not kinds:
    return 'none'
  return 'both' if len(kinds) == 2 else kinds.pop()


def max_threads(layout):
  if layout.get('kind') == 'c16':
    return layout.get('num_threads', 0)
  return max(layout['threads'])


# -- building ---------------------------------------------------------------------


def _make_source(spec, layout, shard):
  from ml_metrics._src.chainables import io
  recs = c16lib.records(spec['n'], spec['rec'])
  kind = layout['source']
  if kind == 'seq':
    ds = io.SequenceDataSource(recs)
  elif kind == 'rr':
    ds = io.ShardedIterable(GenSource(recs, source_delay(spec)))
  elif kind == 'gen':
    ds = GenSource(recs, source_delay(spec))
  elif kind == 'list':
    ds = recs
  else:
    raise ValueError(kind)
  if shard is not None:
    if kind not in ('seq', 'rr'):
      raise ValueError('data source cannot be sharded')
    ds = ds.shard(shard[0], shard[1])
  return ds


def _add(t, el, spec, layout, shard):
  if el[0] == 'source':
    return t.data_source(_make_source(spec, layout, shard))
  if el[0] == 'agg':
    t = t.aggregate(fn=_AGGS[el[1]](), output_keys=el[2])
    if el[2] == 'agg' and spec.get('slice'):
      from ml_metrics._src.chainables import tree
      t = t.add_slice(tree.Key.SELF, 'bits', slice_bits)
    return t
  op = el[1]
  if op[0] == 'filter':
    return t.filter(c16lib.op_keep)
  fn = _OPS[op[0]]
  kwargs = dict(op[1]) if len(op) > 1 else {}
  if kwargs:
    fn = functools.partial(fn, **kwargs)
  return t.apply(fn=fn)


def build(spec, layout, shard=None):
  """The TreeTransform of `spec` laid out as `layout` (shard=(i, k) shards the source)."""
  from ml_metrics._src.chainables import transform
  if layout.get('kind') == 'c16':
    s = {k: v for k, v in spec.items() if k != 'mid_agg'}
    s['fused'] = layout.get('agg_fused', True)
    s['num_threads'] = layout.get('num_threads', 0)
    return c16lib.define_pipeline(s, *(shard or (0, 1)))
  T = transform.TreeTransform
  els = elements(spec)
  stages, threads = layout['stages'], layout['threads']
  assert len(stages) == len(els), (stages, els)
  pipeline = None
  if layout.get('piecewise'):
    for el, g in zip(els, stages):
      piece = _add(T.new(name=f's{g}', num_threads=threads[g]), el, spec, layout, shard)
      pipeline = piece if pipeline is None else pipeline.chain(piece)
    return pipeline
  cur, cur_g = None, None
  for el, g in zip(els, stages):
    if g != cur_g:
      if cur is not None:
        pipeline = cur if pipeline is None else pipeline.chain(cur)
      cur, cur_g = T.new(name=f's{g}', num_threads=threads[g]), g
    cur = _add(cur, el, spec, layout, shard)
  return cur if pipeline is None else pipeline.chain(cur)


# -- running ----------------------------------------------------------------------


def drain(it):
  """(batches, value carried by StopIteration)."""
  outs = []
  while True:
    try:
      outs.append(next(it))
    except StopIteration as e:
      return outs, e.value


def run_inline(spec, layout, shard=None, make_shard=None):
  """pipeline.make().iterate() drained in the calling thread."""
  from ml_metrics._src.chainables import io
  pipeline = build(spec, layout, shard)
  if make_shard is not None:
    runner = pipeline.make(shard=io.ShardConfig(make_shard[0], make_shard[1]))
  else:
    runner = pipeline.make()
  it = runner.iterate()
  outs, ret = drain(it)
  return {'outs': outs, 'agg': it.agg_result, 'ret': ret, 'state': it.agg_state}


def run_named_stages(spec, layout):
  """Strategy (c'): named_transforms() made and piped by hand, stage by stage."""
  pipeline = build(spec, layout)
  named = pipeline.named_transforms()
  its, it = [], None
  info = {'names': list(named), 'fns': [len(t.fns) for t in named.values()],
          'aggs': [len(t.agg_fns) for t in named.values()],
          'has_input_transform': [t.input_transform is not None for t in named.values()]}
  for t in named.values():
    it = t.make().iterate(it)
    its.append(it)
  outs, ret = drain(it)
  agg = None
  for x in its:
    r = x.agg_result
    if r is not None:
      agg = dict(agg or {})
      agg.update(r)
  return {'outs': outs, 'agg': agg, 'ret': ret, 'info': info}


_extra_lines = {'done': False}


def patch_for_sched():
  """Shims into iter_utils + statement-level pre-emption in the iterators a
  threaded stage shares (so a missing lock around them is visible)."""
  from vlib import qwork
  from ml_metrics._src.chainables import io, transform
  from ml_metrics._src.utils import iter_utils
  took, _ = qwork.patch_iter_utils()
  if not _extra_lines['done']:
    core.install_line_yield([
        transform._RunnerIterator.__next__,  # pylint: disable=protected-access
        io.SequenceIterator.__next__,
        io.DataIterator.__next__,
        iter_utils._RangeIterator.__next__,  # pylint: disable=protected-access
    ])
    _extra_lines['done'] = True
  return took


def run_sched(case, watchdog_s=30.0):
  """Strategy (b) under the deterministic scheduler; the consumer is controlled."""
  from vlib.sched import shims
  took = patch_for_sched()
  spec, layout = case['spec'], case['layout']
  sched = core.Scheduler(
      case['sched_seed'], strategy=case.get('sched', 'random'),
      p_sync=case.get('p_sync', 0.35), p_line=case.get('p_line', 0.08),
      max_steps=case.get('max_steps', 400000))
  first = len(shims.EXECUTORS)
  box = {}

  def main():
    try:
      pipeline = build(spec, layout)
      it = pipeline.make().iterate()
      outs, ret = drain(it)
      box.update(outs=outs, agg=it.agg_result, ret=ret)
    except core.SchedAbort:
      raise
    except BaseException as e:  # pylint: disable=broad-exception-caught
      box['exc'] = e

  sched.spawn(main, name='main')
  sched.run(watchdog_s)
  execs = shims.EXECUTORS[first:]
  del shims.EXECUTORS[first:]
  info = {'shims': took, 'executors': len(execs),
          'workers': sum(len(e._workers) for e in execs),  # pylint: disable=protected-access
          'submitted': sum(e.submitted for e in execs)}
  return sched, box, info


def run_interleaved(spec, layout, bufs):
  """Strategy (e): orchestrate.run_pipeline_interleaved, no pool, no master."""
  from ml_metrics._src.chainables import orchestrate
  pipeline = build(spec, layout)
  names = list(pipeline.named_transforms())
  resources = {
      name: orchestrate.RunnerResource(buffer_size=bufs[i % len(bufs)])
      for i, name in enumerate(names)}
  with orchestrate.run_pipeline_interleaved(pipeline, resources=resources) as runner:
    outs = list(iter(runner.result_queue))
  returned = list(runner.result_queue.returned)
  stage_returns = [list(s.result_queue.returned) for s in runner.stages]
  return {'outs': outs, 'returned': returned, 'stage_returns': stage_returns,
          'names': names}


def run_shards(spec, layout, k, via):
  """Strategy (d): all k shards, one after the other.  via='make' uses
  make(shard=ShardConfig(i, k)); via='ds' shards the data source when building."""
  outs, states, sizes = [], [], []
  for i in range(k):
    if via == 'make':
      r = run_inline(spec, layout, make_shard=(i, k))
    else:
      r = run_inline(spec, layout, shard=(i, k))
    outs.extend(r['outs'])
    sizes.append(len(r['outs']))
    states.append(r['state'])
  return outs, states, sizes


def merged_results(spec, layout, states, k):
  """Merges shard states in the ways a driver would; returns labelled results
  and the outcome of the strict-count probes."""
  results, probes = [], []
  for label, kw in (('default', {}), ('aggregate', {'mode': 'aggregate'})):
    runner = build(spec, layout).make(**kw)
    for strict in (0, k):
      merged = runner.merge_states(copy.deepcopy(states), strict_states_cnt=strict)
      res = runner.get_result(merged)
      results.append((f'{label}:strict={strict}', res))
      # The states as a one-shot iterable (how a driver streams worker states).
      merged = runner.merge_states((s for s in copy.deepcopy(states)),
                                   strict_states_cnt=strict)
      results.append((f'{label}:strict={strict}:generator', runner.get_result(merged)))
    targets = [(f'{label}:chained', runner)]
    if label == 'aggregate':
      targets += [(f'transform:{r.name}', r) for r in runner._runners]  # pylint: disable=protected-access
    for tlabel, tgt in targets:
      for what, sts, m in (('fewer_states', states[:-1], k),
                           ('count_plus_one', states, k + 1),
                           ('count_minus_one', states, k - 1)):
        if m <= 0:
          continue
        try:
          tgt.merge_states(copy.deepcopy(sts), strict_states_cnt=m)
          probes.append((tlabel, what, len(sts), m, None))
        except ValueError as e:
          probes.append((tlabel, what, len(sts), m, repr(e)[:80]))
  return results, probes
