"""C17 concurrent scenarios: 2-3 threads materialise cached expressions at the same time.

Engine E2 (vlib/sched): the threads are controlled, exactly one runs at a time and control
changes hands only at statement boundaries of `_maybe_lru_cache.wrapped_fn`, the `LruCache`
methods, `LazyFn.__hash__/result_` and inside the user callables (`SlowAcc.__init__`,
`slow_tagged`, `HCfg.__hash__`). A schedule is a pure function of the generator tuple, so a
witness replays exactly; nothing is decided by a timer (a watchdog / step bound expiry is
reported as inconclusive).

For every scenario the two caches are rebuilt with the library's own `_maybe_lru_cache`
decorator around the undecorated `result_` functions AFTER the threading shims were installed
(so a lock that a future version creates inside the decorator / LruCache cooperates with the
scheduler) and with the bound of the scenario; the originals are restored afterwards.

Families
  same_expr   every thread requests the SAME cached call (shared object / rebuilt equal
              expression / unpickled copy; as root, under a method chain, or as an argument).
              Eager twin: the callable runs once, every thread sees that one object.
  evict_race  the cache (bound 1-4) is full; every thread inserts its own DISTINCT cached
              calls. Eager twin: every request returns its value, the bound holds.
"""

from __future__ import annotations

import random
import traceback

from vlib.sched import core, shims

_state = {'installed': False, 'codes': 0}

SAME_EXPR_MECHANISM = 'cached-call-evaluated-per-concurrent-caller'
EVICT_MECHANISM = 'lru-eviction-race-keyerror'
SAME_KEY_MECHANISM = 'lru-same-key-insert-race-currsize'


def _raw(wrapped):
  """The undecorated function behind a `_maybe_lru_cache` wrapper (closure cell `fn`)."""
  for c in getattr(wrapped, '__closure__', None) or ():
    try:
      v = c.cell_contents
    except ValueError:
      continue
    if callable(v) and getattr(v, '__name__', '') == 'result_':
      return v
  return None


def install(lazy_fns, func_utils):
  took = shims.install(lazy_fns) + shims.install(func_utils)
  if not _state['installed']:
    fns = [lazy_fns._maybe_lru_cache,  # pylint: disable=protected-access
           lazy_fns._maybe_make,  # pylint: disable=protected-access
           func_utils.LruCache.__getitem__, func_utils.LruCache.__setitem__,
           func_utils.LruCache.cache_insert, func_utils.LruCache.__contains__,
           # __hash__ runs before a dict operation starts; __eq__ runs in the middle of the
           # probing of CPython's (Ordered)dict and is deliberately NOT a yield point (a
           # mutation at that moment can crash the interpreter instead of raising).
           lazy_fns.LazyFn.__hash__]
    for cls in (lazy_fns.LazyFn, lazy_fns.LazyObject):
      raw = _raw(cls.__dict__['result_'])
      if raw is not None:
        fns.append(raw)
    _state['codes'] = core.install_line_yield(fns)
    _state['installed'] = True
  return took


class FreshCaches:
  """Re-decorates LazyFn.result_ / LazyObject.result_ with fresh bounded caches."""

  def __init__(self, lazy_fns, fn_bound, obj_bound=1024):
    self.lf, self.fn_bound, self.obj_bound = lazy_fns, fn_bound, obj_bound
    self.saved = None
    self.mode = None

  def __enter__(self):
    lf = self.lf
    self.saved = (lf.LazyFn.__dict__['result_'], lf.LazyObject.__dict__['result_'])
    raw_fn, raw_obj = _raw(self.saved[0]), _raw(self.saved[1])
    if raw_fn is not None and raw_obj is not None:
      self.mode = 'fresh'
      lf.LazyFn.result_ = lf._maybe_lru_cache(maxsize=self.fn_bound)(raw_fn)  # pylint: disable=protected-access
      lf.LazyObject.result_ = lf._maybe_lru_cache(maxsize=self.obj_bound)(raw_obj)  # pylint: disable=protected-access
    else:
      # The decorator changed shape: use the process-wide caches with a harness-set bound.
      self.mode = 'shared'
      lf.clear_cache()
      lf.clear_object()
      lru = lf.LazyFn.result_.cache_info.__self__
      self.saved_max = lru.maxsize
      lru.maxsize = self.fn_bound
    return lf.LazyFn.result_.cache_info.__self__

  def __exit__(self, *exc):
    lf = self.lf
    if self.mode == 'fresh':
      lf.LazyFn.result_, lf.LazyObject.result_ = self.saved
    else:
      lf.LazyFn.result_.cache_info.__self__.maxsize = self.saved_max
      lf.clear_cache()
      lf.clear_object()
    return False


def gen_scenario(gen):
  rng = random.Random('c17conc:' + ':'.join(str(x) for x in gen))
  family = rng.choice(['same_expr', 'same_expr', 'evict_race'])
  sc = {'family': family, 'k': rng.randint(2, 3),
        'sched_seed': rng.randrange(1 << 30),
        'strategy': rng.choice(['random', 'random', 'pct']),
        'p_line': rng.choice([0.15, 0.3, 0.5])}
  if family == 'same_expr':
    sc['callee'] = rng.choice(['SlowAcc', 'slow_tagged'])
    sc['start'] = rng.randint(0, 3)
    sc['bound'] = rng.choice([128, 128, rng.randint(1, 6), rng.randint(1, 2)])
    forms = ['root', 'chain', 'nested']
    sc['forms'] = [rng.choice(forms) for _ in range(sc['k'])]
    sc['share'] = [rng.choice(['same_object', 'rebuilt', 'pickled']) for _ in range(sc['k'])]
  else:
    sc['bound'] = rng.randint(1, 4)
    sc['arg'] = rng.choice(['int', 'hcfg'])
    sc['per_thread'] = [rng.randint(1, 2) for _ in range(sc['k'])]
  return sc


def _root_site(e):
  """Raise site of the innermost exception of the cause / context chain."""
  # Only explicit causes (PEP 479 turns a StopIteration inside a generator expression into
  # RuntimeError with __cause__ set); __context__ would lead to the handled cache-miss KeyError.
  seen = set()
  while e.__cause__ is not None and id(e) not in seen:
    seen.add(id(e))
    e = e.__cause__
  return _site(e)


def _site(e):
  tb = traceback.extract_tb(e.__traceback__)
  if not tb:
    return None
  last = tb[-1]
  return f'{last.filename.rsplit("/", 1)[-1]}:{last.name}'


def _run_threads(sc, bodies):
  sched = core.Scheduler(sc['sched_seed'], strategy=sc['strategy'], p_sync=0.5,
                         p_line=sc['p_line'], max_steps=40000)
  out = [None] * len(bodies)

  def runner(i):
    try:
      out[i] = ('ok', bodies[i]())
    except core.SchedAbort:
      raise
    except Exception as e:  # pylint: disable=broad-exception-caught
      out[i] = ('exc', type(e).__name__, str(e)[:200], _site(e), _root_site(e))

  for i in range(len(bodies)):
    sched.spawn(runner, name=f'T{i}', args=(i,))
  sched.run(watchdog_s=20.0)
  return sched, out


def _witness(sched):
  return {'schedule_hash': sched.trace_hash(), 'thread_choices': sched.trace[:80],
          'switches': sched.switches, 'preempted_at': dict(sorted(
              sched.preempt_sites.items(), key=lambda kv: -kv[1])[:8])}


def run_case(ctx, gen):
  from ml_metrics._src.chainables import lazy_fns
  from ml_metrics._src.utils import func_utils
  from vlib.oracles import c17_lib as lib
  from vlib.oracles import c17_model as M
  install(lazy_fns, func_utils)
  sc = gen_scenario(gen)
  case = {'gen': list(gen)}
  lib.reset_locals()
  lib.reset_counts()
  lib.WORLD[0] = 'lazy'
  ctx.count('conc_schedules')
  ctx.count('conc_' + sc['family'])
  fc = FreshCaches(lazy_fns, sc['bound'])
  with fc as lru:
    ctx.count('conc_caches_' + fc.mode)
    if sc['family'] == 'same_expr':
      _same_expr(ctx, case, sc, lazy_fns, lib, M, lru)
    else:
      _evict_race(ctx, case, sc, lazy_fns, lib, M, lru)
  lib.reset_counts()


def _finish(ctx, case, sc, sched):
  """Common bookkeeping; returns False when the schedule gave no verdict."""
  ctx.count('conc_line_preemptions', sched.line_preemptions)
  ctx.count('conc_switches', sched.switches)
  desc = ('c17conc', sc['family'], sched.trace_hash(),
          tuple(sorted((k, repr(v)) for k, v in sc.items() if k != 'sched_seed')))
  ctx.case(desc, sched.switches >= 2)
  if sched.status != 'ok':
    ctx.inconclusive_case(f'scheduler status {sched.status}: {str(sched.witness)[:300]}', case)
    return False
  errs = sched.thread_errors()
  if errs:
    ctx.inconclusive_case(f'harness thread error {errs!r}'[:300], case)
    return False
  return True


def _same_expr(ctx, case, sc, lazy_fns, lib, M, lru):
  k = sc['k']
  if sc['callee'] == 'SlowAcc':
    cached = ('call', 'SlowAcc', (('c', sc['start']),), (), True, False)
    tag = 'Acc.new'
  else:
    cached = ('call', 'slow_tagged', (('c', sc['start']),), (), True, False)
    tag = 'slow_tagged'
  shared = M.build(cached, lazy_fns)
  exprs, nodes = [], []
  for i in range(k):
    share = sc['share'][i]
    if share == 'same_object':
      c = shared
    elif share == 'rebuilt':
      c = M.build(cached, lazy_fns)
    else:
      c = lazy_fns.pickler.loads(lazy_fns.pickler.dumps(shared))
    form = sc['forms'][i]
    if form == 'root':
      e = c
    elif form == 'chain':
      e = c.add(1) if sc['callee'] == 'SlowAcc' else c[3]
    else:
      e = lazy_fns.trace(lib.g)(i, c)
    exprs.append(e)
    nodes.append(form)
  keys_equal = all(e == shared and hash(e) == hash(shared)
                   for e in (M.build(cached, lazy_fns),
                             lazy_fns.pickler.loads(lazy_fns.pickler.dumps(shared))))
  bodies = [(lambda e=e: lazy_fns.maybe_make(e)) for e in exprs]
  sched, out = _run_threads(sc, bodies)
  if not _finish(ctx, case, sc, sched):
    return
  evaluations = lib.COUNTS['lazy'].get(tag, 0)
  final = lazy_fns.maybe_make(shared)       # afterwards: the one cached object
  evaluations_after = lib.COUNTS['lazy'].get(tag, 0)
  ctx.count('conc_same_expr_checks')
  problems = []
  if any(o[0] != 'ok' for o in out):
    problems.append('raised')
  objs = []
  for i, o in enumerate(out):
    if o[0] != 'ok':
      continue
    form = sc['forms'][i]
    if form == 'root':
      objs.append(o[1])
    elif form == 'nested':
      objs.append(o[1][2])
  if evaluations != 1 or evaluations_after != evaluations:
    problems.append('evaluated %d times' % evaluations_after)
  if any(x is not final for x in objs):
    problems.append('callers hold different objects')
  if sc['callee'] == 'SlowAcc':
    adds = sorted(o[1] for i, o in enumerate(out) if o[0] == 'ok' and sc['forms'][i] == 'chain')
    want_adds = [sc['start'] + j for j in range(1, len(adds) + 1)]
    if adds != want_adds:
      problems.append(f'add(1) results {adds} != {want_adds}')
  inv_ok = len(lru.data) == lru.currsize <= lru.maxsize
  if not inv_ok:
    problems.append('cache size bookkeeping')
  if not problems:
    return
  # Two root causes can show up here. (1) lookup-evaluate-store of _maybe_lru_cache is not
  # atomic: every overlapping caller evaluates. (2) On top of that LruCache.__setitem__
  # counts the SAME key as new once per concurrent writer: currsize exceeds len(data), the
  # next insert evicts below the bound (down to an empty cache: `next(iter(data))` then
  # raises StopIteration out of __setitem__).
  raised = [o for o in out if o[0] != 'ok']
  size_broken = lru.currsize != len(lru.data)
  same_victim = (keys_equal and evaluations > 1 and bool(raised) and all(
      o[1] == 'KeyError' and o[3] == 'func_utils.py:__setitem__' for o in raised))
  double_count = (keys_equal and evaluations > 1 and size_broken and not same_victim and all(
      o[4] == 'func_utils.py:__setitem__' for o in raised))
  per_caller = keys_equal and evaluations > 1 and not raised and not double_count
  if same_victim:
    # both writers of the one key evict it: the second `del self.data[oldest]` raises
    kind, mech = 'valid_cached_call_raised_keyerror', EVICT_MECHANISM
  elif double_count:
    kind, mech = 'lru_size_double_counted_for_one_key', SAME_KEY_MECHANISM
  elif per_caller:
    kind, mech = 'cached_call_evaluated_more_than_once', SAME_EXPR_MECHANISM
  else:
    kind, mech = 'concurrent_same_expression_differs', 'conc-same-expr/other'
  detail = {'scenario': {x: sc[x] for x in ('k', 'callee', 'start', 'bound', 'forms', 'share')},
            'expression': M.show(cached), 'callable_ran': evaluations_after, 'want_ran': 1,
            'problems': problems,
            'results': [repr(o)[:160] for o in out],
            'cache': {'len_data': len(lru.data), 'currsize': lru.currsize,
                      'maxsize': lru.maxsize, 'hits': lru.hits, 'misses': lru.misses},
            'interleaving': _witness(sched)}
  ctx.violation(kind, case, detail, mechanism=mech)


def _evict_race(ctx, case, sc, lazy_fns, lib, M, lru):
  k, bound = sc['k'], sc['bound']
  arg = (lambda n: ('c', lib.HCfg(n))) if sc['arg'] == 'hcfg' else (lambda n: ('c', n))
  node = lambda n: ('call', 'built', (arg(n),), (), True, False)
  for i in range(bound):          # fill the cache from the (uncontrolled) main thread
    lazy_fns.maybe_make(M.build(node(i), lazy_fns))
  if not (len(lru.data) == lru.currsize == bound):
    ctx.inconclusive_case('could not fill the cache', case)
    return
  plans = [[1000 + 10 * t + j for j in range(sc['per_thread'][t])] for t in range(k)]
  exprs = [[M.build(node(n), lazy_fns) for n in plan] for plan in plans]
  bodies = [(lambda es=es: [lazy_fns.maybe_make(e) for e in es]) for es in exprs]
  sched, out = _run_threads(sc, bodies)
  if not _finish(ctx, case, sc, sched):
    return
  ctx.count('conc_evict_race_checks')
  state_after = {'len_data': len(lru.data), 'currsize': lru.currsize, 'maxsize': lru.maxsize}
  try:
    nxt = ('ok', lazy_fns.maybe_make(M.build(node(2000), lazy_fns)))
  except Exception as e:  # pylint: disable=broad-exception-caught
    nxt = ('exc', type(e).__name__, str(e)[:120], _site(e))
  state_next = {'len_data': len(lru.data), 'currsize': lru.currsize, 'maxsize': lru.maxsize}
  want = [('ok', [('built', n, 0) for n in plan]) for plan in plans]
  inv_ok = all(s['len_data'] == s['currsize'] <= s['maxsize'] for s in (state_after, state_next))
  if out == want and nxt == ('ok', ('built', 2000, 0)) and inv_ok:
    return
  raised = [o for o in out if o[0] != 'ok']
  keyerr = bool(raised) and all(
      o[1] == 'KeyError' and o[3] == 'func_utils.py:__setitem__' for o in raised)
  # (distinct keys: the same-key double count of the same_expr family cannot occur here)
  if keyerr:
    kind, mech = 'valid_cached_call_raised_keyerror', EVICT_MECHANISM
  elif not raised and nxt[0] == 'ok' and not inv_ok:
    kind, mech = 'lru_bound_or_size_wrong', 'lru-concurrent-insert/invariant'
  else:
    kind, mech = 'concurrent_insert_differs', 'lru-concurrent-insert/other'
  ctx.violation(kind, case, {
      'scenario': {x: sc[x] for x in ('k', 'bound', 'arg', 'per_thread')},
      'inserted_by_thread': plans,
      'results': [repr(o)[:200] for o in out], 'want': repr(want)[:300],
      'cache_after': state_after, 'next_insert': repr(nxt)[:120], 'cache_after_next': state_next,
      'interleaving': _witness(sched)}, mechanism=mech)
