"""C02 - Pipeline aggregation and slicing equal a brute-force group-by.

Runs real `TreeTransform` pipelines over generated batched streams and compares every
reported key with an independent brute force (`vlib/oracles/c02_model.py`): flatten the
stream to rows, compute each row's slice memberships, apply the aggregate function
directly, once, to the selected columns of the member rows.

Observation points per case: `make()(input_iterator=stream)`, `iterate(stream)` then
`it.agg_result`, the `AggregateResult` carried by `StopIteration`, the data-source form
`make()()`, the `update_state`/`get_result` API, a split-and-`merge_states` run, and the
same pipeline without (or with fewer) slicers for the unsliced part.

A quarter of the cases come from the 'ext' input classes of `vlib/oracles/c02_ext.py`
(2-D input columns, default output key next to slicers, restricted values over a
feature cross, ragged / mixed-type list columns, Key.Literal inputs, tuple / namedtuple
/ ndarray results). A failure there gets the stable mechanism key of its input class
(`c02_ext.classify_raise` / `classify_diffs` / `typed_diffs`), decided from the
structure of the case and the form of the failure, never from a seed or a message alone.

A further share of the cases builds the same kind of pipeline as a CHAIN of 2-3
separately constructed blocks (`vlib/oracles/c02_chain.py`): every block has its own
aggregates and declares a random subset of the case's slicers, consecutive blocks of
one name are fused by `chain()`, other names start a new stage. Every block's sliced
and unsliced values are compared with the same brute force. The input class 'a slicer
declared by two blocks of one fused group' has the mechanism key
`fused-chain-duplicate-slicers-double-count`; a clear ValueError about the duplicate
slice when the chain is built is an accepted refusal of that input.
"""

from __future__ import annotations

import json
import random

ID = 'C02'
LEVEL = 'exploration'
RULE = (
    'a case is (pipeline spec, literal stream): pre-aggregate ops, 1-3 stacked '
    'aggregates (input/output key shapes, disable_slicing), 0-3 slicers (single, cross, '
    'within-values, fan-out slice_fn, user row masks, intra-example masks, each with or '
    'without replace_mask_false_with) over 0-6 batches of 0-6 rows with per-batch '
    'restricted feature alphabets; seeded random; non-trivial = >= 1 slicer, >= 2 '
    'batches and a slicer with >= 2 slice values of which one is absent from the first '
    'batch; distinct = hash of spec + stream. A quarter of the cases come from the '
    '"ext" input classes (one per case, on an ordinary pipeline; c02_ext.py): 2-D '
    '(batch x dim) input columns as ndarray / list of rows with dim equal to or '
    'different from the batch length, filtered or replaced; the default (SELF) output '
    'key next to slicers with scalar / list / dict results; restricted value sets over '
    'a cross of 2-3 features; ragged and mixed-type list columns with and without '
    'slicers; Key.Literal inputs (int, float, str, list) with and without slicers; '
    'results that are tuples, namedtuples, multi-element ndarrays or lists / dicts '
    'containing them under named, dict-form and default output keys (container types '
    'are compared, not only values). A failure is attributed to an input class only '
    'if the case (for values: the aggregate x slicer pair of every differing key) '
    'structurally belongs to it and the failure has the form that class produces. '
    'About an eighth of the cases are "chain" cases: a row / intra case with >= 2 '
    'aggregates laid out as 2-3 separately constructed blocks (aggregates partitioned '
    'at random, every block declares each slicer of the case with p = 0.65, names all '
    'equal = fused / all different = stages / mixed), joined with chain() and observed '
    'through __call__, iterate().agg_result and the data-source form')
ASSUMPTIONS = [
    'batches are dicts of equal-length columns (lists or numpy arrays of ints / strs); '
    'in the row / intra families nested columns are only aggregated unsliced or under '
    'intra-example masks; the ext family also row-slices 2-D columns and ragged / '
    'mixed-type LIST columns (str with int, int or str with None), in filter mode only '
    'for the ragged / mixed ones',
    'the values of one slicing feature column have one type (no 1 / True / 1.0 '
    'mixtures); mixed-type list columns are aggregate inputs only, never slicer keys',
    'slice names are unique per pipeline; a SELF-keyed (default output key) aggregate '
    'is the only aggregate of its pipeline (the library forbids mixing SELF with other '
    'output keys); with slicers its un-sliced result is read from the root of the '
    'reported tree and its slice results from the MetricKey(SELF, slice) entries; if '
    'the library rejects SELF + slicers when the pipeline is built the case is skipped',
    'restricted value sets over several features, add_slice({a: A, b: B}), mean the '
    'cross (a, b) restricted to rows with a in A and b in B, under the slice name '
    '(a, b) or a user name of the same arity',
    'aggregates taking the whole batch dict (Key.SELF input) are sliced only when every '
    'column is a numpy array and no replace value is set (apply_mask documents that dict '
    'leaves must be non-sequences)',
    'replace_mask_false_with is only combined with numeric aggregate inputs',
    'with replace_mask_false_with a batch in which a slice has no member row contributes '
    'nothing to that slice (the slicer emits no mask for it); rows masked out in batches '
    'where the slice does occur contribute the replacement value',
    'for a masked-out row of a 2-D (batch x dim) column replace_mask_false_with=v may '
    'yield either [v] * dim or v (both are accepted); user slice_mask_fn row masks are '
    'combined with 2-D inputs in filter mode only (add_slice documents user masks of '
    'the shape of the masked input)',
    'a Key.Literal input reaches the aggregate function unchanged on every call, also '
    'on the calls for slices',
    'typed results: a plain top-level tuple result is used with ONE output key only '
    '(then it is the value of that key, as TreeMapView.set stores it); multi-element '
    'ndarray results have >= 2 elements; SELF-keyed typed results are not sliced',
    'a user slice_mask_fn decides in which batches a slice is emitted (present values '
    'only, or a fixed vocabulary for every batch); the oracle models exactly that',
    'MeanAndVariance / ConfusionMatrixAggFn only see streams with >= 1 batch and no empty '
    'batch (DESIGN 5: a non-vacant series); merge_states for them splits strictly inside',
    'a row for which a fan-out slice_fn yields the same slice twice counts once (as the '
    'comment in transform_test.test_aggregate_slice_fn_fanout_with_multiple_inputs says)',
    'float results (shipped aggregators) are compared with rtol 1e-9 / atol 1e-12; '
    'harness aggregators are exact (ints, Fractions, row lists)',
    'chain cases: consecutive blocks of one name are ONE transform (chain() documents '
    'the fusing): its aggregates are sliced by every slice declared in the group, a '
    'slice declared by two of its blocks is still one slice; the aggregates of a stage '
    'are sliced by the slices declared in that stage only; pre-aggregate operators and '
    'the data source belong to the first block, every block holds >= 1 aggregate with '
    'a named output key; if chain() refuses a slice declared twice in a fused group '
    'with a ValueError naming the duplicate slice the case is skipped (counted)',
]
REQUIRED = [
    'selftest_checks', 'directed_cases', 'obs:call', 'obs:iterate', 'obs:stopiter', 'obs:datasource',
    'obs:update_state', 'obs:merge', 'twin_no_slicer_checks', 'slice_keys_checked',
    'unsliced_checks', 'late_slice_cases', 'empty_stream_cases',
    'slicer:single', 'slicer:cross', 'slicer:within', 'slicer:fan', 'slicer:rowmask',
    'slicer:intra', 'slicer:replace',
    'agg:collect', 'agg:sumcount', 'agg:fracmean', 'agg:fracmean_metric',
    'agg:fracmean_has', 'agg:meanvar', 'agg:cm',
    'shape:tuple_in', 'shape:dict_in', 'shape:self_in', 'shape:tuple_out',
    'shape:dict_out', 'shape:noslice',
    'ext:col2d_filter', 'ext:col2d_replace', 'ext:col2d_dim_eq_batch',
    'ext:col2d_dim_ne_batch', 'ext:selfkey_scalar_result', 'ext:selfkey_list_result',
    'ext:selfkey_dict_result', 'ext:wcross', 'ext:ragged_sliced', 'ext:ragged_unsliced',
    'ext:mixed_sliced', 'ext:mixed_unsliced', 'ext:literal_sliced',
    'ext:literal_unsliced', 'ext:shaped_tuple', 'ext:shaped_namedtuple',
    'ext:shaped_list_tuple', 'ext:shaped_dict_tuple', 'ext:shaped_dict_namedtuple',
    'ext:shaped_ndarray', 'ext:shaped_ndarray2d', 'ext:shaped_dict_ndarray',
    'ext:shaped_self', 'ext:shaped_sliced', 'typed_result_checks',
    'chain:cases', 'chain:fused', 'chain:staged', 'chain:dup_slicer_fused',
    'chain:dup_slicer_staged', 'chain:blocks_2', 'chain:blocks_3',
    'obs:chain_call', 'obs:chain_iterate', 'obs:chain_datasource',
]
CHUNK_TIMEOUT_S = {'quick': 240, 'thorough': 3000}


EXT_SHARE = 0.25  # share of cases drawn from the 'ext' input classes (c02_ext.py)
CHAIN_SHARE = 0.13  # share of cases laid out as a chain of blocks (c02_chain.py)


def plan(tier, seed):
  if tier == 'quick':
    chunks, per = 32, 160
  else:
    chunks, per = 64, 1800
  specs = [{'mode': 'selftest'}, {'mode': 'directed', 'rseed': seed}]
  for i in range(chunks):
    specs.append({'mode': 'random', 'index': i, 'count': per, 'rseed': seed})
  return specs


# ---------------------------------------------------------------------------
# Generator
# ---------------------------------------------------------------------------

ALPHA = {
    'f0': [0, 1, 2, 3, 4],
    'f1': [0, 1, 2],
    'f2': ['a', 'b', 'a b', 'b c', 'a a', 'c'],
    'f3': ['u', 'v', 'w'],
}
KIND = {'f0': 'fi', 'f1': 'fi', 'f2': 'fs', 'f3': 'fs', 'x': 'v', 'y': 'v',
        'yt': 'b', 'yp': 'b'}


def _batch_sizes(rng):
  r = rng.random()
  if r < 0.04:
    nb = 0
  elif r < 0.14:
    nb = 1
  else:
    nb = rng.randint(2, 6)
  return [0 if rng.random() < 0.12 else rng.randint(1, 6) for _ in range(nb)]


def _subset(rng, alpha, small=False):
  k = rng.randint(1, 2) if small else rng.randint(1, len(alpha))
  return rng.sample(alpha, k)


def gen_row_case(rng):
  sizes = _batch_sizes(rng)
  feats = sorted(rng.sample(['f0', 'f1', 'f2', 'f3'], rng.randint(2, 4)))
  stream, rid = [], 0
  for bi, n in enumerate(sizes):
    batch = {}
    for f in feats:
      allowed = _subset(rng, ALPHA[f], small=(bi == 0))
      batch[f] = [rng.choice(allowed) for _ in range(n)]
    batch['x'] = list(range(rid + 1, rid + n + 1))
    rid += n
    batch['y'] = [rng.randint(-3, 9) for _ in range(n)]
    batch['yt'] = [rng.randint(0, 1) for _ in range(n)]
    batch['yp'] = [rng.randint(0, 1) for _ in range(n)]
    stream.append(batch)
  cols = {c: KIND[c] for c in feats + ['x', 'y', 'yt', 'yp']}
  mode = rng.choice(['list', 'list', 'array', 'mixed'])
  containers = {c: (mode if mode != 'mixed' else rng.choice(['list', 'array']))
                for c in cols}
  all_array = all(v == 'array' for v in containers.values())
  case = {'family': 'row', 'containers': containers, 'stream': stream,
          'str_cols': [c for c in cols if cols[c] == 'fs']}

  # ---- pre-aggregate operators ------------------------------------------------
  pre = []
  assigned = set()  # an assign key may be used once per transform (library rule)
  if rng.random() < 0.5:
    for _ in range(rng.randint(1, 3)):
      choice = rng.choice(['add', 'parity', 'select', 'apply'])
      ints = [c for c, k in cols.items() if k == 'fi']
      vals = [c for c, k in cols.items() if k == 'v']
      if choice == 'add' and len(vals) >= 2 and 'z' not in assigned:
        a, b = rng.sample(vals, 2)
        pre.append({'op': 'assign', 'out': 'z', 'fn': 'add', 'in': [a, b]})
        cols['z'] = 'v'
        assigned.add('z')
      elif choice == 'parity' and ints and 'p' not in assigned:
        pre.append({'op': 'assign', 'out': 'p', 'fn': 'parity',
                    'in': [rng.choice(ints)]})
        cols['p'] = 'fi'
        assigned.add('p')
      elif choice in ('select', 'apply'):
        fcols = [c for c, k in cols.items() if k in ('fi', 'fs')]
        vcols = [c for c, k in cols.items() if k == 'v']
        bcols = [c for c, k in cols.items() if k == 'b']
        keep = rng.sample(fcols, rng.randint(min(2, len(fcols)), len(fcols)))
        keep += rng.sample(vcols, rng.randint(1, len(vcols)))
        if bcols and rng.random() < 0.7:
          keep += bcols
        names = [(c + '_r' if rng.random() < 0.3 and not c.endswith('_r') else c)
                 for c in keep]
        if choice == 'apply':
          # pack_neg negates the last column: make it a value column.
          j = next(i for i, c in enumerate(keep) if cols[c] == 'v')
          keep.append(keep.pop(j))
          names.append(names.pop(j))
          pre.append({'op': 'apply', 'fn': 'pack_neg', 'in': keep, 'out': names})
        else:
          op = {'op': 'select', 'keys': keep}
          if names != keep:
            op['as'] = names
          pre.append(op)
        cols = {n: cols[c] for c, n in zip(keep, names)}
  case['pre'] = pre
  has_shipped_ok = bool(sizes) and all(sizes)
  n_slicers = 0 if rng.random() < 0.12 else rng.randint(1, 3)
  want_replace = [rng.random() < 0.25 for _ in range(n_slicers)]
  any_replace = any(want_replace)

  # ---- aggregates --------------------------------------------------------------
  numeric = [c for c, k in cols.items() if k in ('fi', 'v', 'b')]
  anycols = list(cols)
  n_aggs = rng.choice([1, 1, 2, 2, 3])
  aggs = []
  for i in range(n_aggs):
    noslice = n_aggs > 1 and i > 0 and rng.random() < 0.3
    sliced = n_slicers > 0 and not noslice
    pool = numeric if (sliced and any_replace) else anycols
    kinds = ['collect', 'collect', 'sumcount', 'fracmean', 'fracmean_metric',
             'fracmean_has']
    if has_shipped_ok:
      kinds.append('meanvar')
      if sum(1 for c in cols if cols[c] == 'b') >= 2:
        kinds.append('cm')
    fn = rng.choice(kinds)
    a = {'fn': fn, 'noslice': noslice, 'opt': {}, 'single': False}
    if fn == 'collect':
      self_ok = all_array and not (sliced and any_replace)
      form = rng.choice(['single', 'tuple', 'tuple', 'dict'] + (['self'] if self_ok else []))
      k = 1 if form == 'single' else rng.randint(1, min(3, len(pool)))
      ins = rng.sample(pool, k)
      if form == 'self':
        a['in'] = None
        a['opt']['dict_cols'] = ins
      elif form == 'dict':
        a['in'] = {f'arg{j}': c for j, c in enumerate(ins)}
      else:
        a['in'] = ins
        a['single'] = form == 'single'
      if rng.random() < 0.3:
        a['opt']['as_dict'] = True
        a['out'] = rng.choice([{f'rows{i}': 'rows'}, {f'rows{i}': 'rows', f'n{i}': 'n'},
                               {f'n{i}': 'n'}])
      else:
        a['out'] = f'rows{i}'
    elif fn == 'sumcount':
      npool = [c for c in pool if cols[c] != 'fs']
      ins = rng.sample(npool, rng.randint(1, min(2, len(npool))))
      form = rng.choice(['single', 'tuple', 'dict']) if len(ins) == 1 else \
          rng.choice(['tuple', 'dict'])
      if form == 'dict':
        a['in'] = {f'arg{j}': c for j, c in enumerate(ins)}
      else:
        a['in'] = ins
        a['single'] = form == 'single'
      shape = rng.choice(['list', 'dict', 'tuple', 'scalar'])
      a['opt']['shape'] = shape
      a['out'] = {'list': f'sc{i}', 'dict': {f's{i}': 'sum', f'c{i}': 'count'},
                  'tuple': [f's{i}', f'c{i}'], 'scalar': f'sum{i}'}[shape]
    elif fn == 'fracmean':
      npool = [c for c in pool if cols[c] != 'fs']
      a['in'] = [rng.choice(npool)]
      a['single'] = rng.random() < 0.6
      if rng.random() < 0.4:
        a['opt']['as_dict'] = True
        a['out'] = {f'mean{i}': 'mean'}
      else:
        a['out'] = f'mean{i}'
    elif fn in ('fracmean_metric', 'fracmean_has'):
      npool = [c for c in pool if cols[c] != 'fs']
      if len(npool) >= 2 and rng.random() < 0.5:
        ins = rng.sample(npool, 2)
        a['opt']['pair'] = True
        a['in'] = ins if rng.random() < 0.5 else {'first': ins[0], 'second': ins[1]}
        a['out'] = [f'm{i}a', f'm{i}b']
      else:
        a['in'] = [rng.choice(npool)]
        a['single'] = rng.random() < 0.5
        a['out'] = f'fm{i}'
    elif fn == 'meanvar':
      npool = [c for c in pool if cols[c] != 'fs']
      a['in'] = [rng.choice(npool)]
      a['single'] = True
      a['out'] = f'mv{i}'
    elif fn == 'cm':
      b = [c for c in cols if cols[c] == 'b'][:2]
      a['in'] = b
      a['out'] = rng.choice([f'cm{i}', {f'p{i}': 'precision', f'cmx{i}': 'confusion_matrix'},
                             {f'r{i}': 'recall'}])
    aggs.append(a)
  if n_slicers == 0 and n_aggs == 1 and rng.random() < 0.4 and \
     not isinstance(aggs[0]['out'], (dict, list)):
    aggs[0]['out'] = None  # Key.SELF output
  case['aggs'] = aggs
  self_sliced = any(a['in'] is None and not a['noslice'] for a in aggs)

  # ---- slicers -------------------------------------------------------------------
  slicers, used = [], set()
  fcols = [c for c, k in cols.items() if k in ('fi', 'fs', 'b')]
  icols = [c for c, k in cols.items() if k in ('fi', 'b')]
  scols = [c for c, k in cols.items() if k == 'fs']

  def base_alpha(c):
    root = c[:-2] if c.endswith('_r') else c
    if root == 'p' or cols[c] == 'b':
      return [0, 1]
    return ALPHA[root]

  tries = 0
  while len(slicers) < n_slicers and tries < 40:
    tries += 1
    kind = rng.choice(['single', 'single', 'cross', 'within', 'fan', 'fan', 'rowmask'])
    s = {'kind': kind}
    if kind == 'single':
      s['keys'] = [rng.choice(fcols)]
      feats_name = tuple(s['keys'])
    elif kind == 'cross':
      if len(fcols) < 2:
        continue
      s['keys'] = rng.sample(fcols, rng.choice([2, 2, 3]) if len(fcols) >= 3 else 2)
      feats_name = tuple(s['keys'])
    elif kind == 'within':
      c = rng.choice(fcols)
      alpha = base_alpha(c)
      vals = rng.sample(alpha, rng.randint(1, len(alpha)))
      if rng.random() < 0.3:
        vals.append(99 if cols[c] != 'fs' else 'zz')  # never present
      s['keys'] = [c]
      if rng.random() < 0.3:
        s['values'] = vals[:1]
        s['scalar'] = True
      else:
        s['values'] = vals
      if rng.random() < 0.5 or (c,) in used:
        s['name'] = f'in_{c}_{len(slicers)}'
      feats_name = (s.get('name') or c,)
    elif kind == 'fan':
      opts = []
      if icols:
        opts += ['fan_int', 'item_of']
      if scols:
        opts += ['fan_split', 'fan_pos']
      if len(icols) >= 2 or len(scols) >= 2:
        opts += ['fan_or']
      if len(fcols) >= 2:
        opts += ['cross_str']
      fn = rng.choice(opts)
      s['fn'] = fn
      if fn in ('fan_int', 'item_of'):
        s['keys'] = [rng.choice(icols if fn == 'fan_int' else fcols)]
        if rng.random() < 0.5:
          s['name'] = f'{fn}_{len(slicers)}'
      elif fn == 'fan_split':
        s['keys'] = [rng.choice(scols)]
        if rng.random() < 0.5:
          s['name'] = f'tok_{len(slicers)}'
      elif fn == 'fan_pos':
        s['keys'] = [rng.choice(scols)]
        s['name'] = [f'pos_{len(slicers)}', f'tok_{len(slicers)}']
      elif fn == 'fan_or':
        s['keys'] = rng.sample(icols if len(icols) >= 2 else scols, 2)
        s['name'] = f'or_{len(slicers)}'
      else:
        s['keys'] = rng.sample(fcols, 2)
        s['name'] = [f'sa_{len(slicers)}', f'sb_{len(slicers)}']
      n = s.get('name')
      feats_name = tuple(n) if isinstance(n, list) else ((n,) if n else tuple(s['keys']))
    else:  # rowmask
      s['keys'] = [rng.choice(fcols)]
      s['name'] = f'rm_{len(slicers)}'
      s['mask_type'] = rng.choice(['list', 'array'])
      s['bare'] = rng.random() < 0.4
      feats_name = (s['name'],)
    if feats_name in used:
      continue
    if want_replace[len(slicers)] and not self_sliced:
      s['replace'] = rng.choice([0, -1, 7])
    used.add(feats_name)
    slicers.append(s)
  case['slicers'] = slicers
  return case


def _nested(rng, lens, alpha):
  return [[rng.choice(alpha) for _ in range(n)] for n in lens]


def gen_intra_case(rng):
  sizes = _batch_sizes(rng)
  sizes = [min(s, 4) for s in sizes]
  na_alpha, nb_alpha = ['u', 'v', 'w'], ['v', 'w', 'z']
  stream, eid, rid = [], 0, 0
  for bi, n in enumerate(sizes):
    la = [rng.randint(0, 3) for _ in range(n)]
    lb = [rng.randint(0, 3) for _ in range(n)]
    aa = _subset(rng, na_alpha, small=(bi == 0))
    ab = _subset(rng, nb_alpha, small=(bi == 0))
    nx = []
    for ln in la:
      nx.append(list(range(eid + 1, eid + ln + 1)))
      eid += ln
    batch = {
        'nx': nx,
        'ny': _nested(rng, la, list(range(0, 6))),
        'na': _nested(rng, la, aa),
        'nl': _nested(rng, lb, list(range(10, 16))),
        'nb': _nested(rng, lb, ab),
        'f0': [rng.choice(ALPHA['f0']) for _ in range(n)],
        'x': list(range(rid + 1, rid + n + 1)),
    }
    rid += n
    stream.append(batch)
  containers = {'f0': rng.choice(['list', 'array']), 'x': rng.choice(['list', 'array'])}
  case = {'family': 'intra', 'containers': containers, 'stream': stream, 'str_cols': []}
  ren = {}
  pre = []
  if rng.random() < 0.3:
    keys = ['nx', 'ny', 'na', 'nl', 'nb', 'f0', 'x']
    names = [k + '_r' if rng.random() < 0.4 else k for k in keys]
    op = {'op': 'select', 'keys': keys}
    if names != keys:
      op['as'] = names
    pre.append(op)
    ren = dict(zip(keys, names))
  R = lambda c: ren.get(c, c)
  case['pre'] = pre
  sig = rng.choice([['na'], ['na'], ['na', 'na'], ['na', 'nb'], ['nb'], ['nb', 'na']])
  aligned = {'na': ['nx', 'ny'], 'nb': ['nl']}
  aggs = []
  n_sliced = rng.choice([1, 1, 2])
  for i in range(n_sliced):
    ins = [R(rng.choice(aligned[a])) for a in sig]
    fn = rng.choice(['collect', 'collect', 'sumcount', 'fracmean'] +
                    (['fracmean_metric', 'fracmean_has'] if len(sig) == 2 else
                     ['fracmean_has', 'fracmean_metric']))
    a = {'fn': fn, 'noslice': False, 'opt': {}, 'single': False}
    form = rng.choice(['single', 'tuple', 'dict']) if len(ins) == 1 else \
        rng.choice(['tuple', 'dict'])
    if form == 'dict':
      a['in'] = {f'arg{j}': c for j, c in enumerate(ins)}
    else:
      a['in'] = ins
      a['single'] = form == 'single'
    if fn == 'collect':
      a['out'] = f'rows{i}'
    elif fn == 'sumcount':
      shape = rng.choice(['list', 'dict', 'tuple'])
      a['opt']['shape'] = shape
      a['out'] = {'list': f'sc{i}', 'dict': {f's{i}': 'sum', f'c{i}': 'count'},
                  'tuple': [f's{i}', f'c{i}']}[shape]
    elif fn == 'fracmean':
      a['out'] = f'mean{i}'
    else:
      if len(sig) == 2:
        a['opt']['pair'] = True
        a['out'] = [f'm{i}a', f'm{i}b']
      else:
        a['out'] = f'fm{i}'
    aggs.append(a)
  if rng.random() < 0.4:
    i = len(aggs)
    c = rng.choice(['x', 'f0', 'nx', 'nl'])
    aggs.append({'fn': rng.choice(['collect', 'sumcount']), 'noslice': True,
                 'opt': {}, 'single': True, 'in': [R(c)], 'out': f'flat{i}'})
    if aggs[-1]['fn'] == 'sumcount':
      aggs[-1]['opt']['shape'] = 'list'
    rng.shuffle(aggs)
  case['aggs'] = aggs
  slicers = []
  for j in range(rng.choice([1, 1, 2])):
    distinct = sorted(set(sig))
    if len(distinct) == 2 and rng.random() < 0.5:
      attrs = [rng.choice(distinct)]
    else:
      attrs = list(distinct) if rng.random() < 0.5 else list(reversed(distinct))
    masks = [attrs.index(a) if a in attrs else None for a in sig]
    if len(attrs) == len(distinct) and len(sig) == 2 and sig[0] == sig[1] and \
       rng.random() < 0.4:
      masks[rng.randrange(2)] = None
    s = {'kind': 'intra', 'attrs': [R(a) for a in attrs], 'masks': masks,
         'name': f'cls{j}'}
    if len(attrs) == 1 and all(m == 0 for m in masks) and rng.random() < 0.5:
      s['bare'] = True
    alpha = sorted(set().union(*[na_alpha if a == 'na' else nb_alpha for a in attrs]))
    if rng.random() < 0.35:
      s['presence'] = 'vocab'
      s['vocab'] = rng.sample(alpha, rng.randint(1, len(alpha))) + \
          (['q'] if rng.random() < 0.3 else [])
    elif rng.random() < 0.4:
      s['within'] = rng.sample(alpha, rng.randint(1, len(alpha)))
    if rng.random() < 0.3:
      s['replace'] = rng.choice([0, -1])
    slicers.append(s)
  case['slicers'] = slicers
  return case


def gen_case(rng):
  r = rng.random()
  if r < EXT_SHARE:
    from vlib.oracles import c02_ext
    return c02_ext.gen_ext_case(rng)
  if r < EXT_SHARE + CHAIN_SHARE:
    from vlib.oracles import c02_chain
    return c02_chain.gen_chain_case(rng, _gen_plain_case)
  return _gen_plain_case(rng)


def _gen_plain_case(rng):
  return gen_intra_case(rng) if rng.random() < 0.25 else gen_row_case(rng)


# ---------------------------------------------------------------------------
# Observation points
# ---------------------------------------------------------------------------

SHIPPED = ('meanvar', 'cm')


def _observe(obs, case, M, cut=None):
  stream = M.materialize_stream(case)
  if obs == 'call':
    return M.build(case).make()(input_iterator=stream)
  if obs == 'iterate':
    it = M.build(case).make().iterate(stream)
    outs = list(it)
    if len(outs) != len(stream):
      raise AssertionError(f'iterate yielded {len(outs)} batches for {len(stream)}')
    return it.agg_result
  if obs == 'stopiter':
    it = M.build(case).make().iterate(stream)
    while True:
      try:
        next(it)
      except StopIteration as e:
        if e.value is None or not hasattr(e.value, 'agg_result'):
          raise AssertionError(f'StopIteration carried {e.value!r}') from None
        return e.value.agg_result
  if obs == 'datasource':
    return M.build(case, data_source=stream).make()()
  if obs == 'single_inputs':
    return M.build(case).make()(stream[0])
  if obs == 'update_state':
    r = M.build(case).make()
    state = r.create_state()
    for batch in stream:
      state = r.update_state(state, batch)
    return r.get_result(state)
  if obs == 'merge':
    r1, r2 = M.build(case).make(), M.build(case).make()
    it1 = r1.iterate(stream[:cut])
    list(it1)
    it2 = r2.iterate(stream[cut:])
    list(it2)
    merged = r1.merge_states([it1.agg_state, it2.agg_state])
    return r1.get_result(merged)
  if obs == 'pickled':
    # The pipeline object is shipped to a worker (cloudpickle round trip) before
    # it is made and run; the result must not depend on that.
    from ml_metrics._src.chainables import lazy_fns
    shipped = lazy_fns.pickler.loads(lazy_fns.pickler.dumps(M.build(case)))
    it = shipped.make().iterate(stream)
    list(it)
    return it.agg_result
  if obs == 'no_slicers':
    return M.build(case, with_slicers=False).make()(input_iterator=stream)
  if obs == 'fewer_slicers':
    return M.build(case, slicer_subset=set(cut)).make()(input_iterator=stream)
  raise ValueError(obs)


def _is_empty_call_defect(obs, case, exc):
  return (obs in ('call', 'datasource', 'no_slicers', 'fewer_slicers')
          and not case['stream'] and isinstance(exc, ValueError)
          and 'last() was called on an empty iterable' in str(exc))


_KEEP = {'n': 2}


def _report_characterised(ctx, mech, kind, case, detail, keep=None):
  """A defect whose mechanism is already pinned down: every hit is counted
  ('viol:<mechanism>'), only the first `keep` per chunk are kept as witnesses so
  that they cannot crowd out a new violation class."""
  keep = _KEEP['n'] if keep is None else keep
  seen = ctx.counters.get('viol:' + mech, 0)
  ctx.count('viol:' + mech)
  if seen < keep:
    ctx.violation(kind, case, detail, mechanism=mech)


def _slicer_kind_of(case, key):
  from vlib.oracles import c02_model as M
  if key[1] is None:
    return 'unsliced'
  for s in case['slicers']:
    if M.slicer_features(s) == tuple(key[1][0]):
      return s['kind'] + ('+replace' if s.get('replace') is not None else '')
  return 'unknown-slicer'


def check_chain_case(ctx, case):
  """The pipeline of the case built as a chain of separately constructed blocks."""
  from vlib.oracles import c02_chain as CH
  from vlib.oracles import c02_ext as X
  from vlib.oracles import c02_model as M
  case = json.loads(json.dumps(case))
  try:
    want_full, stats = M.expected(case)
    feats = X.features_of(case, want_full)
    info = CH.layout_info(case)
    want = CH.expected_for_layout(want_full, feats, info)
  except Exception as e:  # pylint: disable=broad-exception-caught
    ctx.inconclusive_case(f'oracle raised {type(e).__name__}: {e}', case)
    return
  nb = len(case['stream'])
  n_sliced = sum(1 for k in want if k[1] is not None)
  ctx.case(case, nb >= 2 and n_sliced >= 2)
  ctx.count('chain:cases')
  ctx.count(f'chain:blocks_{len(case["chain"]["blocks"])}')
  ctx.count('chain:family_' + case.get('family', 'row'))
  if info['fused']:
    ctx.count('chain:fused')
  if info['staged']:
    ctx.count('chain:staged')
  if info['dup_pairs']:
    ctx.count('chain:dup_slicer_fused')
  if info['dup_across_stages']:
    ctx.count('chain:dup_slicer_staged')
  if nb == 0:
    ctx.count('chain:empty_stream')
  layout = [[b['name'], b['aggs'], b['slicers']] for b in case['chain']['blocks']]
  try:
    CH.build(case, M)
  except Exception as e:  # pylint: disable=broad-exception-caught
    if info['dup_declared'] and CH.is_duplicate_slice_refusal(e):
      # The input class 'slice declared twice in a fused group' is refused when the
      # chain is built, with an error naming the duplicate slice: declared invalid.
      ctx.count('chain:duplicate_slice_refused_at_build')
      ctx.observe('chain_duplicate_slice_refused_at_build', f'{type(e).__name__}: {str(e)[:120]}')
      return
    ctx.violation('raised', dict(case, _obs='chain_build'),
                  {'obs': 'chain_build', 'layout': layout,
                   'error': f'{type(e).__name__}: {str(e)[:300]}'},
                  mechanism='raised@chain_build')
    return
  for obs in CH.OBSERVATIONS:
    ctx.count('obs:chain_' + obs)
    tagged = dict(case, _obs='chain_' + obs)
    try:
      got = M.canon_result(CH.observe(obs, case, M), False)
    except Exception as e:  # pylint: disable=broad-exception-caught
      detail = {'obs': 'chain_' + obs, 'layout': layout,
                'error': f'{type(e).__name__}: {str(e)[:300]}'}
      if _is_empty_call_defect(obs, case, e):
        _report_characterised(ctx, 'call-empty-input-iterator', 'raised_on_empty_stream',
                              tagged, detail)
      else:
        ctx.violation('raised', tagged, detail, mechanism=f'raised@chain_{obs}')
      continue
    ctx.count('chain_slice_keys_checked', n_sliced)
    ctx.count('chain_unsliced_checks', len(want) - n_sliced)
    d = M.diff(want, got)
    if not d:
      continue
    kind, key, w, g = d[0]
    detail = {'obs': 'chain_' + obs, 'layout': layout, 'key': repr(key), 'want': w,
              'got': g, 'n_diffs': len(d), 'kinds': sorted({x[0] for x in d})}
    mech = CH.classify_diffs(feats, info, d)
    if mech:
      _report_characterised(ctx, mech, kind, tagged, detail)
    else:
      ctx.violation(kind, tagged, detail,
                    mechanism=f'{kind}@chain_{obs}/{_slicer_kind_of(case, key)}')
  if len(ctx.samples) < 3 and info['dup_pairs']:
    ctx.sample({'aggs': case['aggs'], 'slicers': case['slicers'], 'chain': case['chain'],
                'batches': [len(next(iter(b.values()))) for b in case['stream']]})


def check_case(ctx, case, want_override=None, tag=None):
  from vlib.oracles import c02_ext as X
  from vlib.oracles import c02_model as M
  if case.get('chain'):
    check_chain_case(ctx, case)
    return
  case = json.loads(json.dumps(case))
  try:
    want, stats = M.expected(case)
    want_unsliced, _ = M.expected(case, with_slicers=False)
  except Exception as e:  # pylint: disable=broad-exception-caught
    ctx.inconclusive_case(f'oracle raised {type(e).__name__}: {e}', case)
    return
  nb = len(case['stream'])
  self_output = case['aggs'][0]['out'] is None
  nontrivial = bool(case['slicers']) and nb >= 2 and stats['late']
  ctx.case(case, nontrivial)
  feats = X.features_of(case, want)
  for name in feats['counters']:
    ctx.count(name)
  want_alt = None
  if feats['alt_replace']:
    # Second accepted reading of "replace" for a masked-out row of a 2-D column.
    want_alt, _ = M.expected(case, repl_rows='scalar')
  if X.SELFSLICE in feats['case']:
    # A default (SELF) output key next to slice keys: if the library refuses the
    # combination when the pipeline is BUILT, the input is declared invalid.
    try:
      M.build(case)
    except Exception as e:  # pylint: disable=broad-exception-caught
      ctx.count('selfkey_rejected_at_build')
      ctx.observe('selfkey_rejected_at_build', f'{type(e).__name__}: {str(e)[:120]}')
      return
  if nontrivial:
    ctx.count('late_slice_cases')
  if nb == 0:
    ctx.count('empty_stream_cases')
  if any(not any(len(v) for v in b.values()) for b in case['stream']):
    ctx.count('empty_batch_cases')
  for s in case['slicers']:
    ctx.count('slicer:' + s['kind'])
    if s.get('replace') is not None:
      ctx.count('slicer:replace')
    if s['kind'] == 'fan':
      ctx.count('fan:' + s['fn'])
  for a in case['aggs']:
    ctx.count('agg:' + a['fn'])
    if a['in'] is None:
      ctx.count('shape:self_in')
    elif isinstance(a['in'], dict):
      ctx.count('shape:dict_in')
    elif not a.get('single'):
      ctx.count('shape:tuple_in')
    if isinstance(a['out'], dict):
      ctx.count('shape:dict_out')
    elif isinstance(a['out'], list):
      ctx.count('shape:tuple_out')
    elif a['out'] is None:
      ctx.count('shape:self_out')
    if a.get('noslice'):
      ctx.count('shape:noslice')
  for op in case['pre']:
    ctx.count('pre:' + op['op'])
  if want_override is not None:
    # selftest: the oracle itself must reproduce the literal expectation.
    ctx.count('selftest_checks')
    d = M.diff(want_override, {k: M.canon_value(v) for k, v in want.items()})
    if d:
      ctx.violation('selftest_oracle_differs_from_literal', case,
                    {'tag': tag, 'diffs': [list(map(repr, x)) for x in d[:4]]},
                    mechanism='harness-oracle')
    want = dict(want_override)
    want_unsliced = {k: v for k, v in want.items() if k[1] is None}

  has_shipped = any(a['fn'] in SHIPPED for a in case['aggs'])
  rng = random.Random(json.dumps(case, sort_keys=True))
  observations = [('call', None), ('iterate', None), ('stopiter', None),
                  ('datasource', None), ('update_state', None), ('pickled', None)]
  if nb == 1:
    observations.append(('single_inputs', None))
  if has_shipped:
    if nb >= 2:
      observations.append(('merge', rng.randint(1, nb - 1)))
  else:
    observations.append(('merge', rng.randint(0, nb)))
  results = {}
  for obs, arg in observations:
    ctx.count('obs:' + obs)
    try:
      raw = _observe(obs, case, M, arg)
      got = M.canon_result(raw, self_output)
    except Exception as e:  # pylint: disable=broad-exception-caught
      if _is_empty_call_defect(obs, case, e):
        _report_characterised(
            ctx, 'call-empty-input-iterator', 'raised_on_empty_stream',
            dict(case, _obs=obs),
            {'obs': obs, 'error': f'{type(e).__name__}: {e}',
             'want': {repr(k): v for k, v in want.items()}})
      else:
        cause = e.__cause__
        detail = {'obs': obs, 'error': f'{type(e).__name__}: {str(e)[:300]}',
                  'cause': f'{type(cause).__name__}: {str(cause)[:300]}' if cause else None}
        mech = X.classify_raise(feats, e)
        if mech:
          # The case belongs to an input class whose failure has exactly this form.
          _report_characterised(ctx, mech, 'raised', dict(case, _obs=obs), detail)
        else:
          ctx.violation('raised', dict(case, _obs=obs), detail,
                        mechanism=f'raised@{obs}')
      continue
    results[obs] = got
    d = M.diff(want, got)
    if d and want_alt is not None and not M.diff(want_alt, got):
      ctx.count('replace_2d_scalar_reading_accepted')
      d = []
    ctx.count('slice_keys_checked', sum(1 for k in want if k[1] is not None))
    ctx.count('unsliced_checks', sum(1 for k in want if k[1] is None))
    if d:
      kind, key, w, g = d[0]
      mech = f'{kind}@{obs}/{_slicer_kind_of(case, key)}'
      detail = {'obs': obs, 'key': repr(key), 'want': w, 'got': g, 'n_diffs': len(d),
                'kinds': sorted({x[0] for x in d}), 'cut': arg}
      class_mech = X.classify_diffs(feats, d)
      if self_output and not w and 'tree.NullMap object' in repr(g):
        # Key.SELF output whose value is falsy (0, [], {}): the root-level value is
        # lost when the per-runner result is flattened with TreeMapView.items().
        _report_characterised(ctx, 'self-output-falsy-result-nullmap', kind,
                              dict(case, _obs=obs), detail)
      elif class_mech:
        _report_characterised(ctx, class_mech, kind, dict(case, _obs=obs), detail)
      else:
        ctx.violation(kind, dict(case, _obs=obs), detail, mechanism=mech)
    if feats['shaped_keys']:
      # Container types of the reported values (tuple / namedtuple / ndarray), on the
      # keys whose list-ified values agree.
      ctx.count('typed_result_checks')
      for key, tw, tg, tmech in X.typed_diffs(feats, want, raw, self_output):
        detail = {'obs': obs, 'key': repr(key), 'want': tw, 'got': tg}
        if tmech:
          _report_characterised(ctx, tmech, 'result_type_differs',
                                dict(case, _obs=obs), detail)
        else:
          ctx.violation('result_type_differs', dict(case, _obs=obs), detail,
                        mechanism=f'result_type_differs@{obs}')
        break
  # Unsliced part must not depend on the slicer set.
  if case['slicers']:
    twins = [('no_slicers', None)]
    if len(case['slicers']) >= 2:
      keep = sorted(rng.sample(range(len(case['slicers'])), len(case['slicers']) - 1))
      twins.append(('fewer_slicers', keep))
    for obs, arg in twins:
      ctx.count('twin_no_slicer_checks')
      try:
        got = M.canon_result(_observe(obs, case, M, arg), self_output)
      except Exception as e:  # pylint: disable=broad-exception-caught
        if _is_empty_call_defect(obs, case, e):
          ctx.count('viol:call-empty-input-iterator')
          continue  # already reported at 'call'
        # Input classes of the pipeline that actually ran (fewer / no slicers).
        kept = [s for j, s in enumerate(case['slicers']) if arg and j in arg]
        mech = X.classify_raise(X.features_of(dict(case, slicers=kept), want), e)
        detail = {'obs': obs, 'error': f'{type(e).__name__}: {str(e)[:300]}'}
        if mech:
          _report_characterised(ctx, mech, 'raised', dict(case, _obs=obs), detail)
        else:
          ctx.violation('raised', dict(case, _obs=obs), detail,
                        mechanism=f'raised@{obs}')
        continue
      got_unsliced = {k: v for k, v in got.items() if k[1] is None}
      d = M.diff(want_unsliced, got_unsliced)
      if obs == 'no_slicers' and len(got_unsliced) != len(got):
        ctx.violation('key_invented', dict(case, _obs=obs),
                      {'obs': obs, 'got_keys': [repr(k) for k in got]},
                      mechanism='key_invented@no_slicers')
      if d:
        kind, key, w, g = d[0]
        detail = {'obs': obs, 'key': repr(key), 'want': w, 'got': g, 'kept': arg}
        if self_output and not w and 'tree.NullMap object' in repr(g):
          # the known falsy-root defect, here on the twin run of a SELF-keyed pipeline
          _report_characterised(ctx, 'self-output-falsy-result-nullmap',
                                'unsliced_differs', dict(case, _obs=obs), detail)
        else:
          ctx.violation('unsliced_changes_with_slicers', dict(case, _obs=obs), detail,
                        mechanism=f'unsliced_changes_with_slicers@{obs}')
      if 'call' in results:
        sliced_unsliced = {k: v for k, v in results['call'].items() if k[1] is None}
        dd = M.diff(sliced_unsliced, got_unsliced)
        if dd and self_output and all('tree.NullMap object' in repr(x) or not x
                                      for x in (dd[0][2], dd[0][3])):
          # A falsy root reported as a placeholder object on one or both runs: the
          # known falsy-root defect, reported above against the expected value.
          dd = []
        if dd:
          ctx.violation('unsliced_changes_with_slicers', dict(case, _obs=obs),
                        {'obs': obs, 'with': {repr(k): v for k, v in sliced_unsliced.items()},
                         'without': {repr(k): v for k, v in got_unsliced.items()}},
                        mechanism=f'unsliced_changes_with_slicers@{obs}')
  if len(ctx.samples) < 2 and nontrivial:
    ctx.sample({'pre': case['pre'], 'aggs': case['aggs'], 'slicers': case['slicers'],
                'batches': [len(next(iter(b.values()))) for b in case['stream']]})


# ---------------------------------------------------------------------------
# Selftest: the literal slice scenarios of transform_test.py
# ---------------------------------------------------------------------------


def _selftests():
  AB = [{'a': [1, 2, 1], 'b': [1, 9, 5]}]
  TOK = [{'a': ['x1 x2', 'x2', 'x1 x3'], 'b': [1, 9, 5]}]
  mean_b = {'fn': 'fracmean', 'in': ['b'], 'single': True, 'out': 'avg_b',
            'noslice': False, 'opt': {}}
  mean_b_self = {'fn': 'fracmean', 'in': None, 'single': False, 'out': 'avg_b',
                 'noslice': False, 'opt': {'dict_cols': ['b']}}

  def sk(feats, vals):
    return (tuple(feats), tuple(vals))

  def case(stream, aggs, slicers, containers=None, family='row'):
    return {'family': family, 'containers': containers or {}, 'stream': stream,
            'str_cols': [], 'pre': [], 'aggs': aggs, 'slicers': slicers}

  arr = {'a': 'array', 'b': 'array'}
  tests = []
  tests.append(('with_slices', case(
      AB,
      [{'fn': 'fracmean', 'in': ['a'], 'single': True, 'out': 'avg_a', 'noslice': True,
        'opt': {}},
       {'fn': 'fracmean', 'in': ['b'], 'single': True, 'out': {'avg_b': 'mean'},
        'noslice': False, 'opt': {'as_dict': True}}],
      [{'kind': 'single', 'keys': ['a']},
       {'kind': 'single', 'keys': ['b'], 'replace': 0}]),
      {('avg_a', None): [4.0 / 3], ('avg_b', None): [5.0],
       ('avg_b', sk(['a'], [1])): [3.0], ('avg_b', sk(['a'], [2])): [9.0],
       ('avg_b', sk(['b'], [1])): [1 / 3], ('avg_b', sk(['b'], [9])): [9 / 3],
       ('avg_b', sk(['b'], [5])): [5 / 3]}))
  tests.append(('within_values', case(
      AB, [mean_b],
      [{'kind': 'within', 'keys': ['a'], 'values': [1], 'scalar': True},
       {'kind': 'within', 'keys': ['b'], 'values': [1, 9]}]),
      {('avg_b', None): [5.0], ('avg_b', sk(['a'], [1])): [3.0],
       ('avg_b', sk(['b'], [1])): [1.0], ('avg_b', sk(['b'], [9])): [9.0]}))
  tests.append(('slicing_on_dict', case(
      AB, [mean_b_self], [{'kind': 'fan', 'keys': ['a'], 'fn': 'item_of'}], arr),
      {('avg_b', None): [5.0], ('avg_b', sk(['a'], [1])): [3.0],
       ('avg_b', sk(['a'], [2])): [9.0]}))
  tests.append(('fanout_multiple_inputs', case(
      AB, [mean_b_self],
      [{'kind': 'fan', 'keys': ['a', 'b'], 'fn': 'fan_or', 'name': 'a_or_b'}], arr),
      {('avg_b', None): [5.0], ('avg_b', sk(['a_or_b'], [1])): [3.0],
       ('avg_b', sk(['a_or_b'], [2])): [9.0], ('avg_b', sk(['a_or_b'], [5])): [5.0],
       ('avg_b', sk(['a_or_b'], [9])): [9.0]}))
  tests.append(('slice_fn_with_crosses', case(
      AB, [mean_b_self],
      [{'kind': 'fan', 'keys': ['a', 'b'], 'fn': 'cross_str', 'name': ['a_', 'b_']}], arr),
      {('avg_b', None): [5.0], ('avg_b', sk(['a_', 'b_'], ['1', '1'])): [1.0],
       ('avg_b', sk(['a_', 'b_'], ['2', '9'])): [9.0],
       ('avg_b', sk(['a_', 'b_'], ['1', '5'])): [5.0]}))
  tests.append(('slice_crosses', case(
      AB, [mean_b], [{'kind': 'cross', 'keys': ['a', 'b']}]),
      {('avg_b', None): [5.0], ('avg_b', sk(['a', 'b'], [1, 1])): [1.0],
       ('avg_b', sk(['a', 'b'], [2, 9])): [9.0], ('avg_b', sk(['a', 'b'], [1, 5])): [5.0]}))
  tests.append(('slice_fn_fanout', case(
      TOK, [mean_b], [{'kind': 'fan', 'keys': ['a'], 'fn': 'fan_split'}]),
      {('avg_b', None): [5.0], ('avg_b', sk(['a'], ['x1'])): [3.0],
       ('avg_b', sk(['a'], ['x2'])): [5.0], ('avg_b', sk(['a'], ['x3'])): [5.0]}))
  tests.append(('slice_fn_multi_fanout', case(
      TOK, [mean_b],
      [{'kind': 'fan', 'keys': ['a'], 'fn': 'fan_pos', 'name': ['pos', 'token']}]),
      {('avg_b', None): [5.0], ('avg_b', sk(['pos', 'token'], [0, 'x1'])): [3.0],
       ('avg_b', sk(['pos', 'token'], [0, 'x2'])): [9.0],
       ('avg_b', sk(['pos', 'token'], [1, 'x2'])): [1.0],
       ('avg_b', sk(['pos', 'token'], [1, 'x3'])): [5.0]}))
  # test_intra_example_slicing: matcher output given literally (True/False as 1/0).
  INTRA = [{
      'pred': [[0, 0], [0, 1]], 'label': [[0, 1, 2], [1, 1]],
      'attr_pred': [['a', 'b'], ['a', 'b']],
      'attr_label': [['e', 'f', 'g'], ['f', 'g']],
      'pm': [[1, 1], [0, 1]], 'lm': [[1, 0, 0], [1, 1]],
  }]
  pr = {'fn': 'fracmean_metric', 'in': {'matched_pred': 'pm', 'matched_label': 'lm'},
        'single': False, 'out': ['precision', 'recall'], 'noslice': False,
        'opt': {'pair': True}}
  base = {('precision', None): 0.75, ('recall', None): 0.6}
  tests.append(('intra_single_mask_on_pred', case(
      INTRA, [pr],
      [{'kind': 'intra', 'attrs': ['attr_pred'], 'masks': [0, None],
        'within': ['a', 'b'], 'name': 'pred_class'}], family='intra'),
      {**base, **{('precision', sk(['pred_class'], ['a'])): 0.5,
                    ('precision', sk(['pred_class'], ['b'])): 1.0,
                    ('recall', sk(['pred_class'], ['a'])): 0.6,
                    ('recall', sk(['pred_class'], ['b'])): 0.6}}))
  tests.append(('intra_single_mask_on_label', case(
      INTRA, [pr],
      [{'kind': 'intra', 'attrs': ['attr_label'], 'masks': [None, 0],
        'within': ['e', 'g'], 'name': 'label_class'}], family='intra'),
      {**base, **{('precision', sk(['label_class'], ['e'])): 0.75,
                    ('precision', sk(['label_class'], ['g'])): 0.75,
                    ('recall', sk(['label_class'], ['e'])): 1.0,
                    ('recall', sk(['label_class'], ['g'])): 0.5}}))
  tests.append(('intra_dual_mask', case(
      INTRA, [pr],
      [{'kind': 'intra', 'attrs': ['pred', 'label'], 'masks': [0, 1],
        'within': [0, 1], 'name': 'classes'}], family='intra'),
      {**base, **{('precision', sk(['classes'], [0])): 2 / 3,
                    ('precision', sk(['classes'], [1])): 1.0,
                    ('recall', sk(['classes'], [0])): 1.0,
                    ('recall', sk(['classes'], [1])): 2 / 3}}))
  # Oracle semantics of the 'ext' input classes, worked out by hand.
  GH = [{'g': ['u', 'v', 'u', 'u'], 'h': [0, 1, 1, 2], 'w': [2, 3, 5, 7]},
        {'g': ['v', 'u'], 'h': [1, 1], 'w': [11, 13]}]
  sc_w = {'fn': 'sumcount', 'in': ['w'], 'single': True, 'out': 'sc', 'noslice': False,
          'opt': {'shape': 'list'}}
  tests.append(('restricted_values_over_cross', case(
      GH, [sc_w], [{'kind': 'wcross', 'keys': ['g', 'h'], 'values': [['u'], [1, 2]]}]),
      {('sc', None): [41, 6], ('sc', sk(['g', 'h'], ['u', 1])): [18, 2],
       ('sc', sk(['g', 'h'], ['u', 2])): [7, 1]}))
  M2 = [{'m': [[1, 2, 3], [4, 5, 6]], 'f': ['p', 'q']}, {'m': [[7, 8, 9]], 'f': ['p']}]
  c2 = case(M2, [{'fn': 'sumcount', 'in': ['m'], 'single': True, 'out': 'ms',
                  'noslice': False, 'opt': {'shape': 'list'}}],
            [{'kind': 'single', 'keys': ['f'], 'replace': 0}], {'m': 'array2d'})
  c2['dims'] = {'m': 3}
  tests.append(('replace_rows_of_2d_column', c2,
                {('ms', None): [45, 9], ('ms', sk(['f'], ['p'])): [30, 9],
                 ('ms', sk(['f'], ['q'])): [15, 6]}))
  tests.append(('literal_input_sliced', case(
      [{'s': [3, 8, 6], 'f': ['p', 'q', 'p']}],
      [{'fn': 'collect', 'in': ['s', {'lit': 5}], 'single': False, 'out': 'rows',
        'noslice': False, 'opt': {}}],
      [{'kind': 'single', 'keys': ['f']}]),
      {('rows', None): [[3, 5], [8, 5], [6, 5]],
       ('rows', sk(['f'], ['p'])): [[3, 5], [6, 5]],
       ('rows', sk(['f'], ['q'])): [[8, 5]]}))
  return tests


def _run_selftest(ctx):
  for tag, case, literal in _selftests():
    check_case(ctx, case, want_override=literal, tag=tag)


def _directed():
  """Literal cases for input classes the random generator hits only rarely."""
  def case(stream, aggs, slicers=()):
    return {'family': 'row', 'containers': {}, 'stream': stream, 'str_cols': [],
            'pre': [], 'aggs': aggs, 'slicers': list(slicers)}

  def agg(fn, ins, out, **opt):
    return {'fn': fn, 'in': ins, 'single': len(ins) == 1, 'out': out, 'noslice': False,
            'opt': opt}

  two = [{'f0': [0, 1], 'x': [1, -1]}, {'f0': [1, 2], 'x': [2, -2]}]
  return [
      # empty stream, sliced and unsliced pipelines
      case([], [agg('collect', ['f0', 'x'], 'rows')], [{'kind': 'single', 'keys': ['f0']}]),
      case([], [agg('sumcount', ['x'], 'sc', shape='list')]),
      # Key.SELF output (the default) whose value is falsy / truthy
      case(two, [agg('sumcount', ['x'], None, shape='scalar')]),
      case([{'f0': [], 'x': []}], [agg('collect', ['x'], None)]),
      case([], [agg('collect', ['x'], None)]),
      case(two, [agg('sumcount', ['f0'], None, shape='scalar')]),
      case(two, [agg('collect', ['x'], None)]),
      # named output with a falsy value, sliced (slice sums are 0 too)
      case(two, [agg('sumcount', ['x'], 'sum', shape='scalar')],
           [{'kind': 'single', 'keys': ['f0']}]),
  ] + _directed_ext(case, agg)


def _directed_chain():
  """Literal chain layouts: one per naming pattern, with and without a slice that two
  blocks declare (see c02_chain.py)."""
  from vlib.oracles import c02_chain as CH
  base = CH.fallback_base()
  base['aggs'].append({'fn': 'fracmean', 'in': ['x'], 'single': True, 'out': 'mean2',
                       'noslice': False, 'opt': {}})
  base['slicers'].append({'kind': 'within', 'keys': ['f0'], 'values': [0, 1],
                          'name': 'in_f0'})
  layouts = [
      [['', [0], [0]], ['', [1, 2], [0]]],              # unnamed, same slice twice
      [['blk', [0], [0, 1]], ['blk', [1], [1]], ['blk', [2], [0]]],
      [['', [0, 1], [0]], ['', [2], [1]]],              # fused, disjoint slices
      [['A', [0], [0]], ['B', [1, 2], [0]]],            # stages, same slice in both
      [['A', [0], [0, 1]], ['B', [1], []], ['C', [2], [1]]],
      [['', [0], [0]], ['', [1], [0, 1]], ['C', [2], [0]]],
      [['A', [2], [1]], ['B', [0], [0]], ['B', [1], [1]]],
  ]
  out = []
  for lay in layouts:
    c = json.loads(json.dumps(base))
    c['chain'] = {'blocks': [{'name': n, 'aggs': a, 'slicers': s} for n, a, s in lay]}
    out.append(c)
  return out


def _directed_ext(case, agg):
  """One small case per 'ext' input class and sub-class (see c02_ext.py), so that
  every class is exercised whatever the seed."""
  f = {'kind': 'single', 'keys': ['f0']}
  fr = {'kind': 'single', 'keys': ['f0'], 'replace': -1}
  out = []
  # 2-D columns: dim == batch length (3) and dim != batch length, ndarray and list rows
  sq = [{'f0': [0, 1, 0], 'm': [[1, 2, 3], [4, 5, 6], [7, 8, 9]], 'x': [1, 2, 3]},
        {'f0': [1, 1], 'm': [[3, 1, 4], [1, 5, 9]], 'x': [4, 5]}]
  for container in ('array2d', 'list'):
    for sl in (f, fr):
      c = case(sq, [agg('collect', ['m', 'x'], 'mrows')], [sl])
      c['containers'] = {'m': container}
      c['dims'] = {'m': 3}
      out.append(c)
  # default output key next to slicers: scalar, list and dict results
  flat = [{'f0': [2, 0, 2], 'x': [5, 6, 7]}, {'f0': [0], 'x': [8]}]
  for shape in ('scalar', 'list', 'dict'):
    out.append(case(flat, [agg('sumcount', ['x'], None, shape=shape)], [f]))
  # restricted values over a cross of two / three features
  tri = [{'f0': [0, 1, 1, 0], 'f1': [2, 2, 0, 0], 'f2': ['a', 'b', 'b', 'a'],
          'x': [1, 2, 3, 4]}, {'f0': [1], 'f1': [2], 'f2': ['b'], 'x': [5]}]
  out.append(case(tri, [agg('collect', ['x'], 'rows')],
                  [{'kind': 'wcross', 'keys': ['f0', 'f1'], 'values': [[1], [2, 0]]}]))
  out.append(case(tri, [agg('collect', ['x'], 'rows')],
                  [{'kind': 'wcross', 'keys': ['f2', 'f0', 'f1'],
                    'values': [['b', 'zz'], [1, 0], [0]]}]))
  out.append(case(tri, [agg('collect', ['x'], 'rows')],   # no row is inside
                  [{'kind': 'wcross', 'keys': ['f0', 'f1'], 'values': [[7], [9]]}]))
  # ragged / mixed-type list columns, with and without a slicer
  rag = [{'f0': [3, 3, 1], 'lc': [[4], [], [2, 2, 8]]}, {'f0': [1, 3], 'lc': [[6, 1], [5]]}]
  mix = [{'f0': [3, 3, 1], 'lc': ['k', 12, 'q']}, {'f0': [1, 3], 'lc': [30, 'k']}]
  for stream in (rag, mix):
    out.append(case(stream, [agg('collect', ['lc'], 'lrows')], [f]))
    out.append(case(stream, [agg('collect', ['lc'], 'lrows')]))
  # a literal among the inputs, with and without a slicer, scalar and sequence
  for lit in (2, 'micro', [4, 4, 4]):
    a = agg('collect', ['x', {'lit': lit}], 'krows')
    out.append(case(flat, [a], [f]))
    out.append(case(flat, [a]))
  # typed results: named key, sliced; default key
  for rshape in ('tuple', 'namedtuple', 'list_tuple', 'dict_tuple', 'dict_namedtuple',
                 'ndarray', 'ndarray2d', 'dict_ndarray'):
    out.append(case(flat, [agg('shaped', ['x'], 'res', rshape=rshape)], [f]))
    out.append(case(flat, [agg('shaped', ['x'], None, rshape=rshape)]))
  return out


class _FlatCollect:

  def create_state(self):
    return []

  def update_state(self, state, xs):
    import numpy as np
    return state + [int(v) for v in np.asarray(xs).reshape(-1)]

  def merge_states(self, states):
    return [v for st in states for v in st]

  def get_result(self, state):
    return sorted(state)


def _sign_masks(m):
  import numpy as np
  a = np.asarray(m)
  yield 'pos', a > 0
  yield 'neg', a < 0


def check_ndmask_cases(ctx, rseed):
  """Intra-example masks given as n-D bool ndarrays over a (batch, dim) input held as
  an ndarray or as a list of lists: every slice aggregates exactly the masked cells."""
  import numpy as np
  from ml_metrics._src.chainables import transform
  rng = random.Random(rseed * 31 + 7)
  for i in range(24):
    n, d = rng.randint(1, 4), rng.randint(1, 4)
    batches = [[[rng.randint(-5, 5) for _ in range(d)] for _ in range(rng.randint(1, n))]
               for _ in range(rng.randint(1, 3))]
    as_list = i % 2 == 0
    case = {'ndmask': 1, 'rseed': rseed}
    ctx.count('ndmask_checks')
    ctx.case(('ndmask', rseed, i), True)
    stream = [{'m': b if as_list else np.array(b)} for b in batches]
    cells = [v for b in batches for row in b for v in row]
    want = {'pos': sorted(v for v in cells if v > 0), 'neg': sorted(v for v in cells if v < 0)}
    try:
      res = transform.TreeTransform.new().aggregate(
          fn=_FlatCollect(), input_keys='m', output_keys='sel').add_slice(
              'm', 'sign', slice_mask_fn=_sign_masks).make()(input_iterator=iter(stream))
      got = {k.slice.values[0]: v for k, v in dict(res).items() if not isinstance(k, str)}
    except Exception as e:  # pylint: disable=broad-exception-caught
      ctx.violation('raised', case, {'error': f'{type(e).__name__}: {e}'[:300],
                                     'input': 'list of lists' if as_list else 'ndarray',
                                     'batches': batches},
                    mechanism='nd-mask-on-' + ('list-input' if as_list else 'ndarray-input') + ':raised')
      continue
    got = {k: v for k, v in got.items() if v}
    if got != {k: v for k, v in want.items() if v}:
      ctx.violation('value_differs', case, {'got': got, 'want': want, 'batches': batches},
                    mechanism='nd-mask-on-' + ('list-input' if as_list else 'ndarray-input') + ':differs')


def run_chunk(ctx, spec):
  # The literal chunks come first in the report: one witness per mechanism there, so
  # that the first replay files cover different mechanisms.
  _KEEP['n'] = 1 if spec['mode'] in ('selftest', 'directed') else 2
  if spec['mode'] == 'selftest':
    _run_selftest(ctx)
    return
  if spec['mode'] == 'directed':
    for case in _directed() + _directed_chain():
      ctx.count('directed_cases')
      check_case(ctx, case)
    check_ndmask_cases(ctx, spec.get('rseed', 0))
    return
  rng = random.Random(spec['rseed'] * 1000003 + spec['index'] * 7919 + 17)
  for _ in range(spec['count']):
    case = gen_case(rng)
    check_case(ctx, case)


def run_case(ctx, case):
  if 'ndmask' in case:
    check_ndmask_cases(ctx, case['rseed'])
    return
  case = {k: v for k, v in case.items() if not k.startswith('_')}
  check_case(ctx, case)
