"""C05 - failures and stop requests propagate through queues without hanging.

Engine E2 (see C04).  Fault positions are enumerated: for every generated
configuration every (producer, position) failure, every stop point (with and
without an exception) and the two starvation scenarios with a timeout.
"""

from __future__ import annotations

import random

from vlib import runner
from vlib.props import C04

ID = 'C05'
LEVEL = 'exploration'
RULE = (
    'a case is (queue configuration as in C04, fault, schedule): fault = producer p raises '
    'at position j (every p, every j in 0..len) | external maybe_stop() / maybe_stop(exc) issued '
    'once k elements were produced (every k) | timeout configured with no producer / no consumer; '
    'schedules by seeded random-walk/PCT over synchronisation operations and statement '
    'boundaries. Non-trivial = the fault/stop landed while at least one other thread was blocked '
    'or mid-operation (>= 1 statement-level pre-emption and >= 2 threads); distinct = '
    '(configuration, fault, schedule trace) hash. Timing variants of every configuration '
    '(vlib/qwork.timing_variants, as in C04): timeouts that fire mid-stream because consumers / '
    'sources sleep, with ignore_error on and off and consumers that retry after TimeoutError; '
    'batch_then_away variant (vlib/qwork.away_variants, as in C04): only a STARVED put may time out. '
    'Native async scenarios (AsyncIteratorQueue, vlib/aqwork): the asyncio task of one producer '
    'is cancelled at a random element, either while its source is awaited or while the element is '
    'being put; consumers stop early through async_dequeue_as_iterator(num_steps=k) / the sync '
    'twin dequeue_as_iterator(num_steps=k) on a bounded queue fed by practically endless async or '
    'thread producers. Fault exception kinds: InjectedError, the exception types the queue uses '
    'itself (Empty, QueueEmpty, Full, TimeoutError, ...) and, for every producer at a random '
    'position (incl. a source whose iter() raises), an exception object that cannot be decorated '
    'with a note (frozen dataclass exception; exception with a read-only non-list __notes__)')
ASSUMPTIONS = [a for a in C04.ASSUMPTIONS
               if not a.startswith(('polling variants', 'awaitable variants'))] + [
    'consumers keep consuming until they see an end or an exception; elements still queued when a failure is observed may be dropped (C05 only forbids duplicates)',
    'maybe_stop() without an exception is only issued on queues whose max_enqueuer is preset or whose producer has started (documented: an unset max_enqueuer means no enqueuer has started)',
    'starvation scenarios: a timed wait expires exactly when no thread is enabled',
    'async scenarios run on native threads: a case that does not complete within its watchdog (3 s, cases take milliseconds) is run again with twice the watchdog; one expiry is inconclusive, two are a violation; its mechanism key is derived from the scenario and the recorded final state (which tasks are done, enqueue_done, exception), never from the expiry alone',
    'cancel scenario: a consumer that ends with any exception or with an end of stream is accepted; after a clean end only the tail of the cancelled producer (from the element in flight on) may be missing',
    'faults whose exception rejects notes: a consumer may end with the injected exception or with any error that chains it (__cause__ / __context__); the failing producer may leave enqueue_from_iterator with any exception',
    'tightpool scenario (executor with exactly as many threads as async enqueuers, P >= 2): the consumer asks first and only issues a stop once every enqueuer sits in put() on the full buffer, so the unchanged code never has a get queued behind blocked puts (that starvation is the caller\'s pool size, not claimed); a case in which that state is not reached within the watchdog is counted (async_tightpool_state_not_reached), not judged; 10 s watchdog, one retry at 20 s',
    'numsteps scenario: elements beyond the k taken (prefetched into the iterator cache or still queued) are dropped; after a chunk has one confirmed hang its remaining scenario cases are skipped (counter async_scn_cases_skipped_after_hang)',
]
REQUIRED = ['async_cases', 'schedules', 'line_preemptions', 'fault_cases', 'stop_cases',
            'timeout_cases', 'faults_fired', 'stops_issued', 'shim_threading_installed',
            'timing_cases', 'timing_timeouts_fired', 'timing_naps', 'timing_consumer_retries',
            'timing_put_timeouts', 'async_cancel_cases', 'async_numsteps_cases',
            'async_numsteps_sync_twin_cases', 'async_tightpool_stops_with_all_pool_threads_in_put',
            'fault_exc_rejects_notes_cases',
            'fault_exc_rejects_notes_fired', 'away_cases', 'away_parks',
            'away_batches_freeing_several_slots']
CHUNK_TIMEOUT_S = {'quick': 300, 'thorough': 3000}


def plan(tier, seed):
  n_cfg, n_sched = (96, 8) if tier == 'quick' else (800, 40)
  chunks = 32 if tier == 'quick' else 64
  sched_chunks = [{'chunk': i, 'chunks': chunks, 'n_cfg': n_cfg, 'n_sched': n_sched,
           'n_tsched': 4 if tier == 'quick' else 16,
           'rseed': seed} for i in range(chunks)] + [
      {'mode': 'async', 'chunk': j, 'rseed': seed,
       'n': 120 if tier == 'quick' else 4000} for j in range(2 if tier == 'quick' else 8)]
  # Scenario chunks first: a case that hangs costs two watchdogs of idle wall-clock.
  n_scn, per = (2, 40) if tier == 'quick' else (8, 400)
  scn_chunks = [{'mode': 'async_scn', 'scn': scn, 'chunk': j, 'rseed': seed, 'n': per}
                for j in range(n_scn) for scn in ('cancel', 'numsteps')]
  tight = [{'mode': 'async_scn', 'scn': 'tightpool', 'chunk': 0, 'rseed': seed,
            'n': 6 if tier == 'quick' else 60}]
  return scn_chunks + tight + sched_chunks


def scenario(case):
  if case.get('scn'):
    return case['scn']
  if case.get('fault'):
    return 'fault'
  if case.get('stop'):
    return 'stop-exc' if case['stop'].get('exc') else 'stop-clean'
  if case.get('expect'):
    return case['expect']
  return 'plain'


def classify_problem(kind, detail, case=None):
  sc = scenario(case) if case else ''
  return f'{sc}:' + _classify_problem(kind, detail)


def _classify_problem(kind, detail):
  if kind == 'deadlock' and isinstance(detail, dict):
    sites = set()
    for name, v in detail.items():
      st = [s for s in (v.get('stack') or []) if s.startswith('iter_utils.py')]
      fn = st[-1].split(':')[-1] if st else '?'
      sites.add(f'{name[0]}:{fn}')
    return 'queue-deadlock[' + ','.join(sorted(sites)) + ']'
  return f'queue-{kind}'


def run_one(ctx, case):
  from vlib import qwork
  sched, log, info = qwork.run_queue_case(case)
  ctx.count('schedules')
  ctx.count('line_preemptions', sched.line_preemptions)
  ctx.count('switches', sched.switches)
  ctx.count('timeouts_fired', sched.timeouts_fired)
  if 'threading' in info['shims']:
    ctx.count('shim_threading_installed')
  if case.get('fault'):
    ctx.count('fault_cases')
    ctx.count('faults_fired', sum(1 for e in log if e[0] == 'fail'))
    if qwork.rejects_notes(case):
      ctx.count('fault_exc_rejects_notes_cases')
      ctx.count('fault_exc_rejects_notes_' + case['fault']['exc'])
      ctx.count('fault_exc_rejects_notes_fired', sum(1 for e in log if e[0] == 'fail'))
  if case.get('stop'):
    ctx.count('stop_cases')
    ctx.count('stops_issued', sum(1 for e in log if e[0] == 'stop_request'))
  if case.get('expect'):
    ctx.count('timeout_cases')
  cfg_key = {k: v for k, v in case.items() if k != 'sched_seed'}
  nontrivial = (case['P'] + case['C'] >= 2) and sched.line_preemptions >= 1
  ctx.case((runner.stable_hash(cfg_key), sched.trace_hash()), nontrivial)
  if sched.status in ('watchdog', 'step_bound'):
    ctx.inconclusive_case(sched.status, case)
    return
  if case.get('scn'):
    return C04.check_timing(ctx, case, sched, log, info)
  if case.get('expect'):
    problems = analyse_timeout(case, sched, log)
  else:
    problems = qwork.analyse(case, sched, log)
  for kind, detail in problems:
    if qwork.rejects_notes(case):
      # keyed by the input class (+ the recorded evidence of the unrecorded failure);
      # any other defect on these inputs keeps a generic key of its own scenario name
      mech = (qwork.classify_notes_fault(case, kind, log, info)
              or 'fault-exc-rejects-notes:' + _classify_problem(kind, detail))
      C04.report_once_per_class(
          ctx, kind, case,
          {'detail': detail, 'queue_exception': repr(info['queue'].exception),
           'enqueue_done': bool(info['queue'].enqueue_done), 'log_tail': log[-25:]}, mech)
      continue
    ctx.violation(kind, case, {'detail': detail, 'log_tail': log[-25:]},
                  mechanism=classify_problem(kind, detail, case))
  if len(ctx.samples) < 3 and (case.get('fault') or case.get('stop')):
    ctx.sample({'case': case, 'events': log[:40]})


def analyse_timeout(case, sched, log):
  out = []
  if sched.status == 'deadlock':
    return [('deadlock', sched.witness)]
  if case['expect'] == 'get_timeout':
    ends = [e for e in log if e[0] == 'end']
    if len(ends) != case['C']:
      out.append(('consumer_no_end', ends))
    for e in ends:
      if not (e[2] == 'exc' and e[3] == 'TimeoutError'):
        out.append(('starved_get_no_timeout', e[1:]))
  else:
    ended = [e for e in log if e[0] in ('prod_return', 'prod_raise')]
    if len(ended) != case['P']:
      out.append(('producer_no_return', ended))
    # At least the producer stuck on the full buffer must raise TimeoutError.
    if not any(e[0] == 'prod_raise' and e[2] == 'TimeoutError' for e in ended):
      out.append(('starved_put_no_timeout', ended))
  return out


def cases_for_config(cfg, rng, tier):
  """All fault / stop / timeout variants of one configuration."""
  out = []
  P, lens = cfg['P'], cfg['lens']
  for p in range(P):
    for at in range(lens[p] + 1):
      out.append(dict(cfg, fault={'p': p, 'at': at}, timeout=None))
    # the source cannot even be opened (iter() raises), and exception types that
    # the queue itself uses internally
    out.append(dict(cfg, fault={'p': p, 'at': -1}, timeout=None))
    at = rng.randint(0, lens[p])
    out.append(dict(cfg, fault={'p': p, 'at': at,
                                'exc': rng.choice(['Empty', 'QueueEmpty', 'Full', 'TimeoutError',
                                                   'KeyError', 'IndexError', 'RuntimeError'])},
                    timeout=None))
    # an exception object that refuses add_note() (immutable / read-only __notes__), raised
    # by next() at a random position or by iter() of the source
    out.append(dict(cfg, fault={'p': p, 'at': rng.choice([-1] + list(range(lens[p] + 1))),
                                'exc': rng.choice(['FrozenNotesError', 'ReadOnlyNotesError'])},
                    timeout=None))
  total = sum(lens)
  for k in range(total + 1):
    for exc in (False, True):
      if not exc and not cfg['preset']:
        continue
      out.append(dict(cfg, stop={'after': k, 'exc': exc}, timeout=None))
  # a queue that ignores enqueue errors is stopped with an exception
  out.append(dict(cfg, stop={'after': rng.randint(0, total), 'exc': True}, timeout=None,
                  ignore_error=True))
  # starvation with a timeout configured
  out.append(dict(cfg, P=0, lens=[], preset=False, timeout=3.0, expect='get_timeout',
                  modes=[m for m in cfg['modes']], fault=None, stop=None))
  if cfg['cap'] > 0 and total > cfg['cap']:
    one = max(range(P), key=lambda i: lens[i])
    if lens[one] > cfg['cap']:
      out.append(dict(cfg, P=1, lens=[lens[one]], C=0, modes=['get'], timeout=3.0,
                      expect='put_timeout', fault=None, stop=None))
  return out


def run_async_chunk(ctx, spec):
  """AsyncIteratorQueue (asyncio producers, sync/async consumers) on native threads."""
  from vlib import aqwork
  rng = random.Random(spec['rseed'] * 9176 + spec['chunk'] * 131 + 1)
  for i in range(spec['n']):
    P = rng.choice([1, 2, 3])
    lens = [rng.randint(0, 5) for _ in range(P)]
    C = rng.choice([1, 2, 3])
    case = {'engine': 'async', 'P': P, 'lens': lens, 'C': C, 'cap': rng.choice([0, 1, 2, 3]),
            'modes': [rng.choice(['async', 'get', 'batch', 'batch_b']) for _ in range(C)],
            'delay_seed': rng.randrange(1 << 20)}
    if 1:
      p = rng.randrange(P)
      case['fault'] = {'p': p, 'at': rng.randint(0, lens[p])}
      if P > 1 and rng.random() < 0.3:
        case['endless_others'] = True
    run_async_one(ctx, case)


def run_async_one(ctx, case):
  from vlib import aqwork
  finished, log = aqwork.run_async_case(case, 30)
  if not finished:
    finished, log = aqwork.run_async_case(case, 30)
    if not finished:
      ctx.violation('no_completion_within_watchdog', case, {'log_tail': log[-20:]},
                    mechanism='async-queue-hang')
      return
    ctx.inconclusive_case('async case hit the watchdog once', case)
  ctx.count('async_cases')
  ctx.count('async_recv_events', sum(1 for e in log if e[0] == 'recv'))
  ctx.case(('async', case), case['P'] + case['C'] >= 3)
  for kind, detail in aqwork.analyse(case, log):
    ctx.violation(kind, case, {'detail': detail, 'log_tail': log[-20:]},
                  mechanism=f'async-queue-{kind}')


ASYNC_SCN_WATCHDOG_S = 3.0


def gen_cancel_case(rng):
  """The asyncio task of one async producer is cancelled mid-stream."""
  P = rng.choice([1, 2, 3])
  lens = [rng.randint(1, 6) for _ in range(P)]
  C = rng.choice([1, 2, 3])
  p = rng.randrange(P)
  return {'engine': 'async', 'scn': 'cancel', 'P': P, 'lens': lens, 'C': C,
          'cap': rng.choice([0, 1, 2, 3]),
          'modes': [rng.choice(['async', 'get', 'batch', 'batch_b']) for _ in range(C)],
          'cancel': {'p': p, 'at': rng.randrange(lens[p]), 'where': rng.choice(['anext', 'put'])},
          'delay_seed': rng.randrange(1 << 20), 'watchdog_s': ASYNC_SCN_WATCHDOG_S}


def gen_numsteps_case(rng, sync_twin):
  """Consumers stop early through (async_)dequeue_as_iterator(num_steps=k)."""
  P = rng.choice([1, 1, 2])
  C = rng.choice([1, 1, 2])
  if sync_twin:
    modes = ['iter_n'] * C
  else:
    modes = [rng.choice(['aiter_n', 'aiter_n', 'aiter_n', 'iter_n']) for _ in range(C)]
    modes[rng.randrange(C)] = 'aiter_n'
  return {'engine': 'async', 'scn': 'numsteps', 'P': P, 'lens': [3000] * P, 'C': C,
          'cap': rng.choice([1, 2, 3, 5]), 'modes': modes,
          'num_steps': [rng.randint(0, 6) for _ in range(C)],
          'prod_kind': rng.choice(['async', 'async', 'thread']),
          'delay_seed': rng.randrange(1 << 20), 'watchdog_s': ASYNC_SCN_WATCHDOG_S}


def run_tight_pool_chunk(ctx, spec):
  """Stop request with every thread of the queue's own executor blocked in put() (C05d)."""
  from vlib import aqwork
  rng = random.Random(spec['rseed'] * 9176 + 77)
  for _ in range(spec['n']):
    case = {'engine': 'async', 'scn': 'tightpool', 'P': rng.choice([2, 2, 3]),
            'cap': rng.choice([1, 2, 3]), 'delay_seed': rng.randrange(1 << 20)}
    if run_tight_pool_one(ctx, case) == 'hang':
      break


def run_tight_pool_one(ctx, case):
  from vlib import aqwork
  ctx.count('async_tightpool_cases')
  ctx.case(('async', case), True)
  status, rec = aqwork.run_tight_pool_case(case, 10.0)
  if status == 'hang':
    status, rec = aqwork.run_tight_pool_case(case, 20.0)
    if status == 'hang':
      ctx.violation('stop_request_does_not_unblock', case, rec, mechanism=aqwork.MECH_TIGHT_POOL)
      return 'hang'
    ctx.inconclusive_case('tightpool case hit the watchdog once', case)
    return 'done'
  if status == 'setup':
    ctx.count('async_tightpool_state_not_reached')
    return 'done'
  ctx.count('async_tightpool_stops_with_all_pool_threads_in_put')
  return 'done'


def run_async_scn_chunk(ctx, spec):
  scn = spec['scn']
  if scn == 'tightpool':
    return run_tight_pool_chunk(ctx, spec)
  rng = random.Random(spec['rseed'] * 9176 + spec['chunk'] * 131 + {'cancel': 2, 'numsteps': 3}[scn])
  n = spec['n']
  if scn == 'cancel':
    cases = [gen_cancel_case(rng) for _ in range(n)]
  else:
    # the sync twins (reference behaviour: the queue is stopped) run first
    cases = ([gen_numsteps_case(rng, True) for _ in range(n // 4)]
             + [gen_numsteps_case(rng, False) for _ in range(n - n // 4)])
  for i, case in enumerate(cases):
    if run_async_scn_one(ctx, case) == 'hang':
      # Every further hang costs two watchdogs of wall-clock; one witness per chunk.
      ctx.count('async_scn_cases_skipped_after_hang', len(cases) - i - 1)
      break


def run_async_scn_one(ctx, case):
  """Watchdog + one retry: one expiry is inconclusive, two are a violation."""
  from vlib import aqwork
  w = case.get('watchdog_s', 30)
  scn = case['scn']
  ctx.count(f'async_{scn}_cases')
  ctx.case(('async', case), case['P'] + case['C'] >= 2)
  finished, log = aqwork.run_async_case(case, w)
  if not finished:
    finished, log = aqwork.run_async_case(case, 2 * w)
    if not finished:
      ctx.violation('no_completion_within_watchdog', case,
                    {'final_state': aqwork._final(log), 'log_tail': log[-20:]},  # pylint: disable=protected-access
                    mechanism=aqwork.classify_hang(case, log))
      return 'hang'
    ctx.inconclusive_case('async scenario case hit the watchdog once', case)
  ctx.count('async_recv_events', sum(1 for e in log if e[0] == 'recv'))
  if scn == 'cancel':
    ctx.count('async_cancels_delivered',
              sum(1 for e in log if e[0] == 'prod_raise' and e[2] == 'CancelledError'))
  else:
    ctx.count('async_numsteps_sync_twin_cases' if 'aiter_n' not in case['modes']
              else 'async_numsteps_async_cases')
  for kind, detail in aqwork.analyse(case, log):
    ctx.violation(kind, case, {'detail': detail, 'log_tail': log[-20:]},
                  mechanism=f'{scn}:async-queue-{kind}')
  return 'done'


def run_chunk(ctx, spec):
  if spec.get('mode') == 'async':
    return run_async_chunk(ctx, spec)
  if spec.get('mode') == 'async_scn':
    return run_async_scn_chunk(ctx, spec)
  rng = random.Random(spec['rseed'] * 1000003 + 29)
  configs = [C04.gen_config(rng) for _ in range(spec['n_cfg'])]
  mine = [c for i, c in enumerate(configs) if i % spec['chunks'] == spec['chunk']]
  srng = random.Random(spec['rseed'] * 7919 + spec['chunk'] + 5)
  for cfg in mine:
    for variant in cases_for_config(cfg, srng, spec['tier']):
      for j in range(spec['n_sched']):
        case = dict(variant)
        case['sched_seed'] = srng.randrange(1 << 30)
        r = j % 4
        case['strategy'] = 'pct' if r == 3 else 'random'
        case['p_line'] = [0.05, 0.15, 0.4, 0.0][r]
        case['p_sync'] = [0.3, 0.5, 0.7, 0.0][r]
        run_one(ctx, case)
  # timeouts that fire mid-stream: sleeping consumers / producers (see qwork.timing_variants)
  from vlib import qwork
  trng = random.Random(spec['rseed'] * 7919 + spec['chunk'] + 5005)
  for cfg in mine:
    for variant in qwork.timing_variants(cfg, trng) + qwork.away_variants(cfg, trng):
      for j in range(spec.get('n_tsched', 8)):
        case = dict(variant)
        case['sched_seed'] = trng.randrange(1 << 30)
        r = j % 4
        case['strategy'] = 'pct' if r == 3 else 'random'
        case['p_line'] = [0.05, 0.15, 0.4, 0.0][r]
        case['p_sync'] = [0.3, 0.5, 0.7, 0.0][r]
        run_one(ctx, case)


def run_case(ctx, case):
  if case.get('engine') == 'async' and case.get('scn') == 'tightpool':
    return run_tight_pool_one(ctx, case)
  if case.get('engine') == 'async' and case.get('scn'):
    return run_async_scn_one(ctx, case)
  if case.get('engine') == 'async':
    return run_async_one(ctx, case)
  run_one(ctx, case)
