"""C09 - Sharding partitions a data source exactly; merged sequences behave like lists.

Oracle: plain Python lists. Every case is a tuple that fully determines the
execution, so replay is exact.
"""

from __future__ import annotations

import itertools
import random

ID = 'C09'
LEVEL = 'exploration'
RULE = (
    'cases are tuples (kind, n, k, nesting path, offset) for shards and '
    '(composition into possibly-empty parts, part container kind, read-ahead size, '
    'index or slice) for merged sequences; enumerated exhaustively up to the tier '
    'bound plus seeded random larger ones; non-trivial = k does not divide n, or '
    'k > n, or nesting >= 2, or offset > 0, or a composition with an empty part / '
    '>= 2 parts; distinct = the tuple itself')
ASSUMPTIONS = [
    'a shard rebuilt from its recorded state (from_state(shard.state)) must also RECORD that state again (state idempotence): a rebuilt shard is what a resumed job checkpoints next, a state that changes with every rebuild is not a position',
    'list / tuple / ndarray / user RandomAccess parts; data values are unique ints',
    'offsets range over 0..len(shard) (a resumed position inside the shard)',
    'slice bounds range over None and [-len-2, len+2] (clamped like list slicing)',
]
REQUIRED = ['shard_checks', 'merged_index_checks', 'merged_slice_checks',
            'from_state_checks', 'iterable_shard_checks', 'iterable_nested_shard_checks',
            'failing_record_checks', 'state_idempotence_checks',
            'state_idempotence_checks_iterable']
EXHAUSTIVE = {'quick': True, 'thorough': True}


class RA:
  """User random-access sequence with slice support (not a list subclass)."""

  def __init__(self, data):
    self._d = list(data)

  def __len__(self):
    return len(self._d)

  def __getitem__(self, i):
    return self._d[i]


class RANoSlice(RA):
  """Random access without slice support: forces the read-ahead fallback."""

  def __getitem__(self, i):
    if isinstance(i, slice):
      raise TypeError('no slicing')
    return self._d[i]


class FailingRecords:
  """Random access source whose records in `bad` cannot be read; slices are
  answered lazily (a generator, like the slices of a MergedSequences) or eagerly."""

  def __init__(self, lo, n, bad, lazy):
    self._lo, self._n, self._bad, self._lazy = lo, n, set(bad), lazy

  def __len__(self):
    return self._n

  def _read(self, i):
    if self._lo + i in self._bad:
      raise ValueError(f'unreadable record {self._lo + i}')
    return self._lo + i

  def __getitem__(self, i):
    if isinstance(i, slice):
      it = (self._read(j) for j in range(*i.indices(self._n)))
      return it if self._lazy else list(it)
    if i < 0:
      i += self._n
    if not 0 <= i < self._n:
      raise IndexError(i)
    return self._read(i)


def check_failing_records_case(ctx, case):
  """Skipping unreadable records never repeats or drops a readable one.

  case: sizes of the parts, bad = unreadable global indices, lazy, nested, k shards."""
  from ml_metrics._src.chainables import io
  from ml_metrics._src.utils import iter_utils
  sizes, bad, k = case['sizes'], set(case['bad']), case['k']
  parts, lo = [], 0
  for sz in sizes:
    parts.append(FailingRecords(lo, sz, bad, case['lazy']))
    lo += sz
  n = lo
  if case['nested'] and len(parts) >= 2:
    data = iter_utils.MergedSequences([iter_utils.MergedSequences(parts[:-1]), parts[-1]])
  elif len(parts) == 1:
    data = parts[0]
  else:
    data = iter_utils.MergedSequences(parts)
  ctx.case(('failing', tuple(sizes), tuple(sorted(bad)), case['lazy'], case['nested'], k),
           bool(bad) and n >= 2)
  ctx.count('failing_record_checks')
  want = [i for i in range(n) if i not in bad]
  ds = io.SequenceDataSource(data, ignore_error=True)
  got = []
  try:
    for i in range(k):
      got.extend(list(ds.shard(i, k)))
  except Exception as e:  # pylint: disable=broad-exception-caught
    ctx.violation('skipping_source_raised', case, {'error': f'{type(e).__name__}: {e}'[:200]},
                  mechanism='failing-records:raised')
    return
  if sorted(got) != want or (k == 1 and got != want):
    dup = sorted({x for x in got if got.count(x) > 1})
    missing = [x for x in want if x not in got]
    mech = 'failing-records:' + ('repeated' if dup and not missing else
                                 'lost' if missing and not dup else 'differs')
    if case['lazy'] or case['nested']:
      mech += ':lazy-slice'
    ctx.violation('failing_records_not_exactly_once', case,
                  {'got': got[:60], 'want': want[:60], 'repeated': dup[:10],
                   'missing': missing[:10]}, mechanism=mech)


def _run_failing(ctx, count, rseed):
  rng = random.Random(rseed * 15485863 + 41)
  for _ in range(count):
    nparts = rng.randint(1, 3)
    sizes = [rng.randint(0, 12) for _ in range(nparts)]
    n = sum(sizes)
    if rng.random() < 0.15:
      sizes = [rng.randint(60, 140)]
      n = sizes[0]
    nbad = rng.choice([0, 1, 1, 2, 3]) if n else 0
    bad = rng.sample(range(n), min(nbad, n))
    check_failing_records_case(ctx, {
        'failing': 1, 'sizes': sizes, 'bad': bad, 'lazy': rng.random() < 0.6,
        'nested': rng.random() < 0.3, 'k': rng.choice([1, 1, 2, 3])})


def _mk_part(kind, data):
  import numpy as np
  if kind == 'list':
    return list(data)
  if kind == 'tuple':
    return tuple(data)
  if kind == 'array':
    return np.asarray(list(data), dtype=int)
  if kind == 'ra':
    return RA(data)
  if kind == 'ranoslice':
    return RANoSlice(data)
  raise ValueError(kind)


def compositions(n, parts):
  """All ways to write n as an ordered sum of `parts` non-negative ints."""
  if parts == 1:
    yield (n,)
    return
  for first in range(n + 1):
    for rest in compositions(n - first, parts - 1):
      yield (first,) + rest


def plan(tier, seed):
  if tier == 'quick':
    nmax, merged_n, merged_p = 12, 6, 4
    rnd = 150
  else:
    nmax, merged_n, merged_p = 40, 9, 5
    rnd = 3000
  specs = []
  # shards: split n range over chunks
  for lo in range(0, nmax + 1, 2 if tier == 'quick' else 2):
    specs.append({'mode': 'shards', 'ns': list(range(lo, min(lo + 2, nmax + 1)))})
  specs.append({'mode': 'shards_random', 'count': rnd, 'rseed': seed})
  for n in range(0, merged_n + 1):
    for p in range(1, merged_p + 1):
      specs.append({'mode': 'merged', 'n': n, 'p': p})
  specs.append({'mode': 'merged_random', 'count': rnd, 'rseed': seed})
  for j in range(2):
    specs.append({'mode': 'failing', 'count': rnd // 2 + 50, 'rseed': seed * 2 + j})
  return specs


# ---------------------------------------------------------------------------
# Shard checks
# ---------------------------------------------------------------------------


def _mk_root(kind, n, split=None):
  """kind: 'seq' (SequenceDataSource over one list), 'seqs' (from_sequences)."""
  from ml_metrics._src.chainables import io
  data = list(range(n))
  if kind == 'seq':
    return io.SequenceDataSource(data), data
  if kind == 'seqs':
    parts, pos = [], 0
    for sz in split:
      parts.append(data[pos:pos + sz])
      pos += sz
    return io.SequenceDataSource.from_sequences(parts), data
  raise ValueError(kind)


def _apply_path(root, path):
  ds = root
  for (i, k, off) in path:
    ds = ds.shard(i, k, off) if off else ds.shard(i, k)
  return ds


def _expected_path(data, path):
  """Independent model: contiguous near-equal split, then drop `off` leading."""
  cur = list(data)
  for (i, k, off) in path:
    n = len(cur)
    q, r = divmod(n, k)
    sizes = [q + 1 if j < r else q for j in range(k)]
    start = sum(sizes[:i])
    cur = cur[start:start + sizes[i]][off:]
  return cur


K_GROW = 'from-state-grows-state-by-one-level-per-restore'
LAW_WITNESSES_PER_CLASS = 3


def _levels(state):
  """[(shard_index, num_shards, start_index), ...] root first (walked iteratively)."""
  out = []
  while state is not None:
    out.append((state.shard_index, state.num_shards, state.start_index))
    state = state.parent
  return out[::-1]


def _without_default_root_levels(levels):
  while len(levels) > 1 and levels[0] == (0, 1, 0):
    levels = levels[1:]
  return levels


def check_state_law(ctx, case, kind, recorded, rebuilt, extra):
  """The shard rebuilt from a recorded state records that very state.

  Key: input class = SequenceDataSource ('seq'); signature = the rebuilt shard's
  state is the recorded one plus ShardConfig(0, 1, 0) levels at the root end of the
  parent chain. Anything else gets a key of its own."""
  ctx.count('state_idempotence_checks')
  if kind == 'iter':
    ctx.count('state_idempotence_checks_iterable')
  a, b = _levels(recorded), _levels(rebuilt.state)
  if a == b:
    return
  grew = (kind == 'seq' and len(b) > len(a)
          and _without_default_root_levels(a) == _without_default_root_levels(b))
  mech = K_GROW if grew else f'{kind}-rebuilt-shard-records-another-state'
  ctx.count('viol:' + mech)
  seen = ctx.__dict__.setdefault('_c09_law_seen', {})
  seen[mech] = seen.get(mech, 0) + 1
  if seen[mech] <= LAW_WITNESSES_PER_CLASS:
    ctx.violation('rebuilt_shard_state_differs', case,
                  dict(extra, recorded=a[:8], state_of_the_rebuilt_shard=b[:8]),
                  mechanism=mech)


def check_shard_case(ctx, case):
  """case = {'root':..., 'n':..., 'split':..., 'prefix': path, 'k': k}.

  Checks the k shards of the data source reached by `prefix`.
  """
  root, data = _mk_root(case['root'], case['n'], case.get('split'))
  prefix = [tuple(p) for p in case['prefix']]
  k = case['k']
  parent = _apply_path(root, prefix)
  parent_elems = list(parent)
  expected_parent = _expected_path(data, prefix)
  nontrivial = bool(prefix) or (case['n'] % k != 0) or k > case['n'] or case['root'] == 'seqs'
  ctx.case(('shard', case['root'], case['n'], tuple(case.get('split') or ()),
            tuple(prefix), k), nontrivial)
  ctx.count('shard_checks')
  if parent_elems != expected_parent:
    ctx.violation('parent_elements', case,
                  {'got': parent_elems, 'want': expected_parent})
    return
  shards = [parent.shard(i, k) for i in range(k)]
  lists = [list(s) for s in shards]
  concat = list(itertools.chain.from_iterable(lists))
  if concat != parent_elems:
    ctx.violation('not_a_partition', case,
                  {'shards': lists, 'parent': parent_elems})
  sizes = [len(l) for l in lists]
  if max(sizes) - min(sizes) > 1:
    ctx.violation('unbalanced', case, {'sizes': sizes})
  for i, (s, l) in enumerate(zip(shards, lists)):
    if len(s) != len(l):
      ctx.violation('len_mismatch', case,
                    {'shard': i, 'len': len(s), 'true_len': len(l)})
    for rebuilt in (root.from_state(s.state), s.from_state(s.state)):
      ctx.count('from_state_checks')
      if list(rebuilt) != l or len(rebuilt) != len(l):
        ctx.violation('from_state_differs', case,
                      {'shard': i, 'got': list(rebuilt), 'want': l})
      check_state_law(ctx, case, 'seq', s.state, rebuilt, {'shard': i})
    # offsets inside the shard (a resumed position)
    for off in range(1, len(l) + 1):
      so = parent.shard(i, k, off)
      ctx.count('offset_checks')
      got = list(so)
      if got != l[off:] or len(so) != len(l) - off:
        ctx.violation('offset_shard', case,
                      {'shard': i, 'offset': off, 'got': got, 'want': l[off:],
                       'len': len(so)})
      rb = root.from_state(so.state)
      if list(rb) != l[off:]:
        ctx.violation('from_state_offset', case,
                      {'shard': i, 'offset': off, 'got': list(rb), 'want': l[off:]})
      check_state_law(ctx, case, 'seq', so.state, rb, {'shard': i, 'offset': off})


def check_iterable_case(ctx, case):
  from ml_metrics._src.chainables import io
  n, k = case['n'], case['k']
  data = list(range(n))
  src = case['src']
  if src == 'list':
    base = data
  elif src == 'range':
    base = range(n)
  else:
    base = {x: None for x in data}  # iterable, not a sequence
  root = io.ShardedIterable(base)
  ctx.case(('iter', src, n, k), (n % k != 0) or k > n)
  ctx.count('iterable_shard_checks')
  lists = []
  for i in range(k):
    s = root.shard(i, k)
    l = list(s)
    lists.append(l)
    if l != sorted(l):
      ctx.violation('iterable_order', case, {'shard': i, 'got': l})
    rebuilt = root.from_state(s.state)
    rb = list(rebuilt)
    ctx.count('from_state_checks')
    if rb != l:
      ctx.violation('iterable_from_state', case, {'shard': i, 'got': rb, 'want': l})
    check_state_law(ctx, case, 'iter', s.state, rebuilt, {'shard': i})
    if list(s) != l:
      ctx.violation('iterable_reiterate', case, {'shard': i})
  flat = sorted(itertools.chain.from_iterable(lists))
  if flat != data:
    ctx.violation('iterable_not_partition', case, {'shards': lists})
  # Nested: every shard re-sharded m ways partitions that shard (and the state of a
  # sub-shard rebuilds the same sub-shard from the root).
  for m in case.get('ms', (2, 3)):
    for i in range(k):
      parent = root.shard(i, k)
      ctx.count('iterable_nested_shard_checks')
      subs = []
      for j in range(m):
        sub = parent.shard(j, m)
        l = list(sub)
        subs.append(l)
        if l != sorted(l):
          ctx.violation('iterable_order', case, {'shard': [i, k, j, m], 'got': l},
                        mechanism='iterable-nested-shard')
        rebuilt = root.from_state(sub.state)
        rb = list(rebuilt)
        check_state_law(ctx, case, 'iter', sub.state, rebuilt, {'shard': [i, k, j, m]})
        ctx.count('from_state_checks')
        if rb != l:
          ctx.violation('iterable_from_state', case,
                        {'shard': [i, k, j, m], 'got': rb, 'want': l},
                        mechanism='iterable-nested-shard')
      if sorted(itertools.chain.from_iterable(subs)) != lists[i]:
        ctx.violation('iterable_nested_not_partition', case,
                      {'parent': [i, k], 'm': m, 'parent_elements': lists[i], 'subs': subs},
                      mechanism='iterable-nested-shard')
        return


def _run_shards(ctx, ns, depth2=True):
  for n in ns:
    for k in range(1, n + 4):
      for root in ('seq',):
        check_shard_case(ctx, {'root': root, 'n': n, 'prefix': [], 'k': k})
      for src in ('list', 'range', 'dict'):
        check_iterable_case(ctx, {'n': n, 'k': k, 'src': src})
      if not depth2:
        continue
      # nesting depth 2: every shard of every k, re-sharded m ways
      q, r = divmod(n, k)
      for i in range(k):
        ln = q + 1 if i < r else q
        for m in range(1, ln + 3):
          check_shard_case(
              ctx, {'root': 'seq', 'n': n, 'prefix': [(i, k, 0)], 'k': m})
    # merged roots: all 2-part splits
    for a in range(0, n + 1):
      for k in (1, 2, 3, n + 1):
        check_shard_case(ctx, {'root': 'seqs', 'n': n, 'split': [a, n - a],
                               'prefix': [], 'k': k})


def _run_shards_random(ctx, count, rseed, big):
  rng = random.Random(rseed * 7919 + 13)
  for _ in range(count):
    n = rng.choice([rng.randint(0, 30), rng.randint(0, 200),
                    rng.randint(0, big)])
    depth = rng.randint(1, 4)
    prefix = []
    cur = n
    for _d in range(depth - 1):
      k = rng.randint(1, max(1, min(cur + 3, 9)))
      i = rng.randrange(k)
      q, r = divmod(cur, k)
      ln = q + 1 if i < r else q
      off = rng.randint(0, ln) if rng.random() < 0.3 else 0
      prefix.append((i, k, off))
      cur = ln - off
    k = rng.randint(1, max(1, min(cur + 3, 12)))
    if rng.random() < 0.3 and n > 0:
      nparts = rng.randint(1, 4)
      cuts = sorted(rng.randint(0, n) for _ in range(nparts - 1))
      split = [b - a for a, b in zip([0] + cuts, cuts + [n])]
      case = {'root': 'seqs', 'n': n, 'split': split, 'prefix': prefix, 'k': k}
    else:
      case = {'root': 'seq', 'n': n, 'prefix': prefix, 'k': k}
    if n <= 300:
      check_shard_case(ctx, case)
    else:
      _check_shard_case_light(ctx, case)
    check_iterable_case(ctx, {'n': min(n, 300), 'k': rng.randint(1, 12),
                              'src': rng.choice(['list', 'range', 'dict'])})


def _check_shard_case_light(ctx, case):
  """Like check_shard_case without the O(len) offset sweep (large n)."""
  root, data = _mk_root(case['root'], case['n'], case.get('split'))
  prefix = [tuple(p) for p in case['prefix']]
  k = case['k']
  parent = _apply_path(root, prefix)
  parent_elems = list(parent)
  ctx.case(('shardL', case['root'], case['n'], tuple(case.get('split') or ()),
            tuple(prefix), k), True)
  ctx.count('shard_checks')
  if parent_elems != _expected_path(data, prefix):
    ctx.violation('parent_elements', case, None)
    return
  lists = [list(parent.shard(i, k)) for i in range(k)]
  if list(itertools.chain.from_iterable(lists)) != parent_elems:
    ctx.violation('not_a_partition', case, {'sizes': [len(l) for l in lists]})
  sizes = [len(l) for l in lists]
  if max(sizes) - min(sizes) > 1:
    ctx.violation('unbalanced', case, {'sizes': sizes})
  for i in range(k):
    s = parent.shard(i, k)
    if len(s) != len(lists[i]):
      ctx.violation('len_mismatch', case, {'shard': i})
    ctx.count('from_state_checks')
    rebuilt = root.from_state(s.state)
    if list(rebuilt) != lists[i]:
      ctx.violation('from_state_differs', case, {'shard': i})
    check_state_law(ctx, case, 'seq', s.state, rebuilt, {'shard': i})


# ---------------------------------------------------------------------------
# Merged sequences
# ---------------------------------------------------------------------------

PART_KINDS = ('list', 'tuple', 'array', 'ra', 'ranoslice')
READ_AHEAD = (1, 2, 3, 64)


def check_merged_case(ctx, case):
  """case = {'sizes': [...], 'kinds': [...], 'read_ahead': b}."""
  from ml_metrics._src.utils import iter_utils
  sizes, kinds, b = case['sizes'], case['kinds'], case['read_ahead']
  n = sum(sizes)
  data = list(range(100, 100 + n))
  parts, pos = [], 0
  for sz, kind in zip(sizes, kinds):
    parts.append(_mk_part(kind, data[pos:pos + sz]))
    pos += sz
  m = iter_utils.MergedSequences(parts, max_batch_size=b)
  nontrivial = len(sizes) >= 2 or 0 in sizes
  ctx.case(('merged', tuple(sizes), tuple(kinds), b), nontrivial)
  if len(m) != n:
    ctx.violation('merged_len', case, {'got': len(m), 'want': n})
  got = [int(x) for x in m]
  if got != data:
    ctx.violation('merged_iter', case, {'got': got, 'want': data})
  for i in range(-n - 2, n + 2):
    ctx.count('merged_index_checks')
    try:
      want = data[i]
      want_err = None
    except IndexError:
      want, want_err = None, IndexError
    try:
      g = int(m[i])
      err = None
    except Exception as e:  # pylint: disable=broad-exception-caught
      g, err = None, type(e)
    if want_err is None:
      if err is not None or g != want:
        ctx.violation(
            'merged_index', dict(case, index=i),
            {'index': i, 'got': g, 'err': repr(err), 'want': want},
            mechanism=_index_mechanism(sizes, i, n))
    elif -n <= i < n:
      pass
    else:
      # out of range: must raise IndexError (like a list)
      if err is not IndexError:
        ctx.violation('merged_index_oob', dict(case, index=i),
                      {'index': i, 'got': g, 'err': repr(err)},
                      mechanism='merged-oob-index-no-error')
  bounds = [None] + list(range(-n - 2, n + 3))
  for a in bounds:
    for bb in bounds:
      ctx.count('merged_slice_checks')
      want = data[a:bb]
      try:
        g = [int(x) for x in m[a:bb]]
        err = None
      except Exception as e:  # pylint: disable=broad-exception-caught
        g, err = None, repr(e)
      if g != want:
        in_range = all(x is None or -n <= x <= n for x in (a, bb))
        norm = lambda x, d: d if x is None else (x + n if x < 0 else x)
        reversed_ = in_range and norm(a, 0) > norm(bb, n)
        if not in_range:
          mech = 'merged-slice-out-of-range-bounds'
        elif reversed_:
          mech = 'merged-slice-start-after-stop'
        else:
          mech = 'merged-slice'
        ctx.violation('merged_slice', dict(case, slice=[a, bb]),
                      {'slice': [a, bb], 'got': g, 'err': err, 'want': want},
                      mechanism=mech)


def _index_mechanism(sizes, i, n):
  """Classifies an index failure: index lands right after an empty part."""
  idx = i + n if i < 0 else i
  pos = 0
  for sz in sizes:
    if sz == 0 and pos == idx:
      return 'merged-index-after-empty-part'
    pos += sz
  return 'merged-index'


def _run_merged(ctx, n, p):
  rng = random.Random(n * 31 + p)
  for sizes in compositions(n, p):
    for b in READ_AHEAD:
      # one homogeneous kind rotation + one mixed assignment per composition
      for kinds in (['list'] * p,
                    [PART_KINDS[(j + b + n) % len(PART_KINDS)] for j in range(p)],
                    [rng.choice(PART_KINDS) for _ in range(p)]):
        check_merged_case(ctx, {'sizes': list(sizes), 'kinds': kinds,
                                'read_ahead': b})


def _run_merged_random(ctx, count, rseed):
  rng = random.Random(rseed * 104729 + 7)
  for _ in range(max(1, count // 10)):
    p = rng.randint(1, 7)
    sizes = [rng.choice([0, 0, 1, 2, 3, 5, 8, 13, 70]) for _ in range(p)]
    if sum(sizes) > 90:
      sizes = [min(s, 9) for s in sizes]
    kinds = [rng.choice(PART_KINDS) for _ in range(p)]
    check_merged_case(ctx, {'sizes': sizes, 'kinds': kinds,
                            'read_ahead': rng.choice([1, 2, 3, 4, 5, 16, 64])})


def run_chunk(ctx, spec):
  mode = spec['mode']
  if mode == 'shards':
    _run_shards(ctx, spec['ns'])
  elif mode == 'shards_random':
    _run_shards_random(ctx, spec['count'], spec['rseed'],
                       2000 if spec['tier'] == 'thorough' else 600)
  elif mode == 'merged':
    _run_merged(ctx, spec['n'], spec['p'])
  elif mode == 'merged_random':
    _run_merged_random(ctx, spec['count'], spec['rseed'])
  elif mode == 'failing':
    _run_failing(ctx, spec['count'], spec['rseed'])
  if ctx.evaluations and not ctx.samples:
    ctx.sample({'mode': mode, 'spec': {k: v for k, v in spec.items() if k != 'tier'}})


def run_case(ctx, case):
  if 'failing' in case:
    check_failing_records_case(ctx, case)
  elif 'sizes' in case:
    check_merged_case(ctx, {k: case[k] for k in ('sizes', 'kinds', 'read_ahead')})
  elif 'src' in case:
    check_iterable_case(ctx, case)
  else:
    check_shard_case(ctx, case)
