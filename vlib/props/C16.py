"""C16 - fault-free distributed execution equals in-process execution.

Engine E4 + E3: the real WorkerPool / PrefetchedCourierServer / orchestrate
drivers over the simulated transport on real threads, no faults, seeded handler
delays.  Oracle: the same pipeline evaluated in process and by an independent
plain-Python reference; exact integer aggregators.
"""

from __future__ import annotations

import queue
import random
import time

ID = 'C16'
LEVEL = 'exploration'
EXTRA_PATH = ('vlib/fakecourier',)
RULE = (
    'a case is (pipeline spec: 0-40 integers in records of 1-5, 1-3 element-wise/filter operators, '
    'exact aggregator fused or as its own stage; driver sharded_pipelines_as_iterator with W=1-4 '
    'workers, K=1-6 shards, iterate_batch_size 1-4 | run_pipeline_interleaved with a master server, '
    'W workers on the apply stage, buffer sizes 0-3; seeded handler delays). Also merge_states with '
    'every strict_states_cnt != number of states. Non-trivial = (W >= 2 or K >= 2) and >= 2 '
    'elements; distinct = hash of (spec, driver, W, K, sizes)')
ASSUMPTIONS = [
    'transport stand-in semantics (see C14); no faults are injected; time is not dilated',
    'records are pre-batched lists, no re-batching operator is used, so the multiset of output batches does not depend on the partition',
    'a case that does not complete within 120 s (typical: < 1 s) is retried once; two consecutive watchdog expiries of the same case are reported as a hang',
]
REQUIRED = ['sharded_cases', 'interleaved_cases', 'strict_cnt_checks', 'batches_compared',
            'agg_results_compared', 'transport_calls']
CHUNK_TIMEOUT_S = {'quick': 400, 'thorough': 3000}


def gen_spec(rng):
  n = rng.choice([0, 1, 2, 5, 9, 17, 40])
  ops = []
  for j in range(rng.randint(1, 3)):
    # (a filter as the very first operator of a stage is C08's business)
    k = rng.choice(['affine', 'square', 'filter', 'slow'] if j else ['affine', 'square', 'slow'])
    if k == 'affine':
      ops.append(['affine', {'a': rng.randint(1, 3), 'b': rng.randint(0, 5)}])
    elif k == 'slow':
      ops.append(['slow', {'delay': rng.choice([0.0, 0.001, 0.003])}])
    else:
      ops.append([k])
  spec = {'n': n, 'rec': rng.randint(1, 5), 'ops': ops,
          'agg': rng.choice(['sum', 'collect', 'sum', None]),
          'fused': rng.random() < 0.6, 'num_threads': 0}
  if spec['agg'] is not None and rng.random() < 0.3:
    spec['agg2'] = rng.choice(['sum', 'collect'])  # two aggregating stages
  r = rng.random()
  if r < 0.25:
    spec['source'] = 'rr'
  if rng.random() < 0.25:
    # worker-side threads: fan-out over sub-shards of the worker's shard, or a
    # shared upstream iterator for the apply stage
    if rng.random() < 0.5:
      spec['source_threads'] = rng.randint(1, 3)
    else:
      spec['num_threads'] = rng.randint(1, 3)
  return spec


FIDELITY_TESTS = [
    'ml_metrics/_src/utils/iter_utils_test.py',
    'ml_metrics/_src/utils/courier_utils_test.py',
    'ml_metrics/_src/chainables/courier_server_test.py',
    'ml_metrics/_src/chainables/courier_worker_test.py',
    'ml_metrics/_src/chainables/orchestrate_test.py',
]


def plan(tier, seed):
  n = 40 if tier == 'quick' else 500
  chunks = 16 if tier == 'quick' else 32
  specs = [{'chunk': i, 'n': n, 'rseed': seed} for i in range(chunks)]
  if tier == 'thorough':
    # Fidelity suite of the transport stand-in: the upstream test files that the
    # pinned suite cannot collect, run against it (reported, never a verdict).
    specs += [{'fidelity': t} for t in FIDELITY_TESTS]
  return specs


def run_fidelity(ctx, test_file):
  """Runs one upstream test file against the stand-in transport.

  The interpreter sometimes does not exit after the summary line (a lingering
  non-daemon thread of a test server, also on the upstream code): the summary
  is what counts, the process is killed once it is printed.
  """
  import os, re, signal, subprocess, sys, tempfile, time
  from vlib import runner
  env = dict(os.environ)
  env['PYTHONPATH'] = os.pathsep.join([os.path.join(runner.ROOT, 'vlib/fakecourier'), runner.REPO])
  with tempfile.TemporaryFile('w+') as out:
    proc = subprocess.Popen(
        [sys.executable, '-m', 'pytest', '-q', '-p', 'no:cacheprovider', '--timeout=300', test_file],
        cwd=runner.REPO, env=env, stdout=out, stderr=subprocess.STDOUT, text=True,
        start_new_session=True)
    deadline = time.time() + 1500
    tail, seen_at = '', None
    while time.time() < deadline:
      rc = proc.poll()
      out.seek(0)
      lines = [l for l in out.read().splitlines() if re.search(r'\d+ (passed|failed|error)', l)]
      if lines:
        tail = lines[-1]
        seen_at = seen_at or time.time()
      if rc is not None or (seen_at and time.time() - seen_at > 20):
        break
      time.sleep(0.5)
    if proc.poll() is None:
      try:
        os.killpg(proc.pid, signal.SIGKILL)
      except OSError:
        pass
      proc.wait(30)
      ctx.observe('fidelity_process_killed_after_summary', {'file': test_file, 'summary': tail})
  passed = int((re.search(r'(\d+) passed', tail) or [0, 0])[1])
  failed = int((re.search(r'(\d+) failed', tail) or [0, 0])[1])
  ctx.count('fidelity_tests_passed', passed)
  ctx.count('fidelity_tests_failed', failed)
  ctx.observe('fidelity_suite', {'file': test_file, 'summary': tail})


def _canon_batches(batches):
  return sorted(repr(list(b)) for b in batches)


def in_process(spec):
  from vlib import c16lib
  runner = c16lib.define_pipeline(spec).make()
  it = runner.iterate()
  outs = list(it)
  return outs, it.agg_result


def run_sharded(spec, W, K, ibs, delay_rng):
  from vlib import c16lib, cwork
  import courier
  from ml_metrics._src.chainables import courier_worker, orchestrate
  servers = cwork.start_servers(W, 'c16w')
  try:
    pool = courier_worker.WorkerPool(
        [s.address for s in servers], call_timeout=60, iterate_batch_size=ibs)
    pool.wait_until_alive(deadline_secs=60, minimum_num_workers=W)
    rq = queue.SimpleQueue()
    want_agg = spec.get('agg') is not None or spec.get('agg2') is not None
    outs = list(orchestrate.sharded_pipelines_as_iterator(
        pool, c16lib.define_pipeline, spec, num_shards=K,
        result_queue=rq if want_agg else None))
    aggs = []
    if want_agg:
      aggs.append(rq.get(timeout=30))
      time.sleep(0.02)
      while not rq.empty():
        aggs.append(rq.get_nowait())
    return outs, aggs, list(pool.acquired_workers)
  finally:
    cwork.stop_servers(servers)


def run_interleaved(spec, W, buf, with_pool):
  from vlib import c16lib, cwork
  from ml_metrics._src.chainables import courier_server, courier_worker, orchestrate
  servers = cwork.start_servers(W, 'c16i') if with_pool else []
  master = None
  try:
    pool = None
    if with_pool:
      pool = courier_worker.WorkerPool([s.address for s in servers], call_timeout=60)
      pool.wait_until_alive(deadline_secs=60, minimum_num_workers=W)
      master = courier_server.CourierServer(cwork.unique('c16master'))
    pipeline = c16lib.define_pipeline(spec)
    resources = {
        'datasource': orchestrate.RunnerResource(buffer_size=buf),
        'apply': orchestrate.RunnerResource(worker_pool=pool, buffer_size=buf,
                                            timeout=60 if with_pool else None),
    }
    with orchestrate.run_pipeline_interleaved(
        pipeline, master_server=master, resources=resources) as runner:
      outs = list(iter(runner.result_queue))
    returned = list(runner.result_queue.returned)
    # Each aggregating stage reports its own aggregate through its own queue;
    # fold the upstream ones into the single final result for the comparison.
    from ml_metrics._src.chainables import transform as _t
    upstream = {}
    for st in runner.stages[:-1]:
      for r in st.result_queue.returned:
        if isinstance(r, _t.AggregateResult) and r.agg_result:
          upstream.update(r.agg_result)
    if upstream and len(returned) == 1 and isinstance(returned[0], _t.AggregateResult):
      merged = dict(upstream)
      merged.update(returned[0].agg_result or {})
      returned = [_t.AggregateResult(merged, agg_state=returned[0].agg_state)]
    acquired = list(pool.acquired_workers) if pool else []
    return outs, returned, acquired
  finally:
    if master is not None:
      cwork.stop_servers([master])
    cwork.stop_servers(servers)


def check_strict_counts(ctx, spec, case):
  """merge_states with a wrong strict_states_cnt must raise."""
  from vlib import c16lib
  if spec.get('agg') is None:
    return
  runner = c16lib.define_pipeline(spec).make()
  states = []
  for i in range(3):
    r = c16lib.define_pipeline(spec, i, 3).make()
    it = r.iterate(with_agg_result=False)
    list(it)
    states.append(it.agg_state)
  agg_runner = c16lib.define_pipeline(spec).make(mode='aggregate')
  targets = [('chained', agg_runner)]
  for r in agg_runner._runners:  # pylint: disable=protected-access
    targets.append(('transform', r))
  for label, tgt in targets:
    for m in range(0, 6):
      ctx.count('strict_cnt_checks')
      try:
        merged = tgt.merge_states(list(states), strict_states_cnt=m)
        raised = None
      except ValueError as e:
        merged, raised = None, e
      if m not in (0, len(states)) and raised is None:
        ctx.violation('partial_merge_not_rejected', dict(case, sub='strict'),
                      {'runner': label, 'strict_states_cnt': m, 'states': len(states)},
                      mechanism='strict-states-cnt-ignored')
      if m in (0, len(states)) and raised is not None:
        ctx.violation('complete_merge_rejected', dict(case, sub='strict'),
                      {'runner': label, 'strict_states_cnt': m, 'error': repr(raised)},
                      mechanism='strict-states-cnt-rejects-complete')
      if m == len(states) and merged is not None and label == 'chained':
        _, ref_agg = c16lib.reference(spec)
        got = tgt.get_result(merged)
        if got != ref_agg:
          ctx.violation('merged_shard_states_differ', dict(case, sub='strict'),
                        {'got': repr(got), 'want': repr(ref_agg)},
                        mechanism='shard-merge-differs')


def run_case_spec(ctx, case):
  from vlib import c16lib, cwork
  spec = case['spec']
  ref_outs, ref_agg = c16lib.reference(spec)
  ip_outs, ip_agg = in_process(spec)
  if _canon_batches(ip_outs) != _canon_batches(ref_outs) or (ip_agg or None) != (ref_agg or None):
    ctx.violation('in_process_differs_from_reference', case,
                  {'got': repr(ip_outs)[:300], 'want': repr(ref_outs)[:300],
                   'agg': repr(ip_agg), 'ref_agg': repr(ref_agg)},
                  mechanism='in-process-differs')
  driver = case['driver']

  def go():
    if driver == 'sharded':
      return run_sharded(spec, case['W'], case['K'], case['ibs'], None)
    return run_interleaved(spec, case['W'], case['buf'], case['with_pool'])

  # Seeded transport latencies (no faults): some replies are held back for a few
  # to a few dozen milliseconds, so acknowledgements and data race differently.
  import courier
  drng = random.Random(repr(sorted(case.items(), key=str)))
  if case.get('delays', True) and drng.random() < 0.6:
    slow_p = drng.choice([0.1, 0.3])
    lock = __import__('threading').Lock()

    def reply_delay(addr, method):
      if method == 'heartbeat':
        return 0
      with lock:
        r = drng.random()
        return drng.choice([0.005, 0.02, 0.06]) if r < slow_p else 0

    courier.sim.reply_delay = reply_delay
  try:
    finished, res, exc = cwork.run_with_watchdog(go, 120)
  finally:
    courier.sim.reply_delay = None
  if not finished:
    finished, res, exc = cwork.run_with_watchdog(go, 120)
    if not finished:
      ctx.violation('no_completion_within_watchdog', case, None,
                    mechanism=f'{driver}-hang')
      return
    ctx.inconclusive_case('first attempt hit the watchdog, retry completed', case)
  ctx.count('sharded_cases' if driver == 'sharded' else 'interleaved_cases')
  nontrivial = spec['n'] >= 2 and (case['W'] >= 2 or case.get('K', 1) >= 2)
  ctx.case((spec, driver, case['W'], case.get('K'), case.get('ibs'), case.get('buf'),
            case.get('with_pool')), nontrivial)
  if exc is not None:
    ctx.violation('distributed_run_raised', case,
                  {'error': f'{type(exc).__name__}: {str(exc)[:300]}'},
                  mechanism=f'{driver}-raises:{type(exc).__name__}')
    return
  outs, aggs, acquired = res
  ctx.count('batches_compared', len(outs))
  if _canon_batches(outs) != _canon_batches(ref_outs):
    ctx.violation('output_multiset_differs', case,
                  {'got': _canon_batches(outs)[:12], 'want': _canon_batches(ref_outs)[:12],
                   'n_got': len(outs), 'n_want': len(ref_outs)},
                  mechanism=f'{driver}-outputs-differ')
  if spec.get('agg') is not None:
    ctx.count('agg_results_compared')
    from ml_metrics._src.chainables import transform
    finals = [a for a in aggs if isinstance(a, transform.AggregateResult)]
    if len(finals) != 1 or len(aggs) != 1:
      ctx.violation('not_exactly_one_final_aggregate', case,
                    {'count': len(finals), 'all': repr(aggs)[:300]},
                    mechanism=f'{driver}-final-aggregate-count')
    elif finals[0].agg_result != ref_agg:
      ctx.violation('aggregate_differs', case,
                    {'got': repr(finals[0].agg_result)[:300], 'want': repr(ref_agg)[:300]},
                    mechanism=f'{driver}-aggregate-differs')
  else:
    if driver == 'interleaved' and aggs:
      ctx.violation('unexpected_returned_values', case, {'returned': repr(aggs)[:200]},
                    mechanism='interleaved-unexpected-return')
  if acquired:
    ctx.violation('workers_still_acquired', case, {'n': len(acquired)},
                  mechanism=f'{driver}-workers-not-released')
  if len(ctx.samples) < 3:
    ctx.sample({'case': case, 'n_batches': len(outs), 'agg': repr(ref_agg)[:120]})


def run_chunk(ctx, spec):
  if 'fidelity' in spec:
    run_fidelity(ctx, spec['fidelity'])
    return
  import courier
  from vlib import cwork
  cwork.setup(scale=1.0)
  rng = random.Random(spec['rseed'] * 1000003 + spec['chunk'] * 13 + 1)
  for i in range(spec['n']):
    pspec = gen_spec(rng)
    W = rng.randint(1, 4)
    if i % 2 == 0:
      case = {'spec': pspec, 'driver': 'sharded', 'W': W,
              'K': rng.randint(1, 6), 'ibs': rng.randint(1, 4)}
    else:
      case = {'spec': pspec, 'driver': 'interleaved', 'W': W,
              'buf': rng.randint(0, 3), 'with_pool': rng.random() < 0.75}
    run_case_spec(ctx, case)
    if i % 3 == 0:
      check_strict_counts(ctx, pspec, case)
  ctx.count('transport_calls', sum(1 for e in courier.sim.call_log if e['ev'] == 'call'))


def run_case(ctx, case):
  from vlib import cwork
  cwork.setup(scale=1.0)
  if case.get('sub') == 'strict':
    check_strict_counts(ctx, case['spec'], case)
  else:
    run_case_spec(ctx, case)
