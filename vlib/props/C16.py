"""C16 - fault-free distributed execution equals in-process execution.

Engine E4 + E3: the real WorkerPool / PrefetchedCourierServer / orchestrate
drivers over the simulated transport on real threads, no faults, seeded handler
delays.  Oracle: the same pipeline evaluated in process and by an independent
plain-Python reference; exact integer aggregators.

Driver 'concurrent': TWO sharded runs (datasets with disjoint value ranges) at
the same time over shared workers - two pools over overlapping server sets, or
two threads on one pool; each run alone is the control; each concurrent run must
equal its own in-process result or raise.  Driver 'xagg': an aggregate that
works in process but whose merge_states / get_result of a merged state raises:
the caller gets an error or exactly one (correct) aggregate; "neither" is decided
from state (iterator finished, merge thread ended, result queue empty).

Driver 'failing_shard': a sharded run in which one shard cannot complete (an
application error on one record, or a record that takes longer than the call
deadline with retries switched off): whatever the iterator raises, the aggregate
channel (result_queue) is inspected once the merge thread has ended: an aggregate
may only be delivered when it covers every shard.  The same inspection is done
in every other scenario whose run ends with an error (concurrent, xagg).  In the
'concurrent' driver the two pools may also differ in one client setting
(call_timeout / heartbeat_threshold_secs / iterate_batch_size) over their shared
servers.
"""

from __future__ import annotations

import queue
import random
import time

ID = 'C16'
LEVEL = 'exploration'
EXTRA_PATH = ('vlib/fakecourier',)
RULE = (
    'a case is (pipeline spec: 0-40 integers in records of 1-5, 1-3 element-wise/filter operators, '
    'exact aggregator fused or as its own stage; driver sharded_pipelines_as_iterator with W=1-4 '
    'workers, K=1-6 shards, iterate_batch_size 1-4 | run_pipeline_interleaved with a master server, '
    'W workers on the apply stage, buffer sizes 0-3; seeded handler delays). Also merge_states with '
    'every strict_states_cnt != number of states. concurrent = two such sharded runs (9-40 integers, '
    'second dataset shifted by 10^12, always aggregating) over W=1-3 servers, pool memberships with >= 1 '
    'shared server or one pool used by two threads, K=1-6 shards each, second start delayed 0-50 ms, '
    'preceded by each run alone; xagg = aggregate without merge_states / failing merge_states / failing '
    'get_result of a merged state, sharded or interleaved; two-pool concurrent cases: the second pool may '
    'differ in call_timeout / heartbeat_threshold_secs / iterate_batch_size; failing_shard = K=2-5 shards of '
    '2-5 records over W=1-3 workers, one record raises an application error or stalls 0.6 s against a '
    '0.25 s call deadline with retry_failures=False. Non-trivial = (W >= 2 or K >= 2) and >= 2 '
    'elements (concurrent: the generator calls of the two runs alternated); distinct = hash of '
    '(spec, driver, W, K, sizes)')
ASSUMPTIONS = [
    'transport stand-in semantics (see C14); no faults are injected; time is not dilated',
    'records are pre-batched lists, no re-batching operator is used, so the multiset of output batches does not depend on the partition',
    'a case that does not complete within 120 s (typical: < 1 s) is retried once; two consecutive watchdog expiries of the same case are reported as a hang',
    'concurrent: the pools are built with the same worker configuration (they share the Worker singletons of the common addresses) or, when the case says so, the second pool differs in exactly one of call_timeout / heartbeat_threshold_secs / iterate_batch_size (max_parallelism stays 1 for every client: a worker serves one generator at a time); the two runs are independent pipelines; a run that raises is accepted; a watchdog expiry is inconclusive',
    'after a run that raised, the aggregate channel is read once the merge thread has ended (state, not time); a delivered AggregateResult counts as well-formed when its agg_result is non-empty; it is accepted only if it equals the aggregate of the complete dataset',
    'failing_shard: the failing / stalling record exists exactly once, so at least its shard never completes: any well-formed aggregate delivered is partial; deadline variant: the record stalls 0.6 s against a 0.25 s call deadline and retry_failures=False, a spurious deadline of another call (load) fails the run just as well',
    'xagg: the aggregate is legal for in-process runs (merge_states is documented as required for distributed implementations only); a watchdog expiry alone is inconclusive',
]
REQUIRED = ['sharded_cases', 'interleaved_cases', 'strict_cnt_checks', 'batches_compared',
            'agg_results_compared', 'transport_calls', 'concurrent_cases', 'concurrent_two_pool_cases',
            'concurrent_one_pool_cases', 'concurrent_runs_overlapped', 'concurrent_runs_compared',
            'merge_failing_cases', 'merge_failing_sharded_cases', 'merge_threads_observed',
            'concurrent_differing_settings_cases', 'failing_shard_cases', 'failing_shard_runs_raised',
            'aggregate_channel_inspected_after_error', 'sharded_parallel_client_cases',
            'sharded_parallel_client_more_shards_than_workers']
# Mechanism keys of the audited root causes.
# WorkerPool.iterate never acquires / reserves the workers it schedules shards on: two
# runs send init_generator to the same worker, the second replaces the first generator
K_CONC = 'concurrent-sharded-runs-share-unacquired-workers'
# sharded_pipelines_as_iterator merges in an unsupervised daemon thread
K_MERGE = 'sharded-merge-error-swallowed-no-result'
# Ownership lock and capacity bookkeeping live on the Worker OBJECT, and two pools that
# differ in any client setting get two Worker objects for one server address
K_OWN_ADDR = 'ownership-keyed-by-worker-object-not-address'
# sharded_pipelines_as_iterator merges whatever shard states arrived when iterate() gives
# up (stop marker put in a finally, no expected count): the iterator raises AND a
# well-formed aggregate of the finished shards is delivered
K_PARTIAL = 'partial-aggregate-delivered-after-failed-shard'
CHUNK_TIMEOUT_S = {'quick': 400, 'thorough': 3000}


def gen_spec(rng):
  n = rng.choice([0, 1, 2, 5, 9, 17, 40])
  ops = []
  for j in range(rng.randint(1, 3)):
    # (a filter as the very first operator of a stage is C08's business)
    k = rng.choice(['affine', 'square', 'filter', 'slow'] if j else ['affine', 'square', 'slow'])
    if k == 'affine':
      ops.append(['affine', {'a': rng.randint(1, 3), 'b': rng.randint(0, 5)}])
    elif k == 'slow':
      ops.append(['slow', {'delay': rng.choice([0.0, 0.001, 0.003])}])
    else:
      ops.append([k])
  spec = {'n': n, 'rec': rng.randint(1, 5), 'ops': ops,
          'agg': rng.choice(['sum', 'collect', 'sum', None]),
          'fused': rng.random() < 0.6, 'num_threads': 0}
  if spec['agg'] is not None and rng.random() < 0.3:
    spec['agg2'] = rng.choice(['sum', 'collect'])  # two aggregating stages
  r = rng.random()
  if r < 0.25:
    spec['source'] = 'rr'
  if rng.random() < 0.25:
    # worker-side threads: fan-out over sub-shards of the worker's shard, or a
    # shared upstream iterator for the apply stage
    if rng.random() < 0.5:
      spec['source_threads'] = rng.randint(1, 3)
    else:
      spec['num_threads'] = rng.randint(1, 3)
  return spec


FIDELITY_TESTS = [
    'ml_metrics/_src/utils/iter_utils_test.py',
    'ml_metrics/_src/utils/courier_utils_test.py',
    'ml_metrics/_src/chainables/courier_server_test.py',
    'ml_metrics/_src/chainables/courier_worker_test.py',
    'ml_metrics/_src/chainables/orchestrate_test.py',
]


def plan(tier, seed):
  n = 40 if tier == 'quick' else 500
  chunks = 16 if tier == 'quick' else 32
  specs = [{'chunk': i, 'n': n, 'rseed': seed} for i in range(chunks)]
  if tier == 'thorough':
    # Fidelity suite of the transport stand-in: the upstream test files that the
    # pinned suite cannot collect, run against it (reported, never a verdict).
    specs += [{'fidelity': t} for t in FIDELITY_TESTS]
  return specs


def run_fidelity(ctx, test_file):
  """Runs one upstream test file against the stand-in transport.

  The interpreter sometimes does not exit after the summary line (a lingering
  non-daemon thread of a test server, also on the upstream code): the summary
  is what counts, the process is killed once it is printed.
  """
  import os, re, signal, subprocess, sys, tempfile, time
  from vlib import runner
  env = dict(os.environ)
  env['PYTHONPATH'] = os.pathsep.join([os.path.join(runner.ROOT, 'vlib/fakecourier'), runner.REPO])
  with tempfile.TemporaryFile('w+') as out:
    proc = subprocess.Popen(
        [sys.executable, '-m', 'pytest', '-q', '-p', 'no:cacheprovider', '--timeout=300', test_file],
        cwd=runner.REPO, env=env, stdout=out, stderr=subprocess.STDOUT, text=True,
        start_new_session=True)
    deadline = time.time() + 1500
    tail, seen_at = '', None
    while time.time() < deadline:
      rc = proc.poll()
      out.seek(0)
      lines = [l for l in out.read().splitlines() if re.search(r'\d+ (passed|failed|error)', l)]
      if lines:
        tail = lines[-1]
        seen_at = seen_at or time.time()
      if rc is not None or (seen_at and time.time() - seen_at > 20):
        break
      time.sleep(0.5)
    if proc.poll() is None:
      try:
        os.killpg(proc.pid, signal.SIGKILL)
      except OSError:
        pass
      proc.wait(30)
      ctx.observe('fidelity_process_killed_after_summary', {'file': test_file, 'summary': tail})
  passed = int((re.search(r'(\d+) passed', tail) or [0, 0])[1])
  failed = int((re.search(r'(\d+) failed', tail) or [0, 0])[1])
  ctx.count('fidelity_tests_passed', passed)
  ctx.count('fidelity_tests_failed', failed)
  ctx.observe('fidelity_suite', {'file': test_file, 'summary': tail})


def _canon_batches(batches):
  return sorted(repr(list(b)) for b in batches)


def in_process(spec):
  from vlib import c16lib
  runner = c16lib.define_pipeline(spec).make()
  it = runner.iterate()
  outs = list(it)
  return outs, it.agg_result


def run_sharded(spec, W, K, ibs, delay_rng, maxpar=1):
  from vlib import c16lib, cwork
  import courier
  from ml_metrics._src.chainables import courier_worker, orchestrate
  servers = cwork.start_servers(W, 'c16w')
  try:
    # max_parallelism > 1 lets a client have several calls in flight; a server
    # still runs one shard at a time (one generator slot).
    pool = courier_worker.WorkerPool(
        [s.address for s in servers], call_timeout=60, iterate_batch_size=ibs,
        max_parallelism=maxpar)
    pool.wait_until_alive(deadline_secs=60, minimum_num_workers=W)
    rq = queue.SimpleQueue()
    want_agg = spec.get('agg') is not None or spec.get('agg2') is not None
    outs = list(orchestrate.sharded_pipelines_as_iterator(
        pool, c16lib.define_pipeline, spec, num_shards=K,
        result_queue=rq if want_agg else None))
    aggs = []
    if want_agg:
      aggs.append(rq.get(timeout=30))
      time.sleep(0.02)
      while not rq.empty():
        aggs.append(rq.get_nowait())
    return outs, aggs, list(pool.acquired_workers)
  finally:
    cwork.stop_servers(servers)


def run_interleaved(spec, W, buf, with_pool, define=None, box=None):
  from vlib import c16lib, cwork
  from ml_metrics._src.chainables import courier_server, courier_worker, orchestrate
  servers = cwork.start_servers(W, 'c16i') if with_pool else []
  master = None
  try:
    pool = None
    if with_pool:
      pool = courier_worker.WorkerPool([s.address for s in servers], call_timeout=60)
      pool.wait_until_alive(deadline_secs=60, minimum_num_workers=W)
      master = courier_server.CourierServer(cwork.unique('c16master'))
    pipeline = (define or c16lib.define_pipeline)(spec)
    resources = {
        'datasource': orchestrate.RunnerResource(buffer_size=buf),
        'apply': orchestrate.RunnerResource(worker_pool=pool, buffer_size=buf,
                                            timeout=60 if with_pool else None),
    }
    with orchestrate.run_pipeline_interleaved(
        pipeline, master_server=master, resources=resources) as runner:
      if box is not None:
        box['runner'] = runner      # (to look at what was delivered when the run raises)
      outs = list(iter(runner.result_queue))
    returned = list(runner.result_queue.returned)
    # Each aggregating stage reports its own aggregate through its own queue;
    # fold the upstream ones into the single final result for the comparison.
    from ml_metrics._src.chainables import transform as _t
    upstream = {}
    for st in runner.stages[:-1]:
      for r in st.result_queue.returned:
        if isinstance(r, _t.AggregateResult) and r.agg_result:
          upstream.update(r.agg_result)
    if upstream and len(returned) == 1 and isinstance(returned[0], _t.AggregateResult):
      merged = dict(upstream)
      merged.update(returned[0].agg_result or {})
      returned = [_t.AggregateResult(merged, agg_state=returned[0].agg_state)]
    acquired = list(pool.acquired_workers) if pool else []
    return outs, returned, acquired
  finally:
    if master is not None:
      cwork.stop_servers([master])
    cwork.stop_servers(servers)


def check_strict_counts(ctx, spec, case):
  """merge_states with a wrong strict_states_cnt must raise."""
  from vlib import c16lib
  if spec.get('agg') is None:
    return
  runner = c16lib.define_pipeline(spec).make()
  states = []
  for i in range(3):
    r = c16lib.define_pipeline(spec, i, 3).make()
    it = r.iterate(with_agg_result=False)
    list(it)
    states.append(it.agg_state)
  agg_runner = c16lib.define_pipeline(spec).make(mode='aggregate')
  targets = [('chained', agg_runner)]
  for r in agg_runner._runners:  # pylint: disable=protected-access
    targets.append(('transform', r))
  for label, tgt in targets:
    for m in range(0, 6):
      ctx.count('strict_cnt_checks')
      try:
        merged = tgt.merge_states(list(states), strict_states_cnt=m)
        raised = None
      except ValueError as e:
        merged, raised = None, e
      if m not in (0, len(states)) and raised is None:
        ctx.violation('partial_merge_not_rejected', dict(case, sub='strict'),
                      {'runner': label, 'strict_states_cnt': m, 'states': len(states)},
                      mechanism='strict-states-cnt-ignored')
      if m in (0, len(states)) and raised is not None:
        ctx.violation('complete_merge_rejected', dict(case, sub='strict'),
                      {'runner': label, 'strict_states_cnt': m, 'error': repr(raised)},
                      mechanism='strict-states-cnt-rejects-complete')
      if m == len(states) and merged is not None and label == 'chained':
        _, ref_agg = c16lib.reference(spec)
        got = tgt.get_result(merged)
        if got != ref_agg:
          ctx.violation('merged_shard_states_differ', dict(case, sub='strict'),
                        {'got': repr(got), 'want': repr(ref_agg)},
                        mechanism='shard-merge-differs')


def run_case_spec(ctx, case):
  from vlib import c16lib, cwork
  spec = case['spec']
  ref_outs, ref_agg = c16lib.reference(spec)
  ip_outs, ip_agg = in_process(spec)
  if _canon_batches(ip_outs) != _canon_batches(ref_outs) or (ip_agg or None) != (ref_agg or None):
    ctx.violation('in_process_differs_from_reference', case,
                  {'got': repr(ip_outs)[:300], 'want': repr(ref_outs)[:300],
                   'agg': repr(ip_agg), 'ref_agg': repr(ref_agg)},
                  mechanism='in-process-differs')
  driver = case['driver']

  def go():
    if driver == 'sharded':
      return run_sharded(spec, case['W'], case['K'], case['ibs'], None,
                         maxpar=case.get('maxpar', 1))
    return run_interleaved(spec, case['W'], case['buf'], case['with_pool'])

  # Seeded transport latencies (no faults): some replies are held back for a few
  # to a few dozen milliseconds, so acknowledgements and data race differently.
  import courier
  drng = random.Random(repr(sorted(case.items(), key=str)))
  if case.get('delays', True) and drng.random() < 0.6:
    slow_p = drng.choice([0.1, 0.3])
    lock = __import__('threading').Lock()

    def reply_delay(addr, method):
      if method == 'heartbeat':
        return 0
      with lock:
        r = drng.random()
        return drng.choice([0.005, 0.02, 0.06]) if r < slow_p else 0

    courier.sim.reply_delay = reply_delay
  try:
    finished, res, exc = cwork.run_with_watchdog(go, 120)
  finally:
    courier.sim.reply_delay = None
  if not finished:
    finished, res, exc = cwork.run_with_watchdog(go, 120)
    if not finished:
      ctx.violation('no_completion_within_watchdog', case, None,
                    mechanism=f'{driver}-hang')
      return
    ctx.inconclusive_case('first attempt hit the watchdog, retry completed', case)
  ctx.count('sharded_cases' if driver == 'sharded' else 'interleaved_cases')
  if driver == 'sharded' and case.get('maxpar', 1) > 1:
    ctx.count('sharded_parallel_client_cases')
    if case['K'] > case['W']:
      ctx.count('sharded_parallel_client_more_shards_than_workers')
  nontrivial = spec['n'] >= 2 and (case['W'] >= 2 or case.get('K', 1) >= 2)
  ctx.case((spec, driver, case['W'], case.get('K'), case.get('ibs'), case.get('buf'),
            case.get('with_pool'), case.get('maxpar')), nontrivial)
  if exc is not None:
    chain, e = [], exc
    while e is not None and len(chain) < 5:
      chain.append(f'{type(e).__name__}: {str(e)[:300]}')
      e = e.__cause__ or e.__context__
    # A fault-free run has no injected deadline; a DEADLINE status can only be the
    # real-time deadline of the stand-in transport expiring under machine load.
    if any('Deadline Exceeded' in c or 'All workers timeout' in c for c in chain):
      ctx.inconclusive_case('fault-free run hit a real-time deadline of the stand-in transport (load)', case)
      return
    ctx.violation('distributed_run_raised', case,
                  {'error': chain[0], 'cause_chain': chain[1:]},
                  mechanism=f'{driver}-raises:{type(exc).__name__}')
    return
  outs, aggs, acquired = res
  ctx.count('batches_compared', len(outs))
  if _canon_batches(outs) != _canon_batches(ref_outs):
    ctx.violation('output_multiset_differs', case,
                  {'got': _canon_batches(outs)[:12], 'want': _canon_batches(ref_outs)[:12],
                   'n_got': len(outs), 'n_want': len(ref_outs)},
                  mechanism=f'{driver}-outputs-differ')
  if spec.get('agg') is not None:
    ctx.count('agg_results_compared')
    from ml_metrics._src.chainables import transform
    finals = [a for a in aggs if isinstance(a, transform.AggregateResult)]
    if len(finals) != 1 or len(aggs) != 1:
      ctx.violation('not_exactly_one_final_aggregate', case,
                    {'count': len(finals), 'all': repr(aggs)[:300]},
                    mechanism=f'{driver}-final-aggregate-count')
    elif finals[0].agg_result != ref_agg:
      ctx.violation('aggregate_differs', case,
                    {'got': repr(finals[0].agg_result)[:300], 'want': repr(ref_agg)[:300]},
                    mechanism=f'{driver}-aggregate-differs')
  else:
    if driver == 'interleaved' and aggs:
      ctx.violation('unexpected_returned_values', case, {'returned': repr(aggs)[:200]},
                    mechanism='interleaved-unexpected-return')
  if acquired:
    ctx.violation('workers_still_acquired', case, {'n': len(acquired)},
                  mechanism=f'{driver}-workers-not-released')
  if len(ctx.samples) < 3:
    ctx.sample({'case': case, 'n_batches': len(outs), 'agg': repr(ref_agg)[:120]})


# ---------------------------------------------------------------------------
# two concurrent sharded runs over shared workers
# ---------------------------------------------------------------------------


def gen_concurrent_case(rng):
  from vlib import c16conc
  specs = []
  for r in range(2):
    sp = gen_spec(rng)
    sp.pop('agg2', None)
    sp['n'] = rng.choice([9, 17, 40, 40])
    sp['agg'] = rng.choice(['sum', 'collect'])
    # disjoint value ranges: every value of run 1 is >= OFFSET, every value of run 0 below
    sp['ops'] = [['affine', {'a': 1, 'b': r * c16conc.OFFSET}]] + sp['ops'][:2]
    specs.append(sp)
  W = rng.randint(1, 3)
  one_pool = rng.random() < 0.4
  a = sorted(rng.sample(range(W), rng.randint(1, W)))
  b = sorted(rng.sample(range(W), rng.randint(1, W)))
  if one_pool:
    b = a
  elif not set(a) & set(b):
    b = sorted(set(b) | {a[0]})
  return {'driver': 'concurrent', 'specs': specs, 'W': W, 'members': [a, b], 'one_pool': one_pool,
          'K': [rng.randint(1, 6), rng.randint(1, 6)], 'ibs': rng.randint(1, 4),
          'stagger_ms': rng.choice([0, 5, 20, 50])}


def _judge_sharded(res, ref_outs, ref_agg, other_range=None):
  """[(kind, detail)] of one observed sharded run against its reference."""
  import collections
  from ml_metrics._src.chainables import transform
  out = []
  got = collections.Counter(repr(list(b)) for b in res['outs'])
  want = collections.Counter(repr(list(b)) for b in ref_outs)
  if got != want:
    foreign = 0
    if other_range is not None:
      foreign = sum(1 for b in res['outs'] if any(other_range(v) for v in b))
    out.append(('output_multiset_differs',
                {'missing': sum((want - got).values()), 'unexpected': sum((got - want).values()),
                 'batches_of_the_other_run': foreign, 'n_got': len(res['outs']),
                 'n_want': len(ref_outs), 'got': sorted(got)[:6], 'want': sorted(want)[:6]}))
  finals = [a for a in res['aggs'] if isinstance(a, transform.AggregateResult)]
  if len(finals) != 1 or len(res['aggs']) != 1:
    if res['gave_up_waiting']:
      out.append(('WATCHDOG', 'no aggregate yet, merge thread still alive'))
    else:
      out.append(('not_exactly_one_final_aggregate',
                  {'count': len(finals), 'all': repr(res['aggs'])[:200],
                   'merge_thread_alive': res['merge_thread_alive'],
                   'merge_thread_ended_with': repr(res['merge_thread_error'])[:160]}))
  elif finals[0].agg_result != ref_agg:
    out.append(('aggregate_differs', {'got': repr(finals[0].agg_result)[:200],
                                      'want': repr(ref_agg)[:200]}))
  return out


SETTING_KEYS = ('call_timeout', 'heartbeat_threshold_secs', 'iterate_batch_size')


def add_differing_setting(case, rng, force=False):
  """Two-pool cases: the second pool differs from the first in exactly one setting."""
  if case['one_pool'] or not (force or rng.random() < 0.5):
    return case
  return dict(case, setting=rng.choice(SETTING_KEYS))


def _pool_kwargs(case, r):
  kw = {'call_timeout': 60, 'iterate_batch_size': case['ibs']}
  key = case.get('setting') if r == 1 else None
  if key == 'call_timeout':
    kw['call_timeout'] = 600
  elif key == 'heartbeat_threshold_secs':
    kw['heartbeat_threshold_secs'] = 400
  elif key == 'iterate_batch_size':
    kw['iterate_batch_size'] = case['ibs'] + 1
  return kw


def inspect_after_error(ctx, case, aggs, ref_agg, where, sharded=True, extra=None):
  """A run raised: what did the aggregate channel deliver?  (C16, last sentence.)"""
  from ml_metrics._src.chainables import transform
  ctx.count('aggregate_channel_inspected_after_error')
  formed = [a for a in aggs if isinstance(a, transform.AggregateResult) and a.agg_result]
  empty = [a for a in aggs if isinstance(a, transform.AggregateResult) and not a.agg_result]
  if empty:
    ctx.observe('empty_aggregate_result_delivered_after_error', where)
  partial = [a for a in formed if a.agg_result != ref_agg]
  if formed and not partial:
    ctx.count('complete_aggregate_delivered_although_the_run_raised')
  if not partial:
    return False
  detail = {'delivered_after_the_run_raised': repr(partial[0].agg_result)[:200],
            'aggregate_of_the_complete_dataset': repr(ref_agg)[:200],
            'n_delivered': len(aggs)}
  detail.update(extra or {})
  # Input class: a SHARDED run whose iterator raised (for whatever reason): the merge
  # of the states that did arrive is the one code path of sharded_pipelines_as_iterator.
  ctx.violation('partial_aggregate_delivered_after_error', case, detail,
                mechanism=K_PARTIAL if sharded else f'{where}:aggregate-delivered-after-error')
  return True


def run_concurrent_case(ctx, case):
  import threading
  from vlib import c16conc, c16lib, cwork
  from ml_metrics._src.chainables import courier_worker
  specs, W, K = case['specs'], case['W'], case['K']
  refs = [c16lib.reference(sp) for sp in specs]
  box = {}

  def go():
    inits = c16conc.InitWatch().__enter__()     # before the servers bind their handlers
    servers = cwork.start_servers(W, 'c16c')
    try:
      with c16conc.CallLog() as calls, c16conc.ThreadWatch() as watch:
        mk = lambda idx, r: courier_worker.WorkerPool(
            [servers[i].address for i in idx], **_pool_kwargs(case, r))
        pool_a = mk(case['members'][0], 0)
        pool_b = pool_a if case['one_pool'] else mk(case['members'][1], 1)
        pools = [pool_a, pool_b]
        for p in pools:
          p.wait_until_alive(deadline_secs=60, minimum_num_workers=len(p.all_workers))
        common = set(case['members'][0]) & set(case['members'][1])
        box['shared_objects'] = all(
            x is y for x in pool_a.all_workers for y in pool_b.all_workers
            if x.address == y.address) and bool(common)
        # control: each run alone over its pool
        box['solo'] = [c16conc.sharded_run(pools[r], c16lib.define_pipeline, specs[r], K[r], watch)
                       for r in range(2)]
        calls.clear()
        inits.clear()
        results = [None, None]

        def one(r):
          if r == 1 and case['stagger_ms']:
            time.sleep(case['stagger_ms'] / 1000.0)
          results[r] = c16conc.sharded_run(pools[r], c16lib.define_pipeline, specs[r], K[r], watch)

        ts = [threading.Thread(target=one, args=(r,), daemon=True, name=f'verif-run{r}')
              for r in range(2)]
        for t in ts:
          t.start()
        for t in ts:
          t.join(100)
        box['alive'] = [t.is_alive() for t in ts]
        box['results'] = results
        box['replaced'] = calls.replaced_while_in_use()
        box['preempted'] = sorted(set(inits.preempted))
        box['overlapped'] = calls.interleaved()
        box['acquired'] = [len(p.acquired_workers) for p in pools]
    finally:
      inits.__exit__()
      cwork.stop_servers(servers)

  finished, _, exc = cwork.run_with_watchdog(go, 240)
  ctx.count('concurrent_cases')
  ctx.count('concurrent_one_pool_cases' if case['one_pool'] else 'concurrent_two_pool_cases')
  differing = bool(case.get('setting'))
  if differing:
    ctx.count('concurrent_differing_settings_cases')
  overlapped = bool(box.get('overlapped'))
  ctx.case(('concurrent', case), overlapped and min(sp['n'] for sp in specs) >= 2)
  if not finished or exc is not None or any(box.get('alive', [True])):
    ctx.inconclusive_case(f'concurrent case did not complete: {exc!r}'[:200], case)
    return
  if not box['shared_objects'] and not differing:
    ctx.inconclusive_case('the two pools do not share the Worker objects', case)
    return
  in_other = [lambda v: v >= c16conc.OFFSET, lambda v: v < c16conc.OFFSET]
  # control runs: a difference here is not a matter of concurrency
  for r in range(2):
    res = box['solo'][r]
    probs = [('raised', repr(res['error'])[:200])] if res['error'] is not None else \
        _judge_sharded(res, refs[r][0], refs[r][1])
    if probs:
      if all(k == 'WATCHDOG' for k, _ in probs):
        ctx.inconclusive_case('control run: no aggregate within the watchdog', case)
      else:
        ctx.violation('control_run_differs', case, {'run': r, 'problems': probs[:3]},
                      mechanism='sharded-control-run-differs:' + probs[0][0])
      return
  if overlapped:
    ctx.count('concurrent_runs_overlapped')
  if box['replaced']:
    ctx.count('generator_replaced_while_its_run_was_reading', len(box['replaced']))
  if box['preempted']:
    ctx.count('init_generator_found_an_unexhausted_generator', len(box['preempted']))
  for r in range(2):
    res = box['results'][r]
    if res['error'] is not None:
      ctx.count('concurrent_runs_raised')       # accepted: the caller was told
      ctx.observe('concurrent_run_raised', repr(res['error'])[:160])
      if res['gave_up_waiting']:
        ctx.inconclusive_case('concurrent run raised, its merge thread is still alive', case)
      else:
        inspect_after_error(ctx, case, res['aggs'], refs[r][1], 'concurrent-sharded',
                            extra={'run': r, 'error': repr(res['error'])[:160]})
      continue
    ctx.count('concurrent_runs_compared')
    ctx.count('batches_compared', len(res['outs']))
    for kind, detail in _judge_sharded(res, refs[r][0], refs[r][1], in_other[r]):
      if kind == 'WATCHDOG':
        ctx.inconclusive_case('concurrent run: no aggregate within the watchdog', case)
        continue
      # Audited root cause, decided from the observed calls: a run initialised its
      # generator on a worker, the other run initialised one on the same worker, and the
      # first run went on asking that worker for batches.
      # ... classified by what the generator put in: pools with the same settings (they
      # share the Worker objects) or pools differing in one client setting.
      # Evidence that the two runs had a generator open on one worker at the same time:
      # the call pattern above, or (server side) an init_generator that found the
      # installed generator unexhausted (its reader is then retried or reads the new one).
      mech = f'concurrent-sharded:{kind}'
      if box['replaced'] or box['preempted']:
        mech = K_OWN_ADDR if differing else K_CONC
      ctx.violation('concurrent_run_' + kind, case,
                    {'run': r, 'detail': detail, 'no_error_raised': True,
                     'workers_whose_generator_was_replaced_while_read': box['replaced'][:4],
                     'workers_initialised_while_their_generator_was_unexhausted': box['preempted'][:4],
                     'setting_in_which_the_second_pool_differs': case.get('setting'),
                     'pools_share_the_worker_objects': box['shared_objects'],
                     'workers_acquired_by_the_pools_afterwards': box['acquired']},
                    mechanism=mech)
  if any(box['acquired']):
    ctx.violation('workers_still_acquired', case, {'n': box['acquired']},
                  mechanism='concurrent-sharded-workers-not-released')
  if len(ctx.samples) < 5 and box['replaced']:
    ctx.sample({'case': case, 'replaced': box['replaced'][:3]})


# ---------------------------------------------------------------------------
# aggregates that cannot be merged
# ---------------------------------------------------------------------------


def gen_xagg_case(rng):
  sp = gen_spec(rng)
  sp.pop('agg2', None)
  sp['agg'] = None
  sp['xagg'] = rng.choice(['no_merge', 'no_merge', 'merge_raises', 'merged_result_raises'])
  if rng.random() < 0.7:
    return {'driver': 'xagg', 'via': 'sharded', 'spec': sp, 'W': rng.randint(1, 3),
            'K': rng.randint(1, 5), 'ibs': rng.randint(1, 4)}
  return {'driver': 'xagg', 'via': 'interleaved', 'spec': sp, 'W': rng.randint(1, 3),
          'buf': rng.randint(0, 3), 'with_pool': True}


def run_xagg_case(ctx, case):
  from vlib import c16conc, cwork
  from ml_metrics._src.chainables import courier_worker, transform
  spec = case['spec']
  ref_outs, ref_agg = c16conc.reference_x(spec)
  it = c16conc.define_pipeline_x(spec).make().iterate()
  ip_outs = list(it)
  if _canon_batches(ip_outs) != _canon_batches(ref_outs) or dict(it.agg_result or {}) != ref_agg:
    ctx.violation('in_process_differs_from_reference', case,
                  {'got': repr(ip_outs)[:200], 'agg': repr(it.agg_result), 'ref_agg': repr(ref_agg)},
                  mechanism='in-process-differs')
    return
  ctx.count('merge_failing_cases')
  ctx.case(('xagg', case), spec['n'] >= 2 and (case['W'] >= 2 or case.get('K', 1) >= 2))
  if case['via'] == 'interleaved':
    ibox = {}
    finished, res, exc = cwork.run_with_watchdog(
        lambda: run_interleaved(spec, case['W'], case['buf'], case['with_pool'],
                                define=c16conc.define_pipeline_x, box=ibox), 120)
    if not finished:
      ctx.inconclusive_case('interleaved run with a merge-failing aggregate: watchdog', case)
      return
    if exc is not None:
      ctx.count('merge_error_reached_caller')
      if ibox.get('runner') is not None:
        inspect_after_error(ctx, case, list(ibox['runner'].result_queue.returned), ref_agg,
                            'interleaved-xagg', sharded=False, extra={'error': repr(exc)[:160]})
      return
    outs, aggs, _ = res
    finals = [a for a in aggs if isinstance(a, transform.AggregateResult)]
    if len(finals) != 1 or finals[0].agg_result != ref_agg:
      ctx.violation('no_error_and_no_correct_aggregate', case,
                    {'returned': repr(aggs)[:300], 'want': repr(ref_agg)},
                    mechanism='interleaved-xagg:no-error-no-aggregate')
    elif _canon_batches(outs) != _canon_batches(ref_outs):
      ctx.violation('output_multiset_differs', case, {'n_got': len(outs), 'n_want': len(ref_outs)},
                    mechanism='interleaved-xagg:outputs-differ')
    else:
      ctx.count('merge_failing_cases_with_one_correct_aggregate')
    return
  ctx.count('merge_failing_sharded_cases')
  box = {}

  def go():
    servers = cwork.start_servers(case['W'], 'c16x')
    try:
      with c16conc.ThreadWatch() as watch:
        pool = courier_worker.WorkerPool([s.address for s in servers], call_timeout=60,
                                         iterate_batch_size=case['ibs'])
        pool.wait_until_alive(deadline_secs=60, minimum_num_workers=case['W'])
        box['res'] = c16conc.sharded_run(pool, c16conc.define_pipeline_x, spec, case['K'], watch)
        box['acquired'] = len(pool.acquired_workers)
    finally:
      cwork.stop_servers(servers)

  finished, _, exc = cwork.run_with_watchdog(go, 120)
  if not finished or exc is not None:
    ctx.inconclusive_case(f'sharded run with a merge-failing aggregate did not complete: {exc!r}'[:200],
                          case)
    return
  res = box['res']
  if res['merge_thread']:
    ctx.count('merge_threads_observed')
  if res['error'] is not None:
    ctx.count('merge_error_reached_caller')
    if res['gave_up_waiting']:
      ctx.inconclusive_case('the run raised, its merge thread is still alive', case)
    else:
      inspect_after_error(ctx, case, res['aggs'], ref_agg, 'sharded-xagg',
                          extra={'error': repr(res['error'])[:160]})
    return
  finals = [a for a in res['aggs'] if isinstance(a, transform.AggregateResult)]
  state = {'iterator_finished_without_error': True, 'batches_delivered': len(res['outs']),
           'merge_thread_alive': res['merge_thread_alive'],
           'merge_thread_ended_with': repr(res['merge_thread_error'])[:160],
           'result_queue': repr(res['aggs'])[:200]}
  if not res['aggs']:
    if res['gave_up_waiting'] or res['merge_thread_alive'] or not res['merge_thread']:
      ctx.inconclusive_case('no aggregate yet and the merge thread is still alive / unknown', case)
      return
    # state, not time: the iterator ended normally, the merge thread has ended, the
    # result queue is empty - nothing can ever arrive, and nobody was told
    ctx.violation('no_error_and_no_final_aggregate', case, state,
                  mechanism=K_MERGE if res['merge_thread_error'] is not None
                  else 'sharded-xagg:no-final-aggregate')
    return
  if len(finals) != 1 or len(res['aggs']) != 1 or finals[0].agg_result != ref_agg:
    ctx.violation('wrong_final_aggregate', case, dict(state, want=repr(ref_agg)),
                  mechanism='sharded-xagg:aggregate-differs')
  elif _canon_batches(res['outs']) != _canon_batches(ref_outs):
    ctx.violation('output_multiset_differs', case,
                  {'n_got': len(res['outs']), 'n_want': len(ref_outs)},
                  mechanism='sharded-xagg:outputs-differ')
  else:
    ctx.count('merge_failing_cases_with_one_correct_aggregate')


# ---------------------------------------------------------------------------
# a sharded run in which one shard cannot complete
# ---------------------------------------------------------------------------
STALL_S, STALL_DEADLINE_S = 0.6, 0.25


def gen_failing_shard_case(rng):
  rec = rng.randint(1, 4)
  K = rng.randint(2, 5)
  n = rec * K * rng.randint(2, 5)
  a, b = rng.randint(1, 3), rng.randint(0, 5)
  bad = a * rng.randrange(n) + b          # one value of the dataset, after the first operator
  kind = rng.choice(['app_error', 'app_error', 'deadline_no_retry'])
  ops = [['affine', {'a': a, 'b': b}]]
  if kind == 'app_error':
    ops.append(['fail_on', {'value': bad}])
  else:
    ops.append(['stall_on', {'value': bad, 'delay': STALL_S}])
  if rng.random() < 0.4:
    ops.append(['square'])
  spec = {'n': n, 'rec': rec, 'ops': ops, 'agg': rng.choice(['sum', 'sum', 'collect']),
          'fused': rng.random() < 0.6, 'num_threads': 0}
  return {'driver': 'failing_shard', 'kind': kind, 'spec': spec, 'W': rng.randint(1, 3), 'K': K,
          'ibs': rng.randint(1, 4)}


def run_failing_shard_case(ctx, case):
  from vlib import c16conc, c16lib, cwork
  from ml_metrics._src.chainables import courier_worker
  spec, kind = case['spec'], case['kind']
  ref_outs, ref_agg = c16lib.reference(spec)      # of the complete dataset (nothing fails)
  box = {}

  def go():
    servers = cwork.start_servers(case['W'], 'c16f')
    try:
      with c16conc.ThreadWatch() as watch:
        pool = courier_worker.WorkerPool(
            [s.address for s in servers], iterate_batch_size=case['ibs'],
            call_timeout=STALL_DEADLINE_S if kind == 'deadline_no_retry' else 60)
        pool.wait_until_alive(deadline_secs=60, minimum_num_workers=case['W'])
        kw = {'retry_failures': False} if kind == 'deadline_no_retry' else {}
        box['res'] = c16conc.sharded_run(pool, c16lib.define_pipeline, spec, case['K'], watch, **kw)
    finally:
      cwork.stop_servers(servers, join_s=1.0)

  finished, _, exc = cwork.run_with_watchdog(go, 120)
  ctx.count('failing_shard_cases')
  ctx.case(('failing_shard', case), True)
  if not finished or exc is not None or 'res' not in box:
    ctx.inconclusive_case(f'failing_shard case did not complete: {exc!r}'[:200], case)
    return
  res = box['res']
  if res['gave_up_waiting']:
    ctx.inconclusive_case('failing_shard: the merge thread is still alive', case)
    return
  want = set(_canon_batches(ref_outs))
  phantom = [b for b in _canon_batches(res['outs']) if b not in want]
  if phantom:
    ctx.violation('output_multiset_differs', case, {'phantom': phantom[:5]},
                  mechanism='failing-shard:phantom-batches')
  if res['error'] is None:
    # in process this pipeline raises / a call ran into its deadline without retries
    ctx.violation('failed_shard_not_reported', case,
                  {'n_outs': len(res['outs']), 'n_of_complete_run': len(ref_outs),
                   'result_queue': repr(res['aggs'])[:200]},
                  mechanism='failing-shard:no-error-raised')
    return
  ctx.count('failing_shard_runs_raised')
  fired = inspect_after_error(
      ctx, case, res['aggs'], ref_agg, 'failing-shard',
      extra={'error': f'{type(res["error"]).__name__}: {res["error"]}'[:160],
             'batches_delivered_before_the_error': len(res['outs']),
             'batches_of_the_complete_run': len(ref_outs), 'shards': case['K']})
  if fired and len(ctx.samples) < 6:
    ctx.sample({'case': case, 'delivered_after_error': repr(res['aggs'])[:160]})


def run_chunk(ctx, spec):
  if 'fidelity' in spec:
    run_fidelity(ctx, spec['fidelity'])
    return
  import courier
  from vlib import cwork
  cwork.setup(scale=1.0)
  rng = random.Random(spec['rseed'] * 1000003 + spec['chunk'] * 13 + 1)
  for i in range(spec['n']):
    pspec = gen_spec(rng)
    W = rng.randint(1, 4)
    if i % 2 == 0:
      case = {'spec': pspec, 'driver': 'sharded', 'W': W,
              'K': rng.randint(1, 6), 'ibs': rng.randint(1, 4)}
      # (own generator: the other fields of the cases stay what they were)
      case['maxpar'] = random.Random(repr(sorted(case.items(), key=str))).choice(
          [1, 1, 2, 3, 4])
    else:
      case = {'spec': pspec, 'driver': 'interleaved', 'W': W,
              'buf': rng.randint(0, 3), 'with_pool': rng.random() < 0.75}
    run_case_spec(ctx, case)
    if i % 3 == 0:
      check_strict_counts(ctx, pspec, case)
  # (separate generator: the cases above stay what they were)
  rng2 = random.Random(spec['rseed'] * 1000003 + spec['chunk'] * 13 + 7)
  # (third generator: the cases of rng / rng2 stay what they were)
  rng3 = random.Random(spec['rseed'] * 1000003 + spec['chunk'] * 13 + 11)
  forced = False
  for i in range(max(1, spec['n'] // 5)):
    ccase = gen_concurrent_case(rng2)
    # every chunk has at least one two-pool case with differing settings
    ccase = add_differing_setting(ccase, rng3, force=not forced)
    forced = forced or bool(ccase.get('setting'))
    run_concurrent_case(ctx, ccase)
  if not forced:
    ccase = gen_concurrent_case(rng3)
    ccase.update(one_pool=False)
    if not set(ccase['members'][0]) & set(ccase['members'][1]):
      ccase['members'][1] = sorted(set(ccase['members'][1]) | {ccase['members'][0][0]})
    run_concurrent_case(ctx, add_differing_setting(ccase, rng3, force=True))
  for i in range(max(1, spec['n'] // 8)):
    run_xagg_case(ctx, gen_xagg_case(rng2))
  for i in range(max(2, spec['n'] // 13)):
    run_failing_shard_case(ctx, gen_failing_shard_case(rng3))
  ctx.count('transport_calls', sum(1 for e in courier.sim.call_log if e['ev'] == 'call'))


def run_case(ctx, case):
  from vlib import cwork
  cwork.setup(scale=1.0)
  if case.get('sub') == 'strict':
    check_strict_counts(ctx, case['spec'], case)
  elif case.get('driver') == 'concurrent':
    run_concurrent_case(ctx, case)
  elif case.get('driver') == 'xagg':
    run_xagg_case(ctx, case)
  elif case.get('driver') == 'failing_shard':
    run_failing_shard_case(ctx, case)
  else:
    run_case_spec(ctx, case)
