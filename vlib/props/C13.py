"""C13 - parallel iteration yields the sequential multiset and releases its threads.

Engine E2: piter_multiplex / piter_fn / piter / pmap / MultiplexIterator run with
the shim executor under the deterministic scheduler.  Thread release is exact:
all controlled threads must finish, library-owned pools must be shut down by
the library, caller-provided pools must be shut-down-able (no stuck worker).
"""

from __future__ import annotations

import random

from vlib import runner

ID = 'C13'
LEVEL = 'exploration'
RULE = (
    'a case is (api, parallelism 0-4, buffer size, 1-4 input generators with 0-4 unique '
    'elements and a return value each, element-wise iterator function, early-stop position or '
    'failure position (every position), schedule). Non-trivial = parallelism >= 2 or >= 2 inputs, '
    'and >= 1 statement-level pre-emption; distinct = (configuration, schedule trace) hash')
ASSUMPTIONS = [
    'iterator functions are element-wise (map / filter / flat-map), so the multiset does not depend on which worker sees which element',
    'a pool created implicitly inside piter/pmap and never exposed only has to end idle with an empty work queue (CPython would reap its workers when the executor is garbage collected); pools owned by MultiplexIterator must be shut down by it; pools handed in by the caller are shut down by the caller and that shutdown must return',
    'a caller-provided pool has at least as many workers as tasks the API submits (inputs + parallelism); a smaller pool starves the second stage by construction',
    'scheduler assumptions as in C04',
]
REQUIRED = ['schedules', 'line_preemptions', 'outputs', 'full_runs', 'early_stop_runs',
            'failure_runs', 'pool_checks', 'shim_futures_installed']
CHUNK_TIMEOUT_S = {'quick': 300, 'thorough': 3000}

APIS = ['piter_multiplex', 'piter_fn', 'piter', 'pmap', 'multiplex_iter']


def gen_config(rng):
  api = rng.choice(APIS)
  par = rng.choice([1, 2, 2, 3, 4])
  if api in ('piter_fn', 'pmap'):
    n_in = 1
  elif api == 'piter_multiplex':
    n_in = rng.choice([1, 2, 3, 4])
  else:
    n_in = rng.choice([1, 1, 2, 3, 4])
  if api in ('multiplex_iter', 'piter', 'piter_fn', 'pmap') and rng.random() < 0.1:
    par = 0
  inputs = [rng.choice([0, 1, 2, 3, 4]) for _ in range(n_in)]
  fn = rng.choice(['id', 'inc', 'dup', 'filter'])
  if api == 'piter_multiplex':
    fn = None
  if api in ('piter', 'multiplex_iter') and rng.random() < 0.25:
    fn = None
  if api == 'piter' and fn is None and n_in == 1:
    fn = 'id'
  if api == 'multiplex_iter' and fn is None and par and n_in == 1:
    fn = 'id'
  buf = rng.choice([0, 1, 2, 3 * max(par, 1)])
  pool = 'given'
  if api in ('piter', 'pmap') and rng.random() < 0.4:
    pool = 'implicit'
  if api == 'piter' and rng.random() < 0.04:
    # As many inputs as a default-sized executor has workers (the scheduler's
    # executor shim has 8 when max_workers is not given, CPython min(32, cpu+4)):
    # the pool the library creates itself must still fit inputs + workers.
    pool = 'implicit'
    inputs = [rng.choice([1, 2]) for _ in range(8 + rng.choice([0, 1, 3]))]
    n_in = len(inputs)
    par = max(par, 1)
  cfg = {'api': api, 'par': par, 'inputs': inputs, 'fn': fn, 'buf': buf,
         'pool': pool, 'pool_size': n_in + max(par, 1) + rng.choice([0, 1, 4])}
  # (own generator: the configurations drawn from rng stay what they were)
  krng = random.Random(sum(inputs) * 131 + n_in * 17 + par * 7 + buf)
  if api in ('piter', 'piter_multiplex') and krng.random() < 0.35:
    # fourth seed round (C13d): some inputs are Sequence objects (a list / tuple shard,
    # possibly empty) instead of generators; they have no return value
    cfg['src_kinds'] = [krng.choice(['gen', 'list', 'tuple']) for _ in range(n_in)]
  return cfg


def variants(cfg):
  out = [dict(cfg)]
  total = sum(cfg['inputs'])
  # early stop at every position
  if cfg['par'] or cfg['api'] == 'piter_multiplex':
    for s in range(0, total + 1):
      out.append(dict(cfg, stop_after=s))
  # failure at every position of every input, and in the function
  for k, n in enumerate(cfg['inputs']):
    for at in range(n + 1):
      out.append(dict(cfg, fail={'where': 'input', 'src': k, 'at': at}))
    if cfg['fn'] is not None or cfg['api'] == 'pmap':
      for at in range(n):
        out.append(dict(cfg, fail={'where': 'fn', 'src': k, 'at': at}))
  return out


def plan(tier, seed):
  n_cfg, n_sched = (96, 8) if tier == 'quick' else (900, 40)
  chunks = 32 if tier == 'quick' else 64
  return [{'chunk': i, 'chunks': chunks, 'n_cfg': n_cfg, 'n_sched': n_sched,
           'rseed': seed} for i in range(chunks)]


def mechanism(case, kind, detail):
  """Stable key: api, scenario, kind and (for deadlocks) who is blocked where."""
  sc = 'fail' if case.get('fail') else ('stop' if case.get('stop_after') is not None else 'full')
  site = ''
  sites = set()
  if kind == 'deadlock' and isinstance(detail, dict):
    for name, v in detail.items():
      st = [s for s in (v.get('stack') or []) if s.startswith('iter_utils.py')]
      who = name.split('_')[0].split('#')[0].split(':')[0]
      where = (st[-1].split(':')[-1] if st
               else (v.get('blocked_on') or '?').split('@')[0].split('(')[0])
      sites.add(f'{who}:{where}')
    site = '[' + ','.join(sorted(sites)) + ']'
  # Known finding (see known_findings.json): piter() with several input
  # iterators feeds them through an upstream bounded queue that is never
  # stopped when the downstream queue fails or is stopped early.
  if (case['api'] == 'piter' and len(case['inputs']) >= 2 and sc in ('stop', 'fail')
      and kind == 'deadlock' and any(x.endswith(':put') for x in sites)
      and not any(x.endswith((':get', ':get_batch')) for x in sites)):
    return 'piter-multi-input-upstream-queue-not-stopped'
  return f"{case['api']}:{sc}:{kind}{site}"


def run_one(ctx, case):
  from vlib import pwork
  sched, log, info = pwork.run_parallel_case(case)
  ctx.count('schedules')
  ctx.count('line_preemptions', sched.line_preemptions)
  ctx.count('switches', sched.switches)
  ctx.count('outputs', sum(1 for e in log if e[0] == 'out'))
  ctx.count('pool_checks', sum(1 for e in log if e[0] == 'pool'))
  if 'futures' in info['shims']:
    ctx.count('shim_futures_installed')
  if case.get('fail'):
    ctx.count('failure_runs')
    ctx.count('failures_fired', sum(1 for e in log if e[0] == 'fail'))
  elif case.get('stop_after') is not None:
    ctx.count('early_stop_runs')
  else:
    ctx.count('full_runs')
  seq_in = info.get('sequence_inputs') or []
  if seq_in:
    ctx.count('runs_with_sequence_inputs')
    if any(n == 0 for _, _, n in seq_in) and len(case['inputs']) >= 2:
      ctx.count('runs_with_empty_sequence_input_among_several')
  cfg_key = {k: v for k, v in case.items() if k != 'sched_seed'}
  nontrivial = ((case['par'] >= 2 or len(case['inputs']) >= 2)
                and sched.line_preemptions >= 1)
  ctx.case((runner.stable_hash(cfg_key), sched.trace_hash()), nontrivial)
  if sched.status in ('watchdog', 'step_bound'):
    ctx.inconclusive_case(sched.status, case)
    return
  for kind, detail in pwork.analyse(case, sched, log, info):
    ctx.violation(kind, case, {'detail': detail, 'log_tail': log[-20:]},
                  mechanism=mechanism(case, kind, detail))
  if len(ctx.samples) < 3:
    ctx.sample({'case': case, 'events': log[:30]})


def run_chunk(ctx, spec):
  rng = random.Random(spec['rseed'] * 1000003 + 41)
  configs = [gen_config(rng) for _ in range(spec['n_cfg'])]
  mine = [c for i, c in enumerate(configs) if i % spec['chunks'] == spec['chunk']]
  srng = random.Random(spec['rseed'] * 7919 + spec['chunk'] + 11)
  for cfg in mine:
    for variant in variants(cfg):
      for j in range(spec['n_sched']):
        case = dict(variant)
        case['sched_seed'] = srng.randrange(1 << 30)
        r = j % 4
        case['strategy'] = 'pct' if r == 3 else 'random'
        case['p_line'] = [0.05, 0.15, 0.4, 0.0][r]
        case['p_sync'] = [0.3, 0.5, 0.7, 0.0][r]
        run_one(ctx, case)


def run_case(ctx, case):
  run_one(ctx, case)
