"""C07 - Metric values equal their mathematical definitions.

Differential check: the real library (imported from the repo in a child
interpreter) against independent brute-force oracles (vlib/oracles/c07_*.py,
exact Fraction / 60-digit Decimal arithmetic), plus alias, range and
API-path (function API == AggregateFn.__call__ == accumulator) equalities.

Every violation `case` carries the literal configuration and input, so
`run_case` replays it exactly; `src` records the (rseed, index) that generated it.
"""

from __future__ import annotations

ID = 'C07'
LEVEL = 'exploration'
RULE = (
    'a case is (metric family, configuration, input): classification = (input type, '
    'average, pos_label, vocabulary, k-list, container, batch split) x label arrays; '
    'retrieval = (k-list, input type) x ragged rankings; thresholded retrieval = '
    'thresholds x rankings with probabilities; stats/misc = (metric, options) x numeric '
    'batches with NaNs / texts. Cases are drawn from random.Random(f(seed, chunk, index)). '
    'All ~30 derived rates / 17 ranking metrics are compared per case. Non-trivial = at '
    'least 2 examples and 2 classes (rows) with non-zero denominators for precision, '
    'recall, specificity and NPV; zero-denominator comparisons are counted separately '
    '(convention_cases). Distinct = hash of (family, configuration, literal input).')
ASSUMPTIONS = [
    'zero-denominator convention "x / 0 gives 0" is applied division by division in the '
    'oracle (composite rates: likelihood ratios, DOR, F1, prevalence threshold, MCC); '
    'prevalence threshold uses the (sqrt(TPR(1-TNR)) + TNR - 1) / (TPR + TNR - 1) form',
    '`accuracy` of the confusion-matrix family is compared with the oracle only under '
    'samples averaging (per-sample hit rate); elsewhere only path/alias equalities; '
    'textbook accuracy is checked through `binary_accuracy`',
    'multiclass / multioutput input with macro average always gets a vocabulary; '
    'vocab=None means "labels that occur in y_true or y_pred of this call"; a vocabulary '
    'contains every occurring label and may contain unused ones (counted as classes)',
    'binary average is generated only for binary input and <= 2-column indicator input '
    '(positive class of a multiclass vocabulary under `binary` is undocumented)',
    'indicator input uses 0/1 (or bool) entries with the default pos_label=1; rows are '
    'one-hot (75%) or multi-hot; pos_label passed with multiclass inputs is arbitrary '
    '(documented as ignored)',
    'binary labels and pos_label have one python type per case; when pos_label does not '
    'occur the function API must raise the documented ValueError (binary/binary only)',
    'k-lists are ascending, distinct, positive; k_list is not combined with samples average',
    'multi-batch accumulation is exercised only where the class index is stable (binary / '
    'indicator input or explicit vocabulary, no k_list); TopKRetrieval multi-batch only '
    'when every batch holds a ranking of >= max(k) items (per-batch k truncation is a C01 finding)',
    'retrieval rows have >= 1 true label and >= 1 prediction, items distinct per row; "at k" '
    'means on y_pred[:k], precision@k = tp / len(y_pred[:k]); AP@k divides by '
    'min(k, len(y_true)) (the repository test literals), k=None by len(y_true)',
    'retrieval input_type=multiclass uses single-character string labels (as the unit '
    'tests); 2% of cases use the other documented multiclass encodings (ints, words) '
    'and are keyed retrieval-multiclass-labels-iterated',
    'thresholded retrieval: probabilities and thresholds on the grid i/16 in [0, 1] '
    '(exact in float32, which the library uses internally); metric@t only at listed thresholds',
    'Mean / MeanAndVariance / Var batches are non-empty; |values| <= 1e6; NaN is the only '
    'non-finite value; tolerance atol scales with max|x| (mean, total) or max|x|^2 (var)',
    'when every value accumulated so far is NaN, Mean/MeanAndVariance keep their scalar '
    'initial state (nan, count 0) for 2-D input; same values, scalar shape - accepted and '
    'recorded as an observation, not compared',
    'MinMaxAndCount is fed non-negative values (max starts at 0), axis None or 0, '
    'batch_score_fn None or len',
    'Histogram / CalibrationHistogram: explicit range with int bins (or explicit edges); '
    'bins is a power of two with dyadic range, or odd with a power-of-two span, so that '
    'values (dyadic grid) meet an edge only where the edge is exact; no NaNs',
    'R2Tjur: y_true in {0, 1}, predictions on i/64 in [0, 1]; RRegression / '
    'SymmetricPredictionDifference: values on the grid i/8, |x| <= 8 (sums exact in '
    'double, so the one-pass formulas do not cancel catastrophically); a term with '
    'x + y == 0 contributes 0 to the symmetric prediction difference (unit-test convention)',
    'texts are printable ASCII without tabs/newlines; n-gram cleaning keeps [a-zA-Z ] and '
    'lower-cases; pattern occurrences may overlap (unit-test literal)',
    'cross entropy: y_true in {0, 1} with at least one 1, predictions i/64 in (0, 1); '
    'topk_accurate: weighted scores are distinct, 1 <= k <= len',
    'float comparison: |got - want| <= 1e-12 * scale + 1e-9 * |want|; NaN equals NaN',
    'metrics/text.py and signals/text.py are not importable here and are not covered',
]
REQUIRED = [
    'selftest_checks', 'cls_cases', 'cls_value_checks', 'cls_alias_checks',
    'cls_range_checks', 'cls_function_api_checks', 'cls_accumulator_checks',
    'cls_multibatch_checks', 'cls_count_checks', 'convention_cases',
    'retr_cases', 'retr_value_checks', 'retr_alias_checks', 'retr_function_api_checks',
    'retr_accumulator_checks', 'thr_cases', 'thr_value_checks',
    'stats_meanvar_cases', 'stats_nan_cases', 'stats_minmax_cases', 'stats_hist_cases',
    'stats_counter_cases', 'stats_calibration_cases', 'stats_value_checks',
    'stats_function_api_checks', 'misc_r2tjur_cases', 'misc_r2tjur_rel_cases',
    'misc_rreg_cases', 'misc_spd_cases', 'misc_text_cases', 'misc_mathutils_cases',
    'misc_signal_cases', 'misc_value_checks', 'retr_multibatch_checks',
    'thr_multibatch_checks', 'stats_accumulator_checks', 'misc_accumulator_checks',
]
EXHAUSTIVE = {'quick': False, 'thorough': False}
CHUNK_TIMEOUT_S = {'quick': 240, 'thorough': 3000}

# (family, chunks, cases per chunk)
_PLAN = {
    'quick': [('cls', 8, 400), ('retr', 4, 400), ('thr', 1, 400),
              ('stats', 4, 350), ('misc', 3, 400)],
    'thorough': [('cls', 50, 4000), ('retr', 26, 4000), ('thr', 6, 4000),
                 ('stats', 24, 4000), ('misc', 19, 4000)],
}


def plan(tier, seed):
  specs = [{'mode': 'selftest'}]
  for family, chunks, count in _PLAN[tier]:
    for c in range(chunks):
      specs.append({'mode': 'random', 'family': family, 'count': count,
                    'rseed': seed * 1000 + c})
  return specs


def _dispatch(ctx, case):
  fam = case['family']
  if fam == 'cls':
    from vlib.oracles import c07_check_cls
    return c07_check_cls.check(ctx, case)
  if fam == 'retr':
    from vlib.oracles import c07_check_retr
    return c07_check_retr.check_topk(ctx, case)
  if fam == 'thr':
    from vlib.oracles import c07_check_retr
    return c07_check_retr.check_thresholded(ctx, case)
  if fam == 'stats':
    from vlib.oracles import c07_check_stats as s
    sub = case['sub']
    fn = {'mean': s.check_meanvar, 'meanvar': s.check_meanvar, 'var': s.check_meanvar,
          'minmax': s.check_minmax, 'hist': s.check_histogram,
          'counter': s.check_counter, 'calib': s.check_calibration}[sub]
    return fn(ctx, case)
  if fam == 'misc':
    from vlib.oracles import c07_check_misc as m
    sub = case['sub']
    if sub in ('r2tjur', 'r2tjur_rel', 'rreg', 'spd'):
      return m.check_pairwise(ctx, case)
    if sub in ('ngrams', 'patterns'):
      return m.check_text(ctx, case)
    if sub == 'mathutils':
      return m.check_mathutils(ctx, case)
    return m.check_signals(ctx, case)
  raise ValueError(fam)


def _selftest(ctx):
  from vlib.oracles import c07_selftest
  fails = c07_selftest.run(ctx)
  ctx.case(('selftest',), False)
  for f in fails:
    ctx.violation('oracle_selftest', {'family': 'selftest'}, f,
                  mechanism='oracle-disagrees-with-unit-test-literal')


def run_chunk(ctx, spec):
  if spec['mode'] == 'selftest':
    _selftest(ctx)
    return
  from vlib.oracles import c07_gen
  family, rseed = spec['family'], spec['rseed']
  for index in range(spec['count']):
    case = c07_gen.gen(family, rseed, index)
    try:
      _dispatch(ctx, case)
    except Exception as e:  # harness/oracle error: never a verdict about the library
      ctx.inconclusive_case('harness error: ' + repr(e)[:300], case)


def run_case(ctx, case):
  if case.get('family') == 'selftest':
    _selftest(ctx)
    return
  if 'config' not in case and 'src' in case:
    from vlib.oracles import c07_gen
    case = c07_gen.gen(case['family'], case['src']['rseed'], case['src']['index'])
  _dispatch(ctx, case)
