"""C07 - Metric values equal their mathematical definitions.

Differential check: the real library (imported from the repo in a child
interpreter) against independent brute-force oracles (vlib/oracles/c07_*.py,
exact Fraction / 60-digit Decimal arithmetic), plus alias, range and
API-path (function API == AggregateFn.__call__ == accumulator) equalities.

Every violation `case` carries the literal configuration and input, so
`run_case` replays it exactly; `src` records the (rseed, index) that generated it.
"""

from __future__ import annotations

ID = 'C07'
LEVEL = 'exploration'
RULE = (
    'a case is (metric family, configuration, input): classification = (input type, '
    'average, pos_label, vocabulary, k-list, container, batch split) x label arrays; '
    'retrieval = (k-list, input type) x ragged rankings; thresholded retrieval = '
    'thresholds x rankings with probabilities; stats/misc = (metric, options) x numeric '
    'batches with NaNs / texts. Input classes generated on purpose: classification data '
    'sets of 150k-400k examples (clsbig, stored as sampling parameters and regenerated '
    'vectorised); k-lists in any order and with repeated ks; rankings with empty y_pred / '
    'y_true rows, in a batch with others and alone in a batch; probabilities equal to a '
    'threshold handed over as python floats / float64 / float32; numeric data with a common '
    'offset of 1e6-1e8 and a spread of 0.5-100; int32 / int64 containers with |x| > 46341; '
    'all-negative and mixed-sign data for min/max; probabilities exactly 0.0 / 1.0 for the '
    'categorical cross entropy; Mean / MeanAndVariance / Var data with +inf / -inf among '
    'finite values and no NaN (family statsinf), regrouped into five batchings (as given, '
    'one batch, row by row, reversed, one accumulator per batch merged); rankings that '
    'repeat an id (third audit round: a relevant or an irrelevant id, 1-3 copies next to the '
    'first occurrence, further down or in front of it, in one or several rows; about 12% of '
    'the retrieval cases); fourth audit round, drawn from a side stream so that the other '
    'cases stay as they were: thresholded-retrieval rankings that repeat an id (22% of the thr '
    'cases: 1-3 extra copies of a relevant or irrelevant id in one or several rows, at any '
    'position, each copy with its own probability or that of the first occurrence), every thr '
    'case is also re-run with each row reversed / rotated (order twin); rolling_stats '
    'accumulators with a NON-DEFAULT configuration through the one-shot call, add()+result(), '
    'as_agg_fn()(batch) and a merge of per-batch accumulators (15% of the stats cases): '
    'ValueAccumulator (concat_fn None / list / array concat; metric_fns None / a callable / a '
    'dict of callables; 1-2 inputs; 1-4 batches) and Mean / MeanAndVariance / Var with an '
    'element-wise batch_score_fn. A mismatch is keyed (mechanism) by the input class of the '
    'case and the position / metric it concerns, never by the value returned. '
    'Cases are drawn from random.Random(f(seed, chunk, index)). '
    'All ~30 derived rates / 17 ranking metrics are compared per case. Non-trivial = at '
    'least 2 examples and 2 classes (rows) with non-zero denominators for precision, '
    'recall, specificity and NPV; zero-denominator comparisons are counted separately '
    '(convention_cases). Distinct = hash of (family, configuration, literal input).')
ASSUMPTIONS = [
    'zero-denominator convention "x / 0 gives 0" is applied division by division in the '
    'oracle (composite rates: likelihood ratios, DOR, F1, prevalence threshold, MCC); '
    'prevalence threshold uses the (sqrt(TPR(1-TNR)) + TNR - 1) / (TPR + TNR - 1) form',
    '`accuracy` of the confusion-matrix family is compared with the oracle only under '
    'samples averaging (per-sample hit rate); elsewhere only path/alias equalities; '
    'textbook accuracy is checked through `binary_accuracy`',
    'multiclass / multioutput input with macro average always gets a vocabulary; '
    'vocab=None means "labels that occur in y_true or y_pred of this call"; a vocabulary '
    'contains every occurring label and may contain unused ones (counted as classes)',
    'binary average is generated only for binary input and <= 2-column indicator input '
    '(positive class of a multiclass vocabulary under `binary` is undocumented)',
    'indicator input uses 0/1 (or bool) entries with the default pos_label=1; rows are '
    'one-hot (75%) or multi-hot; pos_label passed with multiclass inputs is arbitrary '
    '(documented as ignored)',
    'binary labels and pos_label have one python type per case; when pos_label does not '
    'occur the function API must raise the documented ValueError (binary/binary only)',
    'k-lists are positive, in any order, a k may be repeated; the result is positional, so '
    'value i must belong to k_list[i] (a repeated k repeats its value); k_list is not '
    'combined with samples average',
    'multi-batch accumulation is exercised only where the class index is stable (binary / '
    'indicator input or explicit vocabulary, no k_list); TopKRetrieval multi-batch only '
    'when every batch holds a ranking of >= max(k) items (per-batch k truncation is a C01 finding)',
    'retrieval: y_true rows have distinct items; y_pred rows have distinct items except in '
    'the repeated-id input class, where set semantics apply: an item can be retrieved once, '
    'a repeated id counts at its first occurrence and its later copies are positions that '
    'retrieve nothing (they still occupy a rank: precision@k divides by len(y_pred[:k])). '
    'First and foremost the range law is demanded there (every rate but dcg_score in [0, 1], '
    'key retrieval-repeated-prediction-counted-as-several-hits); a value that stays in range '
    'and only differs from the set-based definition is keyed separately '
    '(retrieval-repeated-prediction-value-convention). Both keys require that some ranking '
    'repeats a RELEVANT id within the top-k concerned; a repeated irrelevant id must change '
    'nothing. A row may have no prediction or no true '
    'label (never both): its 0 / 0 rates are 0 by the zero-denominator convention of '
    'math_utils.safe_divide, for false_discovery_rate / miss_rate of such a row both 0 '
    '(safe fp / (tp + fp)) and 1 (1 - precision) are accepted; a two-batch run is compared '
    'only if every batch holds a ranking of >= max(k) items or nothing but empty rankings; "at k" '
    'means on y_pred[:k], precision@k = tp / len(y_pred[:k]); AP@k divides by '
    'min(k, len(y_true)) (the repository test literals), k=None by len(y_true)',
    'retrieval input_type=multiclass uses single-character string labels (as the unit '
    'tests); 2% of cases use the other documented multiclass encodings (ints, words) '
    'and are keyed retrieval-multiclass-labels-iterated',
    'thresholded retrieval: probabilities and thresholds on the grid i/16 in [0, 1] (exact '
    'in float32) or on a decimal grid (i/5, i/10, i/20, i/100: not representable) where half '
    'of the probabilities equal a threshold; probability rows are python lists, float64 or '
    'float32 arrays. "prob > t" is accepted under two readings, exact comparison of the '
    'given numbers or comparison after rounding both to float32 (thresholds are kept in '
    'float32), but the same comparison must decide "predicted positive" and "true positive"; '
    'metric@t only at listed thresholds, within 2e-6 when a threshold is not a float32 '
    '(interpolation on the float32 threshold axis); reported thresholds within rtol 1e-7',
    'thresholded retrieval with a repeated id: set semantics - an id is retrieved at t when '
    'ANY of its occurrences has prob > t (its highest probability counts) and is one hit; '
    'recall = retrieved true ids / true ids. The precision denominator is accepted under two '
    'readings, distinct ids above t or positions above t (what TopKRetrieval does with '
    'precision@k); f1 from either. Keys by input class, per threshold t: recall / f1 where '
    'some ranking repeats a relevant id whose LAST occurrence is not above t while another one '
    'is -> thresholded-retrieval-repeated-prediction-last-probability-wins; precision / f1 '
    'where a relevant id sits at >= 2 positions above t (one hit or several: a convention, '
    'order-independent) -> thresholded-retrieval-repeated-prediction-value-convention. Order '
    'twin: the same (id, prob) pairs of every row in another order must give the same values '
    '(not debatable); a difference at a threshold that the occurrences of a repeated relevant '
    'id straddle is keyed last-probability-wins, any other difference has no key',
    'ValueAccumulator: the definition is "the i-th input of every add() is kept in order, '
    'joined by concat_fn (list + / np.concatenate) or, without concat_fn, as the list of the '
    'batches; result = metric_fns(*sequences), a dict of callables gives a dict, no metric '
    'gives the sequences (a single input unwrapped)"; small ints (exact); metric functions '
    'are plain python (sum, len, max, mean, dot, ...); a mismatch of the one-shot call of an '
    'accumulator that was given metric_fns is keyed '
    'value-accumulator-one-shot-call-drops-configuration (configuration + API path, not the '
    'value), every other path / configuration has no key; batch_score_fn of Mean / '
    'MeanAndVariance / Var is abs, negation or halving (exact in floats): the statistics of '
    'the scored values',
    'Mean / MeanAndVariance / Var batches are non-empty; |values| <= 1.1e8; NaN is the only '
    'non-finite value outside the statsinf family; float64 arrays, or int32 / int64 arrays without NaN; tolerance atol = '
    '1e-12 x scale with scale = max|x| (mean, total), spread^2 + 2e-3 max|x| spread (var: ~9 '
    'eps max|x| spread is the conditioning a stable algorithm cannot beat; a one-pass '
    'E[x^2]-mean^2 is off by eps max|x|^2), stddev tolerance derived from the var tolerance',
    'statsinf: +inf / -inf are values: count counts them; total and mean are +inf (-inf) '
    'when only that sign occurs in the column and NaN when both occur (what numpy reports '
    'for the whole data); variance and stddev are NaN as soon as the column holds an inf; '
    'infinite / NaN results must agree in kind, finite columns of the same 2-D input within '
    'the usual tolerance; Mean accumulators are also read through their public count / '
    'total properties',
    'when every value accumulated so far is NaN, Mean/MeanAndVariance keep their scalar '
    'initial state (nan, count 0) for 2-D input; same values, scalar shape - accepted and '
    'recorded as an observation, not compared',
    'MinMaxAndCount: values of any sign (all >= 0, all < 0, mixed; per-column signs for 2-D '
    'batches), min / max are the smallest / largest value that occurred; axis None, 0 '
    '(column-wise on 2-D batches) or 0 / -1 on 1-D batches; batch_score_fn None, len or '
    'np.sum (score functions only with axis None); add() and merge() of per-batch accumulators',
    'Histogram / CalibrationHistogram: explicit range with int bins (or explicit edges); '
    'bins is a power of two with dyadic range, or odd with a power-of-two span, so that '
    'values (dyadic grid) meet an edge only where the edge is exact; no NaNs',
    'R2Tjur: y_true in {0, 1}, predictions on i/64 in [0, 1]; SymmetricPredictionDifference: '
    'values on the grid i/8, |x| <= 8, in 40% of the cases scaled exactly by 2**k, k in '
    '{-60 .. 40} (other units: the metric is a ratio; 2**-30 ~ 1e-9); a term with x + y == 0 '
    'contributes 0 to the symmetric prediction difference (unit-test convention); the '
    'math_utils operands are scaled the same way (0 is the only zero denominator)',
    'RRegression: (a) grid i/8, |x| <= 8, constant columns allowed (NaN); (b) features / '
    'target with a common offset 1e6-1e8 (either sign) and spread 0.5-100, integer-valued '
    'half of the time, every column has spread >= 0.25 (no constant column: 0 / 0 is not '
    'float-stable there); (c) integer-valued data up to 2e6 handed over as int32 / int64 '
    'arrays (x, in 30% also y) and as plain python ints. Tolerance atol = 1e-12 (1 + 0.015 '
    'cond), cond = max|v| sqrt(2n) / spread (>= max|v| / rms deviation), i.e. ~64 eps cond: '
    'what centring-first costs in float64; keys: int32 element-wise overflow when an int32 '
    'value exceeds 46340 (or |x y| >= 2^31), int64 product overflow when x and y are both '
    'integers and sum_xx sum_yy (reflective) or sum_x^2, sum_y^2, sum_x sum_y (Pearson) '
    'exceed 2^63, cancellation when cond > 1e4',
    'clsbig: binary (int / bool labels), one-hot indicator and multiclass-with-vocabulary '
    'data of 150k-400k examples, average binary / micro / macro, accumulated in 1 / 4 / 16 '
    'batches; every derived rate except samples-accuracy; MCC is requested on its own so that '
    'its failure cannot hide the other rates; key mcc-int64-overflow-large-counts iff '
    '(tp+fp)(tp+fn)(tn+fp)(tn+fn), tp tn or fp fn of a class matrix exceeds 2^63-1',
    'texts are printable ASCII without tabs/newlines; n-gram cleaning keeps [a-zA-Z ] and '
    'lower-cases; pattern occurrences may overlap (unit-test literal)',
    'cross entropy: y_true in {0, 1} with at least one 1, predictions i/64 in (0, 1); '
    'categorical cross entropy additionally with probabilities in the documented closed '
    'interval [0, 1] (exact 0.0 / 1.0 entries, one-hot predictions, sum > 0) under the '
    '0 * log(0) = 0 convention: a class that is not true contributes nothing, a true class '
    'with probability 0 gives +inf; binary_cross_entropy documents the open interval (0, 1) '
    'and is not fed 0.0 / 1.0; '
    'topk_accurate: weighted scores are distinct, 1 <= k <= len',
    'float comparison: |got - want| <= 1e-12 * scale + 1e-9 * |want|; NaN equals NaN',
    'metrics/text.py and signals/text.py are not importable here and are not covered',
]
REQUIRED = [
    'selftest_checks', 'cls_cases', 'cls_value_checks', 'cls_alias_checks',
    'cls_range_checks', 'cls_function_api_checks', 'cls_accumulator_checks',
    'cls_multibatch_checks', 'cls_count_checks', 'convention_cases',
    'retr_cases', 'retr_value_checks', 'retr_alias_checks', 'retr_function_api_checks',
    'retr_accumulator_checks', 'thr_cases', 'thr_value_checks',
    'stats_meanvar_cases', 'stats_nan_cases', 'stats_minmax_cases', 'stats_hist_cases',
    'stats_counter_cases', 'stats_calibration_cases', 'stats_value_checks',
    'stats_function_api_checks', 'misc_r2tjur_cases', 'misc_r2tjur_rel_cases',
    'misc_rreg_cases', 'misc_spd_cases', 'misc_text_cases', 'misc_mathutils_cases',
    'misc_scaled_magnitude_cases',
    'misc_signal_cases', 'misc_value_checks', 'retr_multibatch_checks',
    'thr_multibatch_checks', 'stats_accumulator_checks', 'misc_accumulator_checks',
    # input classes that must have been generated (see RULE)
    'clsbig_cases', 'clsbig_int64_product_cases', 'clsbig_mcc_checks', 'clsbig_value_checks',
    'clsbig_accumulator_checks', 'clsbig_count_checks',
    'cls_unordered_klist_cases', 'retr_unordered_klist_cases', 'retr_empty_row_cases',
    'retr_empty_batch_checks', 'thr_tie_cases', 'stats_minmax_negative_max_cases',
    'stats_int_dtype_cases', 'misc_rreg_offset_cases', 'misc_rreg_int32_cases',
    'misc_xent_closed_interval_cases', 'misc_xent_zero_probability_cases',
    'stats_inf_cases', 'stats_inf_batching_checks',
    'retr_repeated_id_cases', 'retr_repeated_relevant_id_cases',
    'retr_repeated_irrelevant_id_cases', 'retr_range_checks',
    # fourth audit round
    'thr_repeated_id_cases', 'thr_repeated_relevant_id_cases',
    'thr_repeated_straddling_threshold_cases', 'thr_order_twin_checks',
    'stats_valueacc_cases', 'stats_valueacc_metric_fns_cases',
    'stats_one_shot_call_checks', 'stats_configured_mean_cases',
]
EXHAUSTIVE = {'quick': False, 'thorough': False}
CHUNK_TIMEOUT_S = {'quick': 240, 'thorough': 3000}

# (family, chunks, cases per chunk)
_PLAN = {
    'quick': [('clsbig', 3, 2), ('cls', 8, 400), ('retr', 4, 400), ('thr', 1, 400),
              ('stats', 4, 350), ('statsinf', 1, 300), ('misc', 3, 400)],
    'thorough': [('clsbig', 8, 8), ('cls', 50, 4000), ('retr', 26, 4000),
                 ('thr', 6, 4000), ('stats', 24, 4000), ('statsinf', 2, 4000),
                 ('misc', 19, 4000)],
}


def plan(tier, seed):
  specs = [{'mode': 'selftest'}]
  for family, chunks, count in _PLAN[tier]:
    for c in range(chunks):
      specs.append({'mode': 'random', 'family': family, 'count': count,
                    'rseed': seed * 1000 + c})
  return specs


def _dispatch(ctx, case):
  fam = case['family']
  if fam == 'clsbig':
    from vlib.oracles import c07_check_large
    return c07_check_large.check(ctx, case)
  if fam == 'cls':
    from vlib.oracles import c07_check_cls
    return c07_check_cls.check(ctx, case)
  if fam == 'retr':
    from vlib.oracles import c07_check_retr
    return c07_check_retr.check_topk(ctx, case)
  if fam == 'thr':
    from vlib.oracles import c07_check_retr
    return c07_check_retr.check_thresholded(ctx, case)
  if fam == 'stats':
    from vlib.oracles import c07_check_stats as s
    sub = case['sub']
    fn = {'mean': s.check_meanvar, 'meanvar': s.check_meanvar, 'var': s.check_meanvar,
          'minmax': s.check_minmax, 'hist': s.check_histogram,
          'counter': s.check_counter, 'calib': s.check_calibration,
          'valueacc': s.check_valueacc}[sub]
    return fn(ctx, case)
  if fam == 'misc':
    from vlib.oracles import c07_check_misc as m
    sub = case['sub']
    if sub in ('r2tjur', 'r2tjur_rel', 'rreg', 'spd'):
      return m.check_pairwise(ctx, case)
    if sub in ('ngrams', 'patterns'):
      return m.check_text(ctx, case)
    if sub == 'mathutils':
      return m.check_mathutils(ctx, case)
    return m.check_signals(ctx, case)
  raise ValueError(fam)


def _selftest(ctx):
  from vlib.oracles import c07_selftest
  fails = c07_selftest.run(ctx)
  ctx.case(('selftest',), False)
  for f in fails:
    ctx.violation('oracle_selftest', {'family': 'selftest'}, f,
                  mechanism='oracle-disagrees-with-unit-test-literal')


def run_chunk(ctx, spec):
  if spec['mode'] == 'selftest':
    _selftest(ctx)
    return
  from vlib.oracles import c07_gen
  family, rseed = spec['family'], spec['rseed']
  for index in range(spec['count']):
    case = c07_gen.gen(family, rseed, index)
    try:
      _dispatch(ctx, case)
    except Exception as e:  # harness/oracle error: never a verdict about the library
      ctx.inconclusive_case('harness error: ' + repr(e)[:300], case)


def run_case(ctx, case):
  if case.get('family') == 'selftest':
    _selftest(ctx)
    return
  if 'config' not in case and 'src' in case:
    from vlib.oracles import c07_gen
    case = c07_gen.gen(case['src'].get('generator', case['family']),
                       case['src']['rseed'], case['src']['index'])
  _dispatch(ctx, case)
