"""C14 - remote evaluation is observationally the same as local evaluation.

Engine E4 (simulated Courier transport, real CourierServer / CourierClient /
RemoteObject / RemoteIterator / RemoteIteratorQueue code) with real threads.
Oracle: the same expression evaluated locally (lazy and eager twin).

Chunk modes: 'mixed' (expression / chain / iterator / async_iter / bounded iteration /
concurrent / shutdown cases drawn per index) and 'scen' (scenario cases that need a forced
overlap of server handlers, a server life cycle or a fast client clock: cached call under
concurrent clients, concurrent inserts into a full LazyFn cache, cached call with a
by-value pickled callable, restart, liveness of a healthy server; the last one and the
bounded iteration live in vlib/c14w3.py).
Mechanism keys of the scenario / input classes are only given when the case belongs to the
class AND the observed signature is the one of the root cause (see _expr_mechanism,
_exc_elem_mechanism, case_async_iter and the scen_* functions); everything else keeps a
generic '<class>:other' style key.
"""

from __future__ import annotations

import asyncio
import concurrent.futures as _cf
import itertools
import random
import threading
import time as _time

ID = 'C14'
LEVEL = 'exploration'
EXTRA_PATH = ('vlib/fakecourier',)
RULE = (
    'a case is one of: (expression tree of depth <= 4 over value-returning and raising callables, '
    'client call kind sync/async) | (remote-object chain of 3-10 attribute/index/call/mutation '
    'operations against a local twin) | (remote iterator / remote queue over a generator with '
    'length 0-7, batch mode, optional failure) | (2-4 concurrent client threads interleaving '
    'expression evaluations) | (shutdown requested, raising / non-raising evaluations) | '
    '(async_iter / async_remote_iter over a source that works, fails mid-stream, or fails while '
    'being constructed) | scenario: (2-4 concurrent clients requesting one cached call whose '
    'constructor is held until the callers overlap) | (2-3 concurrent inserts into a full, '
    'harness-reduced LazyFn cache, the eviction victim hash held until they overlap) | (cached call '
    'whose callable / argument is pickled by value, requested 2-4 times) | (start / stop / start / '
    'stop life cycles of a CourierServer with evaluations in between) | (a healthy server and a client '
    'whose clock runs 240-360x faster: 7-18 calls through an unpickled RemoteIteratorQueue / RemoteObject '
    'handle with or without a CourierClient instance held by the process, each call shorter than the '
    'heartbeat threshold and all together longer; or one evaluation of 0.3-0.6 / 1.15-1.45 thresholds). '
    'Iterator cases include bounded iteration dequeue_as_iterator(num_steps) / async_dequeue_as_iterator'
    '(num_steps) over a remote queue (0-12 elements, num_steps <, =, > elements, server-side buffer '
    'unbounded or 1-3, queue served from a local object or made by async_iter) against the same iteration '
    'over a local queue: elements, end signal, producer released or blocked. Values include exception '
    'INSTANCES (returned or yielded, never raised); RAISED exceptions include classes carrying attributes '
    '(code in {0..6, 4.0, "x", None} as constructor argument, instance attribute, class attribute or method; '
    'errno; args of several shapes) and stdlib exceptions with a code (xml ParseError / ExpatError of 9 '
    'malformed documents) or other attributes (JSONDecodeError, UnicodeDecodeError, CalledProcessError, OSError). '
    'Non-trivial = expression depth >= 2 or the expression raises or a lazy result / remote object / '
    'iterator is involved; distinct = hash of the case description')
ASSUMPTIONS = [
    'transport stand-in semantics (pickle round trip, concurrent handlers, handler exception -> status error, deadline -> code 4); client and server share one process, so cloudpickle ships the test callables by reference (except the lambdas / closures / functools.partial objects of the by-value scenario, which are the input class under test)',
    'attribute names that collide with RemoteObject/LazyObject fields (value, id, worker, result_, ...) are not forwarded by design and are not generated',
    'exceptions are compared by type and str(); notes added by the library are ignored',
    'values are compared after the pickle round trip by ==; exception instances occurring as values are compared by (type, str)',
    'scenario cases reach into the server process (same process): the LazyFn cache is cleared before / after, its maxsize is reduced by the harness for the eviction scenario and restored, the fire-and-forget thread pool of the server is wrapped to keep the futures it would drop',
    'overlap of server handlers is forced by user callables (constructor / __hash__) that wait on an event; the event is released when all callers arrived or 0.4 s after the first one (so a serialising implementation is never blocked); a verdict is only derived from counted evaluations / returned values, never from the expiry',
    'bounded iteration: the end state of the producer is read from counters after the consumer ended (released = its thread / pool task returned; blocked = the buffer is full, the queue is not stopped and the producer holds one element more than it has put), never from a waiting time; a producer left blocked is released by the harness (maybe_stop) at the end of the case',
    'liveness scenario: only the CLIENT side of the library sees the fast clock (courier_utils.time, courier_utils.asyncio.sleep and the deadlines of the transport stand-in are scaled; nothing on the server reads these: a CourierServer without `clients` never writes the worker registry, courier_server keeps its own clock); the server callables sleep in real time. Controls of the same scenario (client instance held / evaluation shorter than the threshold) run under the same dilation and must pass. A differing case is only judged when the transport log shows that every heartbeat of the case (plus one sent by the harness after the error) was answered within 20 client seconds (the probe deadline of the library is 30) and, for call sequences, every call within half the threshold; otherwise the case is inconclusive (machine too slow for the dilation)',
    'a queue is called dead (async_iter) from its state: the enqueue task finished with an exception while the queue recorded neither an exception nor an enqueuer nor exhaustion; no deadline is involved',
]
REQUIRED = ['expr_cases', 'expr_raising', 'async_cases', 'chain_ops', 'remote_objects',
            'iterator_cases', 'queue_cases', 'concurrent_cases', 'shutdown_cases', 'inflight_shutdown_cases',
            'transport_calls', 'exc_valued_results', 'exc_valued_streams', 'async_iter_cases',
            'async_iter_construction_failures', 'scen_cached_concurrent', 'scen_lru_race',
            'scen_ident_cached', 'scen_ident_control', 'scen_restart', 'restart_equivalence_checks',
            'expr_raising_with_code_attr', 'expr_raising_code_4',
            'bounded_iter_sync', 'bounded_iter_async', 'bounded_iter_bound_reached',
            'bounded_iter_server_queue_bounded',
            'liveness_judged_no_client_held', 'liveness_judged_long_eval', 'liveness_judged']
CHUNK_TIMEOUT_S = {'quick': 150, 'thorough': 1500}


def plan(tier, seed):
  n = 300 if tier == 'quick' else 4000
  chunks = 16 if tier == 'quick' else 48
  specs = [{'chunk': i, 'n': n, 'rseed': seed, 'mode': 'mixed'} for i in range(chunks)]
  n_scen, scen_chunks = (24, 8) if tier == 'quick' else (240, 16)
  specs += [{'chunk': 1000 + i, 'n': n_scen, 'rseed': seed, 'mode': 'scen'}
            for i in range(scen_chunks)]
  return specs


class _Exc(tuple):
  """('exc', type name, message) + the `code` attribute of the exception (never compared)."""
  code = None


def _outcome(fn):
  from vlib import c14lib
  try:
    return ('ok', c14lib.norm(fn()))
  except BaseException as e:  # pylint: disable=broad-exception-caught
    out = _Exc(('exc', type(e).__name__, str(e)))
    try:
      out.code = getattr(e, 'code', None)
    except Exception:  # pylint: disable=broad-exception-caught
      pass
    return out


def _is_excval(v):
  from vlib import c14lib
  return isinstance(v, c14lib.ExcVal)


_CODE4 = 'remote-exception-with-code-4-becomes-timeout'


def _carries_code_4(outcome):
  """Input class: the expression RAISES (locally) an exception whose attribute `code` == 4."""
  code = getattr(outcome, 'code', None)
  try:
    return outcome[0] == 'exc' and not callable(code) and bool(code == 4)
  except Exception:  # pylint: disable=broad-exception-caught
    return False


def _expr_mechanism(local, remote, default):
  """Input class 'the value IS an exception instance' + 'the client raised exactly it', or
  input class 'the raised exception carries code == 4' + 'the client raised its own TimeoutError'."""
  if (_carries_code_4(local) and remote[0] == 'exc' and remote[1] == 'TimeoutError'
      and remote[2].startswith('Try longer timeout on')):
    return _CODE4
  if local[0] == 'ok' and _is_excval(local[1]) and remote[0] == 'exc':
    ltype, lmsg = local[1]
    if remote[2] == lmsg and (remote[1] == ltype or
                              (ltype == 'StopIteration' and remote[1] == 'StopAsyncIteration')):
      return 'exception-valued-result-raised'
  return default


_KIND_OF = {'exception-valued-result-raised': 'exception_value_raised_by_client',
            _CODE4: 'raised_exception_replaced_by_timeout'}


class _RecPool:
  """Keeps the futures of the server's fire-and-forget submissions (it drops them)."""

  def __init__(self, real):
    self.real, self.futs = real, []

  def submit(self, fn, *a, **k):
    f = self.real.submit(fn, *a, **k)
    self.futs.append(f)
    return f


def _same(a, b):
  if a[0] != b[0]:
    return False
  if a[0] == 'exc':
    return a[1:] == b[1:]
  try:
    return bool(a[1] == b[1]) and type(a[1]) is type(b[1])
  except Exception:  # pylint: disable=broad-exception-caught
    return False


class Env:
  """One CourierServer + client per child."""

  def __init__(self):
    from vlib import cwork
    import courier
    cwork.setup(scale=1.0)
    from ml_metrics._src.chainables import lazy_fns
    from ml_metrics._src.utils import courier_utils
    self.courier = courier
    self.cwork = cwork
    self.lazy_fns = lazy_fns
    self.cu = courier_utils
    self.server = cwork.start_servers(1, 'c14srv', prefetch=True)[0]
    self.pool = _RecPool(self.server._thread_pool)  # pylint: disable=protected-access
    self.server._thread_pool = self.pool  # pylint: disable=protected-access
    self.probed = False
    self.client = courier_utils.CourierClient(self.server.address, call_timeout=30)
    self.client.wait_until_alive(deadline_secs=20)
    self.loop = asyncio.new_event_loop()
    self.loop_thread = threading.Thread(target=self.loop.run_forever, daemon=True)
    self.loop_thread.start()

  def run_async(self, coro, timeout=30):
    return asyncio.run_coroutine_threadsafe(coro, self.loop).result(timeout)

  def close(self):
    self.loop.call_soon_threadsafe(self.loop.stop)
    self.cwork.stop_servers([self.server])


def case_expr(ctx, env, rng, cid):
  from vlib import c14lib
  spec = c14lib.gen_expr(rng, rng.randint(1, 4))
  depth = c14lib.expr_depth(spec)
  eager = _outcome(lambda: c14lib.eval_eager(spec))
  local = _outcome(lambda: env.lazy_fns.maybe_make(c14lib.build_lazy(spec, env.lazy_fns)))
  use_async = rng.random() < 0.4
  lazy = c14lib.build_lazy(spec, env.lazy_fns)
  if not env.lazy_fns.types.is_resolvable(lazy) if hasattr(env.lazy_fns, 'types') else not hasattr(lazy, 'result_'):
    lazy = env.lazy_fns.trace(c14lib.add)(lazy, 0) if isinstance(lazy, int) else env.lazy_fns.trace(c14lib.mk_list)(lazy)
    spec = ['call', 'add', [spec, ['const', 0]], {}, False] if isinstance(spec[1], int) and spec[0] == 'const' else ['call', 'mk_list', [spec], {}, False]
    eager = _outcome(lambda: c14lib.eval_eager(spec))
    local = _outcome(lambda: env.lazy_fns.maybe_make(c14lib.build_lazy(spec, env.lazy_fns)))
  if use_async:
    remote = _outcome(lambda: env.run_async(env.client.async_get_result(lazy)))
    ctx.count('async_cases')
  else:
    remote = _outcome(lambda: env.client.get_result(lazy))
  ctx.count('expr_cases')
  if local[0] == 'exc':
    ctx.count('expr_raising')
    if getattr(local, 'code', None) is not None:
      ctx.count('expr_raising_with_code_attr')
    if _carries_code_4(local):
      ctx.count('expr_raising_code_4')
  if local[0] == 'ok' and _is_excval(local[1]):
    ctx.count('exc_valued_results')
  ctx.case(('expr', spec, use_async), depth >= 2 or local[0] == 'exc')
  case = {'kind': 'expr', 'cid': cid}
  if not _same(local, remote):
    mech = _expr_mechanism(local, remote, 'remote-eval-differs')
    ctx.violation(_KIND_OF.get(mech, 'remote_differs_from_local'), case,
                  {'spec': spec, 'local': repr(local), 'remote': repr(remote),
                   'async': use_async}, mechanism=mech)
  if cid % 50 == 11:
    # observation only: an exception class whose __init__ does not accept its own args
    lz = env.lazy_fns.trace(c14lib.boom_custom)('u%d' % (cid % 3), 3)
    lo = _outcome(lambda: env.lazy_fns.maybe_make(lz))
    ro = _outcome(lambda: env.client.get_result(lz))
    if not _same(lo, ro):
      ctx.observe('custom_init_exception_not_rebuilt', {'local': repr(lo), 'remote': repr(ro)})
  if not _same(eager, local):
    ctx.observe('lazy_differs_from_eager', {'spec': spec, 'eager': repr(eager),
                                             'lazy': repr(local)})
  if len(ctx.samples) < 2:
    ctx.sample({'expr': spec, 'local': repr(local), 'remote': repr(remote)})


def case_chain(ctx, env, rng, cid):
  from vlib import c14lib
  v = rng.randint(0, 5)
  elems = [rng.choice([1, 2, 'q', (3, 4)]) for _ in range(rng.randint(0, 4))]
  ro = env.client.get_result(
      env.lazy_fns.trace(c14lib.Box)(v, tuple(elems), lazy_result_=True))
  twin = c14lib.Box(v, tuple(elems))
  case = {'kind': 'chain', 'cid': cid}
  ctx.count('remote_objects')
  if not isinstance(ro, env.cu.RemoteObject):
    ctx.violation('lazy_result_travelled', case, {'got': repr(type(ro))},
                  mechanism='lazy-result-not-a-reference')
    return
  ops = []
  for _ in range(rng.randint(3, 10)):
    op = rng.choice(['times', 'bump', 'push', 'item', 'attr', 'call', 'child_attr',
                     'fail', 'iter', 'missing_attr', 'async_times', 'compare'])
    k = rng.randint(0, 3)
    if op == 'times':
      r = _outcome(lambda: ro.times(k).result_()); w = _outcome(lambda: twin.times(k))
    elif op == 'async_times':
      r = _outcome(lambda: env.run_async(ro.times(k).async_result_())); w = _outcome(lambda: twin.times(k))
    elif op == 'bump':
      r = _outcome(lambda: ro.bump(k).result_()); w = _outcome(lambda: twin.bump(k))
    elif op == 'push':
      r = _outcome(lambda: ro.push(k).result_()); w = _outcome(lambda: twin.push(k))
    elif op == 'item':
      i = rng.choice([0, 1, -1, 7])
      r = _outcome(lambda: ro[i].result_()); w = _outcome(lambda: twin[i])
    elif op == 'attr':
      a = rng.choice(['val', 'elems', 'hist'])
      r = _outcome(lambda: getattr(ro, a).result_()); w = _outcome(lambda: getattr(twin, a))
    elif op == 'missing_attr':
      r = _outcome(lambda: ro.nothing_here.result_()); w = _outcome(lambda: twin.nothing_here)
    elif op == 'call':
      r = _outcome(lambda: ro(k).result_()); w = _outcome(lambda: twin(k))
    elif op == 'child_attr':
      r = _outcome(lambda: ro.child(k).val.result_()); w = _outcome(lambda: twin.child(k).val)
    elif op == 'compare':
      # A handle compared with a value that is not a handle: never equal, never an
      # error (like a local LazyObject handle); equal to itself.
      other = rng.choice([5, None, 'x', (1, 2)])
      r = _outcome(lambda: (ro == other, ro != other, ro in [1, other], ro == ro,
                            [1, ro].index(ro)))
      w = ('ok', (False, True, False, True, 1))
    elif op == 'fail':
      r = _outcome(lambda: ro.fail('no %d' % k).result_()); w = _outcome(lambda: twin.fail('no %d' % k))
    else:  # iter
      r = _outcome(lambda: list(itertools.islice(iter(ro.elems), 50))); w = _outcome(lambda: list(iter(twin.elems)))
    ops.append(op)
    ctx.count('chain_ops')
    if not _same(r, w):
      ctx.violation('chain_differs', case,
                    {'ops': ops, 'remote': repr(r), 'twin': repr(w)},
                    mechanism=f'remote-object-chain:{op}')
      break
  # the object stayed on the server: final remote state equals the twin
  final = _outcome(lambda: ro.result_())
  if not _same(final, ('ok', twin)):
    ctx.violation('remote_state_differs', case,
                  {'ops': ops, 'remote': repr(final), 'twin': repr(twin)},
                  mechanism='remote-object-state')
  ctx.case(('chain', v, elems, ops), True)


def _gen_elems(rng):
  """0-7 element specs; about 2/3 of the streams contain exception INSTANCES as elements."""
  n = rng.randint(0, 7)
  with_exc = rng.random() < 0.67
  out = []
  for i in range(n):
    if with_exc and rng.random() < 0.35:
      out.append(['exc', rng.choice(['value', 'key', 'app', 'stop', 'runtime', 'stop']),
                  rng.choice(['bad', 'k', 'x y'])])
    else:
      out.append(i)
  return out


def _exc_elem_mechanism(want, got, end):
  """Stream has exception-valued elements and the remote side stopped exactly at the first one."""
  j = next((i for i, w in enumerate(want) if _is_excval(w)), None)
  if j is None or got != want[:j]:
    return None
  wtype, wmsg = want[j]
  if end[0] == 'exc' and end[1] == wtype and end[2] == wmsg:
    return 'exception-valued-iterator-element'
  if wtype == 'StopIteration' and end[0] == 'stop':
    return 'exception-valued-iterator-element'
  return None


def case_iterators(ctx, env, rng, cid):
  from vlib import c14lib
  from ml_metrics._src.utils import iter_utils
  n = rng.randint(0, 7)
  fail_at = rng.choice([None, None, rng.randint(0, max(n, 1))])
  case = {'kind': 'iter', 'cid': cid}
  kind = rng.choice(['remote_iterator', 'remote_iterator_async', 'queue_get',
                     'queue_get_batch', 'queue_async', 'object_iter',
                     'async_iter', 'async_iter', 'bounded_iter', 'bounded_iter'])
  if kind == 'async_iter':
    return case_async_iter(ctx, env, rng, cid, n, fail_at)
  if kind == 'bounded_iter':
    from vlib import c14w3
    return c14w3.case_bounded_iter(ctx, env, rng, cid)
  elems = _gen_elems(rng) if rng.random() < 0.3 else None
  if elems is not None:
    fail_at = None
    n = len(elems)

  def drain_sync(nxt):
    out = []
    for _ in range(n + 3):
      try:
        v = c14lib.norm(nxt())
      except StopIteration as e:
        return out, ('stop', tuple(e.args))
      except Exception as e:  # pylint: disable=broad-exception-caught
        return out, ('exc', type(e).__name__, str(e))
      out.extend(v) if isinstance(v, list) else out.append(v)
    return out, ('no_end',)

  def source():
    if elems is not None:
      return c14lib.elem_gen(elems, 'ret')
    return c14lib.counting_gen(n, 'ret', fail_at)

  want = []
  want_end = None
  try:
    g = source()
    while True:
      want.append(c14lib.norm(next(g)))
  except StopIteration as e:
    want_end = ('stop', ('ret',) if e.value is not None else ())
  except (c14lib.AppError, TimeoutError) as e:
    want_end = ('exc', type(e).__name__, str(e))
  has_exc_elems = any(_is_excval(w) for w in want)
  if has_exc_elems:
    ctx.count('exc_valued_streams')

  def mech_for(default, got, end):
    return _exc_elem_mechanism(want, got, end) or default

  if kind in ('remote_iterator', 'remote_iterator_async', 'object_iter'):
    ctx.count('iterator_cases')
    if elems is not None:
      lazy_gen = env.lazy_fns.trace(c14lib.elem_gen)(elems, 'ret')
    else:
      lazy_gen = env.lazy_fns.trace(c14lib.counting_gen)(n, 'ret', fail_at)
    if kind == 'object_iter':
      items = c14lib.elem_list(elems) if elems is not None else list(range(n))
      ro = env.client.get_result(env.lazy_fns.trace(c14lib.mk_list)(*items, lazy_result_=True))
      got, end = drain_sync(iter(ro).__next__)
      want, want_end = c14lib.norm(items), ('stop', ())
    else:
      it = env.cu.RemoteIterator.new(lazy_gen, server_addr=env.client)
      if kind == 'remote_iterator':
        got, end = drain_sync(it.__next__)
      else:
        async def drain():
          out = []
          try:
            async for x in it:
              out.append(c14lib.norm(x))
              if len(out) > n + 5:
                return out, ('no_end',)
          except Exception as e:  # pylint: disable=broad-exception-caught
            return out, ('exc', type(e).__name__, str(e))
          return out, ('stop', None)
        got, end = env.run_async(drain())
    # StopIteration of a plain remote iterator carries the generator return value
    ok_end = (end[0] == want_end[0]) and (end[0] != 'exc' or end[1:] == want_end[1:])
    if got != want or not ok_end:
      mech = mech_for(f'remote-iterator:{kind}', got, end)
      ctx.violation('exception_element_not_yielded' if mech == 'exception-valued-iterator-element'
                    else 'remote_iterator_differs', case,
                    {'kind': kind, 'n': n, 'fail_at': fail_at, 'elems': elems, 'got': repr(got),
                     'end': repr(end), 'want': repr(want), 'want_end': repr(want_end)},
                    mechanism=mech)
    # exhaustion is stable: a further next() keeps signalling the end
    elif kind == 'remote_iterator' and end[0] == 'stop':
      again = _outcome(it.__next__)
      if again[0] != 'exc' or again[1] != 'StopIteration':
        ctx.violation('exhaustion_not_stable', case, {'again': repr(again)},
                      mechanism='remote-iterator:exhaustion')
  else:
    ctx.count('queue_cases')
    q = iter_utils.IteratorQueue(rng.choice([0, 1, 2]), name=f'c14q{cid}')
    t = threading.Thread(target=lambda: _swallow(q.enqueue_from_iterator, source()), daemon=True)
    t.start()
    rq = env.cu.RemoteIteratorQueue.new(q, server_addr=env.client, name=f'rq{cid}')
    if kind == 'queue_get':
      got, end = drain_sync(rq.get)
    elif kind == 'queue_get_batch':
      got, end = drain_sync(rq.get_batch)
    else:
      async def drain_q():
        out = []
        try:
          async for x in rq:
            out.append(c14lib.norm(x))
            if len(out) > n + 5:
              return out, ('no_end',)
        except Exception as e:  # pylint: disable=broad-exception-caught
          return out, ('exc', type(e).__name__, str(e))
        return out, ('stop', None)
      got, end = env.run_async(drain_q())
    ok_end = (end[0] == want_end[0]) and (end[0] != 'exc' or end[1:] == want_end[1:])
    if want_end[0] == 'stop' and end[0] == 'stop' and end[1] is not None and kind != 'queue_async':
      ok_end = ok_end and tuple(end[1]) == want_end[1]
    # on failure the queue may drop still-queued elements (C05), but never reorder/duplicate
    elems_ok = got == want if want_end[0] == 'stop' else got == want[:len(got)]
    if not elems_ok or not ok_end:
      mech = mech_for(f'remote-queue:{kind}', got, end)
      q.maybe_stop()   # the producer may still be parked on the bounded buffer
      ctx.violation('exception_element_not_yielded' if mech == 'exception-valued-iterator-element'
                    else 'remote_queue_differs', case,
                    {'kind': kind, 'n': n, 'fail_at': fail_at, 'elems': elems, 'got': repr(got),
                     'end': repr(end), 'want': repr(want), 'want_end': repr(want_end)},
                    mechanism=mech)
    t.join(5)
  ctx.case(('iter', kind, n, fail_at, elems), True)


def case_async_iter(ctx, env, rng, cid, n, fail_at):
  """CourierClient.async_iter / async_remote_iter against list(maybe_make(expr))."""
  from vlib import c14lib
  tr = env.lazy_fns.trace
  src = rng.choice(['ok', 'ok', 'ok', 'ctor_raises', 'ctor_raises', 'arg_raises',
                    'not_iterable', 'iter_raises'])
  buffer_size = rng.choice([0, 1, 2])
  entry = rng.choice(['client.async_iter', 'async_remote_iter'])
  if src == 'ok':
    lazy = tr(c14lib.counting_gen)(n, 'ret', fail_at)
  elif src == 'ctor_raises':
    lazy = tr(c14lib.open_source)(rng.choice(['notfound', 'app', 'key', 'value']),
                                  rng.choice(['no such dataset', 'shard 3']))
  elif src == 'arg_raises':
    lazy = tr(c14lib.counting_gen)(tr(c14lib.boom)(rng.choice(['value', 'app', 'zero']), 'bad arg'))
  elif src == 'not_iterable':
    lazy = tr(c14lib.add)(1, rng.randint(0, 3))
  else:
    lazy = tr(c14lib.BadIterable)('cannot iterate')
  case = {'kind': 'async_iter', 'cid': cid}
  desc = {'src': src, 'n': n, 'fail_at': fail_at, 'buffer_size': buffer_size, 'entry': entry,
          'expr': str(lazy)[:120]}
  ctx.count('async_iter_cases')
  ctx.case(('async_iter', src, n, fail_at, buffer_size, entry), True)

  # local twin: list(maybe_make(expr))
  want, want_end = [], None
  try:
    it = iter(env.lazy_fns.maybe_make(lazy))
    while True:
      want.append(c14lib.norm(next(it)))
  except StopIteration:
    want_end = ('stop', None)
  except Exception as e:  # pylint: disable=broad-exception-caught
    want_end = ('exc', type(e).__name__, str(e))
  construction_fails = want_end[0] == 'exc' and src != 'ok'
  if construction_fails:
    ctx.count('async_iter_construction_failures')

  n0 = len(env.pool.futs)

  async def open_():
    if entry == 'client.async_iter':
      return await env.client.async_iter(lazy, buffer_size=buffer_size, name=f'ai{cid}')
    return await env.cu.async_remote_iter(lazy, worker=env.client, buffer_size=buffer_size,
                                          name=f'ai{cid}')

  try:
    rq = env.run_async(open_())
  except _cf.TimeoutError:
    ctx.inconclusive_case('async_iter did not return in 30s', case)
    return
  except Exception as e:  # pylint: disable=broad-exception-caught
    # Reporting the construction error from async_iter itself is just as good.
    got, end = [], ('exc', type(e).__name__, str(e))
    if end != want_end:
      ctx.violation('async_iter_differs', case, dict(desc, got=repr(got), end=repr(end),
                                                     want=repr(want), want_end=repr(want_end)),
                    mechanism='async-iter:open-raised')
    return
  # The enqueue task was fired without waiting: wait until it has started or finished.
  q = env.lazy_fns.maybe_make(rq._queue.value)  # pylint: disable=protected-access
  deadline = _time.monotonic() + 20
  fut = None
  while True:
    fut = env.pool.futs[n0] if len(env.pool.futs) > n0 else None
    if fut is not None and fut.done():
      break
    if q.enqueue_done or q.exhausted or q.progress.cnt > 0 or getattr(q, '_max_enqueuer', 0) > 0:
      break
    if _time.monotonic() > deadline:
      ctx.inconclusive_case('the enqueue task of async_iter did not start in 20s', case)
      return
    _time.sleep(0.0005)
  swallowed = fut.exception() if fut is not None and fut.done() else None
  dead = (swallowed is not None and q.exception is None and not q.exhausted
          and not q.enqueue_done and getattr(q, '_enqueue_start', 0) == getattr(q, '_enqueue_stop', 0))
  if dead:
    sw = ('exc', type(swallowed).__name__, str(swallowed))
    detail = dict(desc, swallowed_on_server=repr(sw), want_end=repr(want_end),
                  queue_state={'exception': None, 'exhausted': False, 'enqueue_done': False,
                               'enqueuers': 0},
                  consequence='no consumer call can ever return: nothing records the error, '
                              'no enqueuer exists that could end the stream')
    if not env.probed:
      # Show once per chunk what a client sees (a 0.4s deadline is used only for this detail).
      env.probed = True
      probe_client = env.cu.CourierClient(env.server.address, call_timeout=0.4)
      probe = env.cu.RemoteIteratorQueue(
          env.cu.RemoteObject.new(rq._queue.value, worker=probe_client), name='probe')  # pylint: disable=protected-access
      detail['client_with_0.4s_deadline_sees'] = repr(_outcome(probe.get_batch))
    q.maybe_stop()   # releases any handler parked in the dead queue
    mech = ('async-iter-construction-error-swallowed'
            if construction_fails and sw == want_end else 'async-iter:dead-queue')
    ctx.violation('async_iter_error_lost', case, detail, mechanism=mech)
    return

  async def drain():
    out = []
    try:
      async for x in rq:
        out.append(c14lib.norm(x))
        if len(out) > n + 5:
          return out, ('no_end',)
    except Exception as e:  # pylint: disable=broad-exception-caught
      return out, ('exc', type(e).__name__, str(e))
    return out, ('stop', None)

  try:
    got, end = env.run_async(drain())
  except _cf.TimeoutError:
    q.maybe_stop()
    ctx.inconclusive_case('async iteration did not finish in 30s', case)
    return
  elems_ok = got == want if want_end[0] == 'stop' else got == want[:len(got)]
  if not elems_ok or end != want_end:
    ctx.violation('async_iter_differs', case, dict(desc, got=repr(got), end=repr(end),
                                                   want=repr(want), want_end=repr(want_end)),
                  mechanism=f'async-iter:{src}')


def _swallow(fn, *a):
  try:
    fn(*a)
  except Exception:  # pylint: disable=broad-exception-caught
    pass


def case_concurrent(ctx, env, rng, cid):
  from vlib import c14lib
  k = rng.randint(2, 4)
  specs = [[c14lib.gen_expr(rng, rng.randint(1, 3)) for _ in range(rng.randint(2, 5))]
           for _ in range(k)]
  results = [None] * k

  def worker(i):
    out = []
    for spec in specs[i]:
      lazy = c14lib.build_lazy(spec, env.lazy_fns)
      if not hasattr(lazy, 'result_'):
        lazy = env.lazy_fns.trace(c14lib.mk_list)(lazy)
        spec = ['call', 'mk_list', [spec], {}, False]
      out.append((spec, _outcome(lambda: env.client.get_result(lazy))))
    results[i] = out

  ths = [threading.Thread(target=worker, args=(i,), daemon=True) for i in range(k)]
  for t in ths:
    t.start()
  for t in ths:
    t.join(60)
  ctx.count('concurrent_cases')
  case = {'kind': 'concurrent', 'cid': cid}
  if any(t.is_alive() for t in ths):
    ctx.inconclusive_case('concurrent clients did not finish in 60s', case)
    return
  for out in results:
    for spec, remote in out:
      local = _outcome(lambda: c14lib.eval_eager(spec))
      if not _same(local, remote):
        mech = _expr_mechanism(local, remote, 'remote-eval-differs-concurrent')
        ctx.violation(_KIND_OF.get(mech, 'concurrent_remote_differs'), case,
                      {'spec': spec, 'local': repr(local), 'remote': repr(remote)},
                      mechanism=mech)
  ctx.case(('concurrent', specs), True)


def case_shutdown(ctx, env, rng, cid):
  """A server with shutdown requested (still reachable) answers failing
  evaluations with a retriable TimeoutError and never a wrong value."""
  from vlib import c14lib
  from ml_metrics._src.chainables import courier_server
  name = env.cwork.unique('c14down')
  srv = courier_server.PrefetchedCourierServer(name)
  srv.build_server().Start()           # reachable, but without the run loop
  client = env.cu.CourierClient(name, call_timeout=10)
  case = {'kind': 'shutdown', 'cid': cid}
  try:
    client.wait_until_alive(deadline_secs=10)
    ok_before = _outcome(lambda: client.get_result(env.lazy_fns.trace(c14lib.add)(2, 3)))
    # Two calls are already running on the server when the shutdown is requested:
    # one fails afterwards (must come back as the retriable TimeoutError), one
    # succeeds afterwards (must come back with its value or the TimeoutError).
    inflight = {}
    keys = {'boom': f'k{cid}b', 'val': f'k{cid}v'}
    for k in keys.values():
      c14lib.EVENTS[k] = (threading.Event(), threading.Event())
    t_boom = threading.Thread(target=lambda: inflight.__setitem__('boom', _outcome(
        lambda: client.get_result(env.lazy_fns.trace(c14lib.wait_then_boom)(keys['boom'], 'late')))), daemon=True)
    t_val = threading.Thread(target=lambda: inflight.__setitem__('val', _outcome(
        lambda: client.get_result(env.lazy_fns.trace(c14lib.wait_then_value)(keys['val'], 41)))), daemon=True)
    t_boom.start(); t_val.start()
    entered = all(c14lib.EVENTS[k][0].wait(10) for k in keys.values())
    srv._request_shutdown()  # pylint: disable=protected-access
    for k in keys.values():
      c14lib.EVENTS[k][1].set()
    t_boom.join(30); t_val.join(30)
    if entered and not t_boom.is_alive() and not t_val.is_alive():
      ctx.count('inflight_shutdown_cases')
      b, v = inflight.get('boom'), inflight.get('val')
      if not (b and b[0] == 'exc' and b[1] == 'TimeoutError'):
        ctx.violation('inflight_failure_not_timeout', case, {'got': repr(b)},
                      mechanism='shutdown-inflight-error-not-retriable')
      if not (v and (v == ('ok', 41) or (v[0] == 'exc' and v[1] == 'TimeoutError'))):
        ctx.violation('inflight_value_wrong', case, {'got': repr(v)},
                      mechanism='shutdown-inflight-wrong-value')
    else:
      ctx.inconclusive_case('in-flight shutdown calls did not finish', case)
    finished, res, exc = env.cwork.run_with_watchdog(
        lambda: (_outcome(lambda: client.get_result(env.lazy_fns.trace(c14lib.boom)('value', 'x'))),
                 _outcome(lambda: client.get_result(env.lazy_fns.trace(c14lib.add)(2, 5))),
                 _outcome(lambda: env.courier.Client(name, call_timeout=5).init_generator(
                     env.lazy_fns.pickler.dumps(env.lazy_fns.trace(c14lib.counting_gen)(3))))),
        30)
    ctx.count('shutdown_cases')
    if not finished:
      ctx.violation('call_hangs_on_shutting_down_server', case, None,
                    mechanism='shutdown-call-hangs')
      return
    failing, value, init = res
    if ok_before != ('ok', 5):
      ctx.violation('wrong_value_before_shutdown', case, {'got': repr(ok_before)})
    if not (failing[0] == 'exc' and failing[1] == 'TimeoutError'):
      ctx.violation('failing_eval_not_timeout', case, {'got': repr(failing)},
                    mechanism='shutdown-error-not-retriable')
    if value[0] == 'ok' and value[1] != 7:
      ctx.violation('wrong_value_on_shutdown', case, {'got': repr(value)},
                    mechanism='shutdown-wrong-value')
    if not (init[0] == 'ok' and _is_excval(init[1]) and init[1][0] == 'TimeoutError'):
      ctx.violation('init_generator_not_refused', case, {'got': repr(init)},
                    mechanism='shutdown-init-not-refused')
    ctx.case(('shutdown', cid % 3), True)
  finally:
    try:
      srv._server.Stop()  # pylint: disable=protected-access
    except Exception:  # pylint: disable=broad-exception-caught
      pass


# ---------------------------------------------------------------------------
# Scenario cases (mode 'scen')
# ---------------------------------------------------------------------------

_GRACE_S = 0.4


def _fn_lru(lazy_fns):
  return lazy_fns.LazyFn.result_.cache_info.__self__


def _release_when_overlapping(gate, want, threads):
  """Opens the gate when `want` callers are inside, or _GRACE_S after the first one
  (a serialising implementation lets only one in), or when nobody can arrive any more."""
  t_first = None
  hard = _time.monotonic() + 25
  while True:
    e = gate['entered']
    now = _time.monotonic()
    if e >= want or now > hard or not any(t.is_alive() for t in threads):
      break
    if e >= 1:
      t_first = t_first or now
      if now - t_first > _GRACE_S:
        break
    _time.sleep(0.0005)
  overlap = gate['entered']
  gate['go'].set()
  return overlap


def _clients(env, k, distinct):
  out = []
  for i in range(k):
    c = env.cu.CourierClient(env.server.address, call_timeout=30 + (i + 1 if distinct else 0))
    c.wait_until_alive(deadline_secs=20)
    out.append(c)
  return out


def scen_cached_concurrent(ctx, env, rng, cid):
  """k clients request `cached_model.bump()` at the same time; eager twin: ONE model, k bumps."""
  from vlib import c14lib
  tr = env.lazy_fns.trace
  key = f'g{cid}'
  k = rng.randint(2, 4)
  flavour = rng.choice(['class', 'loader'])
  form = rng.choice(['chain', 'nested', 'chain_async'])
  distinct = rng.random() < 0.5
  start = rng.randint(0, 2)
  gate = c14lib.new_gate(key)
  callee = c14lib.GatedModel if flavour == 'class' else c14lib.gated_load
  lazy_model = tr(callee)(key, start, cache_result_=True)

  def expr():
    e = lazy_model.bump(1)
    return tr(c14lib.add)(e, 0) if form == 'nested' else e

  case = {'kind': 'cached_concurrent', 'cid': cid, 'mode': 'scen'}
  desc = {'clients': k, 'distinct_client_objects': distinct, 'callee': flavour, 'form': form,
          'start': start}
  ctx.count('scen_cached_concurrent')
  ctx.case(('cached_concurrent', k, flavour, form, distinct, start), True)
  clients = _clients(env, k, distinct)
  env.lazy_fns.clear_cache()
  results = [None] * k

  def worker(i):
    if form == 'chain_async':
      results[i] = _outcome(lambda: env.run_async(clients[i].async_get_result(expr())))
    else:
      results[i] = _outcome(lambda: clients[i].get_result(expr()))

  ths = [threading.Thread(target=worker, args=(i,), daemon=True) for i in range(k)]
  try:
    for t in ths:
      t.start()
    overlap = _release_when_overlapping(gate, k, ths)
    for t in ths:
      t.join(40)
    gate['armed'] = False
    if any(t.is_alive() for t in ths):
      ctx.inconclusive_case('concurrent cached calls did not finish in 40s', case)
      return
    final = _outcome(lambda: env.client.get_result(expr()))
    constructed = c14lib.CONSTRUCTED[key]
    info = env.lazy_fns.cache_info()
  finally:
    gate['armed'] = False
    gate['go'].set()
    env.lazy_fns.clear_cache()
  if overlap >= 2:
    ctx.count('scen_overlap_forced')
  want = [('ok', start + j) for j in range(1, k + 1)]
  got_sorted = sorted(results, key=repr)
  ok = constructed == 1 and got_sorted == sorted(want, key=repr) and final == ('ok', start + k + 1)
  if not ok:
    per_caller = constructed > 1 and overlap >= 2
    ctx.violation('cached_call_evaluated_more_than_once' if per_caller
                  else 'concurrent_cached_call_differs', case,
                  dict(desc, constructed=constructed, callers_inside_constructor_at_once=overlap,
                       results=repr(results), next_call=repr(final),
                       want_results=repr(want), want_next=repr(('ok', start + k + 1)),
                       cache_info=repr(info)),
                  mechanism='cached-call-evaluated-per-concurrent-caller' if per_caller
                  else 'concurrent-cached-call:other')


def scen_lru_race(ctx, env, rng, cid):
  """2-3 clients insert distinct cached calls into a FULL cache at the same time."""
  from vlib import c14lib
  tr = env.lazy_fns.trace
  key = f'h{cid}'
  bound = rng.randint(1, 5)
  k = rng.randint(2, 3)
  distinct = rng.random() < 0.5
  lru = _fn_lru(env.lazy_fns)
  saved = lru.maxsize
  gate = c14lib.new_gate(key, victim=0)
  gate['armed'] = False
  case = {'kind': 'lru_race', 'cid': cid, 'mode': 'scen'}
  desc = {'cache_bound': bound, 'clients': k, 'distinct_client_objects': distinct}
  ctx.count('scen_lru_race')
  ctx.case(('lru_race', bound, k, distinct), True)
  clients = _clients(env, k, distinct)
  mk = lambda n: tr(c14lib.build_cfg)(c14lib.HashGate(n, key), cache_result_=True)
  env.lazy_fns.clear_cache()
  lru.maxsize = bound
  results = [None] * k
  try:
    fill = [_outcome(lambda i=i: env.client.get_result(mk(i))) for i in range(bound)]
    if fill != [('ok', ('built', i, 0)) for i in range(bound)]:
      ctx.violation('remote_differs_from_local', case, dict(desc, fill=repr(fill)),
                    mechanism='lru-race:fill')
      return
    gate['armed'] = True     # from now on hashing the oldest entry (the eviction victim) waits

    def worker(i):
      results[i] = _outcome(lambda: clients[i].get_result(mk(1000 + i)))

    ths = [threading.Thread(target=worker, args=(i,), daemon=True) for i in range(k)]
    for t in ths:
      t.start()
    overlap = _release_when_overlapping(gate, 2, ths)
    for t in ths:
      t.join(40)
    gate['armed'] = False
    if any(t.is_alive() for t in ths):
      ctx.inconclusive_case('concurrent inserts did not finish in 40s', case)
      return
    after = _outcome(lambda: env.client.get_result(mk(2000)))
    state = {'len_data': len(lru.data), 'currsize': lru.currsize, 'maxsize': lru.maxsize}
  finally:
    gate['armed'] = False
    gate['go'].set()
    lru.maxsize = saved
    env.lazy_fns.clear_cache()
  if overlap >= 2:
    ctx.count('scen_overlap_forced')
  want = [('ok', ('built', 1000 + i, 0)) for i in range(k)]
  bad = [r for r in results if r[0] != 'ok']
  inv_ok = state['len_data'] == state['currsize'] <= state['maxsize']
  if results != want or after != ('ok', ('built', 2000, 0)) or not inv_ok:
    keyerr = (overlap >= 2 and bad and all(
        r[1] == 'KeyError' and 'HashGate(0)' in r[2] for r in bad))
    if keyerr:
      kind, mech = 'valid_cached_call_raised_keyerror', 'lru-eviction-race-keyerror'
    elif not bad and after[0] == 'ok' and not inv_ok:
      kind, mech = 'lru_bound_or_size_wrong', 'lru-concurrent-insert:invariant'
    else:
      kind, mech = 'concurrent_insert_differs', 'lru-concurrent-insert:other'
    ctx.violation(kind, case,
                  dict(desc, inserters_evicting_the_same_victim=overlap,
                       results=[r[:2] + (r[2][:160],) if r[0] == 'exc' else r for r in results],
                       want=repr(want), next_insert=repr(after)[:200], cache_after=state),
                  mechanism=mech)


def scen_ident_cached(ctx, env, rng, cid):
  """One cached LazyFn whose callable / argument is pickled by value, requested 2-4 times."""
  from vlib import c14lib
  tr, lf = env.lazy_fns.trace, env.lazy_fns
  flavour = rng.choice(['lambda', 'closure', 'partial', 'cfg_arg', 'cfg_kwarg', 'importable'])
  start = rng.randint(0, 3)
  reps = rng.randint(2, 4)
  use_async = rng.random() < 0.3
  if flavour in ('lambda', 'closure', 'partial'):
    lazy_model = tr(c14lib.byvalue_loader(flavour, start))(cache_result_=True)
  elif flavour == 'cfg_arg':
    lazy_model = tr(c14lib.load_with_cfg)(c14lib.PlainCfg(start), cache_result_=True)
  elif flavour == 'cfg_kwarg':
    lazy_model = tr(c14lib.load_with_cfg)(cfg=c14lib.PlainCfg(start), cache_result_=True)
  else:
    lazy_model = tr(c14lib.Counter)(start, cache_result_=True)
  case = {'kind': 'ident_cached', 'cid': cid, 'mode': 'scen'}
  desc = {'flavour': flavour, 'start': start, 'requests': reps, 'async': use_async}
  ctx.count('scen_ident_control' if flavour == 'importable' else 'scen_ident_cached')
  ctx.case(('ident_cached', flavour, start, reps, use_async), True)
  try:
    lf.clear_cache()
    local = [_outcome(lambda: lf.maybe_make(lazy_model.bump(1))) for _ in range(reps)]
    lf.clear_cache()
    if use_async:
      remote = [_outcome(lambda: env.run_async(env.client.async_get_result(lazy_model.bump(1))))
                for _ in range(reps)]
    else:
      remote = [_outcome(lambda: env.client.get_result(lazy_model.bump(1))) for _ in range(reps)]
    info = lf.cache_info()
  finally:
    lf.clear_cache()
  if remote != local:
    a = lf.pickler.loads(lf.pickler.dumps(lazy_model))
    b = lf.pickler.loads(lf.pickler.dumps(lazy_model))
    eq_but_hash_differs = bool(a == b) and hash(a) != hash(b)
    reevaluated = all(r == ('ok', start + 1) for r in remote) and info.misses == reps
    root = flavour != 'importable' and eq_but_hash_differs and reevaluated
    ctx.violation('cached_call_reevaluated_per_request' if root else 'ident_cached_differs', case,
                  dict(desc, local=repr(local), remote=repr(remote), server_cache=repr(info),
                       two_unpickled_copies={'eq': bool(a == b), 'same_id': a.id == b.id,
                                             'hash_eq': hash(a) == hash(b)}),
                  mechanism='cached-lazyfn-identity-hash-reevaluated-after-pickle' if root
                  else 'ident-cached:other')


def scen_restart(ctx, env, rng, cid):
  """start; (stop; start) x cycles; stop - with evaluations while the server runs."""
  from vlib import c14lib
  from ml_metrics._src.chainables import courier_server
  tr = env.lazy_fns.trace
  prefetch = rng.random() < 0.5
  cycles = rng.randint(1, 2)
  cls = courier_server.PrefetchedCourierServer if prefetch else courier_server.CourierServer
  name = env.cwork.unique('c14rs')
  case = {'kind': 'restart', 'cid': cid, 'mode': 'scen'}
  desc = {'server': cls.__name__, 'restarts': cycles}
  ctx.count('scen_restart')
  ctx.case(('restart', prefetch, cycles, cid % 4), True)
  srv = cls(name)
  client = env.cu.CourierClient(name, call_timeout=10)
  a, b = rng.randint(0, 5), rng.randint(0, 5)
  nn = rng.randint(0, 4)

  def equivalence(where):
    """Evaluations on the running server behave like local ones."""
    probes = [
        ('value', lambda: client.get_result(tr(c14lib.add)(a, b)), ('ok', a + b)),
        ('raising', lambda: client.get_result(tr(c14lib.boom)('value', 'x y')),
         ('exc', 'ValueError', 'x y')),
        ('iterator', lambda: list(env.cu.RemoteIterator.new(range(nn), server_addr=client)),
         ('ok', list(range(nn)))),
    ]
    for what, fn, want in probes:
      ctx.count('restart_equivalence_checks')
      got = _outcome(fn)
      if got != want:
        return {'where': where, 'probe': what, 'got': repr(got), 'want': repr(want)}
    return None

  def join(th):
    th.join(20)
    return not th.is_alive()

  try:
    th = srv.start()
    client.wait_until_alive(deadline_secs=10)
    diff = equivalence('first run')
    if diff:
      ctx.violation('remote_differs_from_local', case, dict(desc, **diff),
                    mechanism='restart:first-run-differs')
      return
    for c in range(cycles + 1):
      th = srv.stop()
      if not join(th):
        ctx.inconclusive_case('server thread did not finish 20s after stop()', case)
        return
      if srv.has_started:
        # stop().join() returned but the server is still up (and flagged as shutting down).
        supervisor = bool(c and sup_alive)
        zombie = {
            'value_call': repr(_outcome(lambda: client.get_result(tr(c14lib.add)(2, 5)))),
            'raising_call (locally ValueError: x y)': repr(_outcome(
                lambda: client.get_result(tr(c14lib.boom)('value', 'x y')))),
            'list(RemoteIterator(range(2)))': repr(_outcome(
                lambda: list(env.cu.RemoteIterator.new(range(2), server_addr=client)))),
        }
        lost = c > 0 and not supervisor
        ctx.violation('restarted_server_cannot_be_stopped' if lost else 'server_not_stopped', case,
                      dict(desc, stop_number=c + 1, has_started_after_stop_join=True,
                           supervising_thread_alive_after_restart=supervisor,
                           answers_after_stop=zombie),
                      mechanism='server-restart-loses-supervisor' if lost
                      else 'server-stop-incomplete')
        return
      if c == cycles:
        break
      th2 = srv.start()
      sup_alive = th2.is_alive()
      client.wait_until_alive(deadline_secs=10)
      diff = equivalence(f'after restart {c + 1}')
      if diff:
        ctx.violation('remote_differs_from_local', case,
                      dict(desc, supervising_thread_alive_after_restart=sup_alive, **diff),
                      mechanism='server-restart-loses-supervisor' if not sup_alive
                      else 'restart:remote-eval-differs')
        return
  finally:
    try:
      srv._request_shutdown()  # pylint: disable=protected-access
      if srv._server is not None:  # pylint: disable=protected-access
        srv._server.Stop()  # pylint: disable=protected-access
    except Exception:  # pylint: disable=broad-exception-caught
      pass


def scen_liveness(ctx, env, rng, cid):
  from vlib import c14w3
  return c14w3.scen_liveness(ctx, env, rng, cid)


_SCENARIOS = [scen_cached_concurrent, scen_lru_race, scen_ident_cached, scen_restart, scen_liveness]


def run_chunk(ctx, spec):
  import courier
  env = Env()
  try:
    rng = random.Random(spec['rseed'] * 1000003 + spec['chunk'] * 7 + 3)
    mode = spec.get('mode', 'mixed')
    for i in range(spec['n']):
      cid = spec['chunk'] * 100000 + i
      if mode == 'scen':
        scen = _SCENARIOS[i % len(_SCENARIOS)]
        if spec.get('only') in (None, scen.__name__):   # 'only': debugging aid, never planned
          scen(ctx, env, rng, cid)
        continue
      r = i % 10
      if r < 4:
        case_expr(ctx, env, rng, cid)
      elif r < 6:
        case_chain(ctx, env, rng, cid)
      elif r < 8:
        case_iterators(ctx, env, rng, cid)
      elif r == 8:
        case_concurrent(ctx, env, rng, cid)
      else:
        case_shutdown(ctx, env, rng, cid)
    ctx.count('transport_calls', sum(1 for e in courier.sim.call_log if e['ev'] == 'call'))
    ctx.notes['replay'] = 'cases are regenerated from (seed, chunk); replay re-runs the chunk of the recorded cid'
  finally:
    env.close()


def run_case(ctx, case):
  cid = case['cid']
  chunk = cid // 100000
  run_chunk(ctx, {'chunk': chunk, 'n': (cid % 100000) + 1,
                  'rseed': ctx.spec.get('seed', 0),
                  'mode': 'scen' if chunk >= 1000 else 'mixed'})
