"""C14 - remote evaluation is observationally the same as local evaluation.

Engine E4 (simulated Courier transport, real CourierServer / CourierClient /
RemoteObject / RemoteIterator / RemoteIteratorQueue code) with real threads.
Oracle: the same expression evaluated locally (lazy and eager twin).
"""

from __future__ import annotations

import asyncio
import itertools
import random
import threading

ID = 'C14'
LEVEL = 'exploration'
EXTRA_PATH = ('vlib/fakecourier',)
RULE = (
    'a case is one of: (expression tree of depth <= 4 over value-returning and raising callables, '
    'client call kind sync/async) | (remote-object chain of 3-10 attribute/index/call/mutation '
    'operations against a local twin) | (remote iterator / remote queue over a generator with '
    'length 0-7, batch mode, optional failure) | (2-4 concurrent client threads interleaving '
    'expression evaluations) | (shutdown requested, raising / non-raising evaluations). '
    'Non-trivial = expression depth >= 2 or the expression raises or a lazy result / remote object / '
    'iterator is involved; distinct = hash of the case description')
ASSUMPTIONS = [
    'transport stand-in semantics (pickle round trip, concurrent handlers, handler exception -> status error, deadline -> code 4); client and server share one process, so cloudpickle ships the test callables by reference',
    'attribute names that collide with RemoteObject/LazyObject fields (value, id, worker, result_, ...) are not forwarded by design and are not generated',
    'exceptions are compared by type and str(); notes added by the library are ignored',
    'values are compared after the pickle round trip by ==',
]
REQUIRED = ['expr_cases', 'expr_raising', 'async_cases', 'chain_ops', 'remote_objects',
            'iterator_cases', 'queue_cases', 'concurrent_cases', 'shutdown_cases', 'inflight_shutdown_cases',
            'transport_calls']
CHUNK_TIMEOUT_S = {'quick': 150, 'thorough': 1500}


def plan(tier, seed):
  n = 300 if tier == 'quick' else 4000
  chunks = 16 if tier == 'quick' else 48
  return [{'chunk': i, 'n': n, 'rseed': seed} for i in range(chunks)]


def _outcome(fn):
  try:
    return ('ok', fn())
  except BaseException as e:  # pylint: disable=broad-exception-caught
    return ('exc', type(e).__name__, str(e))


def _same(a, b):
  if a[0] != b[0]:
    return False
  if a[0] == 'exc':
    return a[1:] == b[1:]
  try:
    return bool(a[1] == b[1]) and type(a[1]) is type(b[1])
  except Exception:  # pylint: disable=broad-exception-caught
    return False


class Env:
  """One CourierServer + client per child."""

  def __init__(self):
    from vlib import cwork
    import courier
    cwork.setup(scale=1.0)
    from ml_metrics._src.chainables import lazy_fns
    from ml_metrics._src.utils import courier_utils
    self.courier = courier
    self.cwork = cwork
    self.lazy_fns = lazy_fns
    self.cu = courier_utils
    self.server = cwork.start_servers(1, 'c14srv', prefetch=True)[0]
    self.client = courier_utils.CourierClient(self.server.address, call_timeout=30)
    self.client.wait_until_alive(deadline_secs=20)
    self.loop = asyncio.new_event_loop()
    self.loop_thread = threading.Thread(target=self.loop.run_forever, daemon=True)
    self.loop_thread.start()

  def run_async(self, coro, timeout=30):
    return asyncio.run_coroutine_threadsafe(coro, self.loop).result(timeout)

  def close(self):
    self.loop.call_soon_threadsafe(self.loop.stop)
    self.cwork.stop_servers([self.server])


def case_expr(ctx, env, rng, cid):
  from vlib import c14lib
  spec = c14lib.gen_expr(rng, rng.randint(1, 4))
  depth = c14lib.expr_depth(spec)
  eager = _outcome(lambda: c14lib.eval_eager(spec))
  local = _outcome(lambda: env.lazy_fns.maybe_make(c14lib.build_lazy(spec, env.lazy_fns)))
  use_async = rng.random() < 0.4
  lazy = c14lib.build_lazy(spec, env.lazy_fns)
  if not env.lazy_fns.types.is_resolvable(lazy) if hasattr(env.lazy_fns, 'types') else not hasattr(lazy, 'result_'):
    lazy = env.lazy_fns.trace(c14lib.add)(lazy, 0) if isinstance(lazy, int) else env.lazy_fns.trace(c14lib.mk_list)(lazy)
    spec = ['call', 'add', [spec, ['const', 0]], {}, False] if isinstance(spec[1], int) and spec[0] == 'const' else ['call', 'mk_list', [spec], {}, False]
    eager = _outcome(lambda: c14lib.eval_eager(spec))
    local = _outcome(lambda: env.lazy_fns.maybe_make(c14lib.build_lazy(spec, env.lazy_fns)))
  if use_async:
    remote = _outcome(lambda: env.run_async(env.client.async_get_result(lazy)))
    ctx.count('async_cases')
  else:
    remote = _outcome(lambda: env.client.get_result(lazy))
  ctx.count('expr_cases')
  if local[0] == 'exc':
    ctx.count('expr_raising')
  ctx.case(('expr', spec, use_async), depth >= 2 or local[0] == 'exc')
  case = {'kind': 'expr', 'cid': cid}
  if not _same(local, remote):
    ctx.violation('remote_differs_from_local', case,
                  {'spec': spec, 'local': repr(local), 'remote': repr(remote),
                   'async': use_async}, mechanism='remote-eval-differs')
  if not _same(eager, local):
    ctx.observe('lazy_differs_from_eager', {'spec': spec, 'eager': repr(eager),
                                             'lazy': repr(local)})
  if len(ctx.samples) < 2:
    ctx.sample({'expr': spec, 'local': repr(local), 'remote': repr(remote)})


def case_chain(ctx, env, rng, cid):
  from vlib import c14lib
  v = rng.randint(0, 5)
  elems = [rng.choice([1, 2, 'q', (3, 4)]) for _ in range(rng.randint(0, 4))]
  ro = env.client.get_result(
      env.lazy_fns.trace(c14lib.Box)(v, tuple(elems), lazy_result_=True))
  twin = c14lib.Box(v, tuple(elems))
  case = {'kind': 'chain', 'cid': cid}
  ctx.count('remote_objects')
  if not isinstance(ro, env.cu.RemoteObject):
    ctx.violation('lazy_result_travelled', case, {'got': repr(type(ro))},
                  mechanism='lazy-result-not-a-reference')
    return
  ops = []
  for _ in range(rng.randint(3, 10)):
    op = rng.choice(['times', 'bump', 'push', 'item', 'attr', 'call', 'child_attr',
                     'fail', 'iter', 'missing_attr', 'async_times'])
    k = rng.randint(0, 3)
    if op == 'times':
      r = _outcome(lambda: ro.times(k).result_()); w = _outcome(lambda: twin.times(k))
    elif op == 'async_times':
      r = _outcome(lambda: env.run_async(ro.times(k).async_result_())); w = _outcome(lambda: twin.times(k))
    elif op == 'bump':
      r = _outcome(lambda: ro.bump(k).result_()); w = _outcome(lambda: twin.bump(k))
    elif op == 'push':
      r = _outcome(lambda: ro.push(k).result_()); w = _outcome(lambda: twin.push(k))
    elif op == 'item':
      i = rng.choice([0, 1, -1, 7])
      r = _outcome(lambda: ro[i].result_()); w = _outcome(lambda: twin[i])
    elif op == 'attr':
      a = rng.choice(['val', 'elems', 'hist'])
      r = _outcome(lambda: getattr(ro, a).result_()); w = _outcome(lambda: getattr(twin, a))
    elif op == 'missing_attr':
      r = _outcome(lambda: ro.nothing_here.result_()); w = _outcome(lambda: twin.nothing_here)
    elif op == 'call':
      r = _outcome(lambda: ro(k).result_()); w = _outcome(lambda: twin(k))
    elif op == 'child_attr':
      r = _outcome(lambda: ro.child(k).val.result_()); w = _outcome(lambda: twin.child(k).val)
    elif op == 'fail':
      r = _outcome(lambda: ro.fail('no %d' % k).result_()); w = _outcome(lambda: twin.fail('no %d' % k))
    else:  # iter
      r = _outcome(lambda: list(itertools.islice(iter(ro.elems), 50))); w = _outcome(lambda: list(iter(twin.elems)))
    ops.append(op)
    ctx.count('chain_ops')
    if not _same(r, w):
      ctx.violation('chain_differs', case,
                    {'ops': ops, 'remote': repr(r), 'twin': repr(w)},
                    mechanism=f'remote-object-chain:{op}')
      break
  # the object stayed on the server: final remote state equals the twin
  final = _outcome(lambda: ro.result_())
  if not _same(final, ('ok', twin)):
    ctx.violation('remote_state_differs', case,
                  {'ops': ops, 'remote': repr(final), 'twin': repr(twin)},
                  mechanism='remote-object-state')
  ctx.case(('chain', v, elems, ops), True)


def case_iterators(ctx, env, rng, cid):
  from vlib import c14lib
  from ml_metrics._src.utils import iter_utils
  n = rng.randint(0, 7)
  fail_at = rng.choice([None, None, rng.randint(0, max(n, 1))])
  case = {'kind': 'iter', 'cid': cid}
  kind = rng.choice(['remote_iterator', 'remote_iterator_async', 'queue_get',
                     'queue_get_batch', 'queue_async', 'object_iter'])

  def drain_sync(nxt):
    out = []
    for _ in range(n + 3):
      try:
        v = nxt()
      except StopIteration as e:
        return out, ('stop', tuple(e.args))
      except Exception as e:  # pylint: disable=broad-exception-caught
        return out, ('exc', type(e).__name__, str(e))
      out.extend(v) if isinstance(v, list) else out.append(v)
    return out, ('no_end',)

  want = []
  want_end = None
  try:
    g = c14lib.counting_gen(n, 'ret', fail_at)
    while True:
      want.append(next(g))
  except StopIteration as e:
    want_end = ('stop', ('ret',) if e.value is not None else ())
  except (c14lib.AppError, TimeoutError) as e:
    want_end = ('exc', type(e).__name__, str(e))

  if kind in ('remote_iterator', 'remote_iterator_async', 'object_iter'):
    ctx.count('iterator_cases')
    lazy_gen = env.lazy_fns.trace(c14lib.counting_gen)(n, 'ret', fail_at)
    if kind == 'object_iter':
      ro = env.client.get_result(env.lazy_fns.trace(c14lib.mk_list)(*range(n), lazy_result_=True))
      got, end = drain_sync(iter(ro).__next__)
      want, want_end = list(range(n)), ('stop', ())
    else:
      it = env.cu.RemoteIterator.new(lazy_gen, server_addr=env.client)
      if kind == 'remote_iterator':
        got, end = drain_sync(it.__next__)
      else:
        async def drain():
          out = []
          try:
            async for x in it:
              out.append(x)
              if len(out) > n + 5:
                return out, ('no_end',)
          except Exception as e:  # pylint: disable=broad-exception-caught
            return out, ('exc', type(e).__name__, str(e))
          return out, ('stop', None)
        got, end = env.run_async(drain())
    # StopIteration of a plain remote iterator carries the generator return value
    ok_end = (end[0] == want_end[0]) and (end[0] != 'exc' or end[1:] == want_end[1:])
    if got != want or not ok_end:
      ctx.violation('remote_iterator_differs', case,
                    {'kind': kind, 'n': n, 'fail_at': fail_at, 'got': got, 'end': repr(end),
                     'want': want, 'want_end': repr(want_end)},
                    mechanism=f'remote-iterator:{kind}')
    # exhaustion is stable: a further next() keeps signalling the end
    if kind == 'remote_iterator' and end[0] == 'stop':
      again = _outcome(it.__next__)
      if again[0] != 'exc' or again[1] != 'StopIteration':
        ctx.violation('exhaustion_not_stable', case, {'again': repr(again)},
                      mechanism='remote-iterator:exhaustion')
  else:
    ctx.count('queue_cases')
    q = iter_utils.IteratorQueue(rng.choice([0, 1, 2]), name=f'c14q{cid}')
    t = threading.Thread(target=lambda: _swallow(q.enqueue_from_iterator, c14lib.counting_gen(n, 'ret', fail_at)), daemon=True)
    t.start()
    rq = env.cu.RemoteIteratorQueue.new(q, server_addr=env.client, name=f'rq{cid}')
    if kind == 'queue_get':
      got, end = drain_sync(rq.get)
    elif kind == 'queue_get_batch':
      got, end = drain_sync(rq.get_batch)
    else:
      async def drain_q():
        out = []
        try:
          async for x in rq:
            out.append(x)
            if len(out) > n + 5:
              return out, ('no_end',)
        except Exception as e:  # pylint: disable=broad-exception-caught
          return out, ('exc', type(e).__name__, str(e))
        return out, ('stop', None)
      got, end = env.run_async(drain_q())
    t.join(5)
    ok_end = (end[0] == want_end[0]) and (end[0] != 'exc' or end[1:] == want_end[1:])
    if want_end[0] == 'stop' and end[0] == 'stop' and end[1] is not None and kind != 'queue_async':
      ok_end = ok_end and tuple(end[1]) == want_end[1]
    # on failure the queue may drop still-queued elements (C05), but never reorder/duplicate
    elems_ok = got == want if want_end[0] == 'stop' else got == want[:len(got)]
    if not elems_ok or not ok_end:
      ctx.violation('remote_queue_differs', case,
                    {'kind': kind, 'n': n, 'fail_at': fail_at, 'got': got, 'end': repr(end),
                     'want': want, 'want_end': repr(want_end)},
                    mechanism=f'remote-queue:{kind}')
  ctx.case(('iter', kind, n, fail_at), True)


def _swallow(fn, *a):
  try:
    fn(*a)
  except Exception:  # pylint: disable=broad-exception-caught
    pass


def case_concurrent(ctx, env, rng, cid):
  from vlib import c14lib
  k = rng.randint(2, 4)
  specs = [[c14lib.gen_expr(rng, rng.randint(1, 3)) for _ in range(rng.randint(2, 5))]
           for _ in range(k)]
  results = [None] * k

  def worker(i):
    out = []
    for spec in specs[i]:
      lazy = c14lib.build_lazy(spec, env.lazy_fns)
      if not hasattr(lazy, 'result_'):
        lazy = env.lazy_fns.trace(c14lib.mk_list)(lazy)
        spec = ['call', 'mk_list', [spec], {}, False]
      out.append((spec, _outcome(lambda: env.client.get_result(lazy))))
    results[i] = out

  ths = [threading.Thread(target=worker, args=(i,), daemon=True) for i in range(k)]
  for t in ths:
    t.start()
  for t in ths:
    t.join(60)
  ctx.count('concurrent_cases')
  case = {'kind': 'concurrent', 'cid': cid}
  if any(t.is_alive() for t in ths):
    ctx.inconclusive_case('concurrent clients did not finish in 60s', case)
    return
  for out in results:
    for spec, remote in out:
      local = _outcome(lambda: c14lib.eval_eager(spec))
      if not _same(local, remote):
        ctx.violation('concurrent_remote_differs', case,
                      {'spec': spec, 'local': repr(local), 'remote': repr(remote)},
                      mechanism='remote-eval-differs-concurrent')
  ctx.case(('concurrent', specs), True)


def case_shutdown(ctx, env, rng, cid):
  """A server with shutdown requested (still reachable) answers failing
  evaluations with a retriable TimeoutError and never a wrong value."""
  from vlib import c14lib
  from ml_metrics._src.chainables import courier_server
  name = env.cwork.unique('c14down')
  srv = courier_server.PrefetchedCourierServer(name)
  srv.build_server().Start()           # reachable, but without the run loop
  client = env.cu.CourierClient(name, call_timeout=10)
  case = {'kind': 'shutdown', 'cid': cid}
  try:
    client.wait_until_alive(deadline_secs=10)
    ok_before = _outcome(lambda: client.get_result(env.lazy_fns.trace(c14lib.add)(2, 3)))
    # Two calls are already running on the server when the shutdown is requested:
    # one fails afterwards (must come back as the retriable TimeoutError), one
    # succeeds afterwards (must come back with its value or the TimeoutError).
    inflight = {}
    keys = {'boom': f'k{cid}b', 'val': f'k{cid}v'}
    for k in keys.values():
      c14lib.EVENTS[k] = (threading.Event(), threading.Event())
    t_boom = threading.Thread(target=lambda: inflight.__setitem__('boom', _outcome(
        lambda: client.get_result(env.lazy_fns.trace(c14lib.wait_then_boom)(keys['boom'], 'late')))), daemon=True)
    t_val = threading.Thread(target=lambda: inflight.__setitem__('val', _outcome(
        lambda: client.get_result(env.lazy_fns.trace(c14lib.wait_then_value)(keys['val'], 41)))), daemon=True)
    t_boom.start(); t_val.start()
    entered = all(c14lib.EVENTS[k][0].wait(10) for k in keys.values())
    srv._request_shutdown()  # pylint: disable=protected-access
    for k in keys.values():
      c14lib.EVENTS[k][1].set()
    t_boom.join(30); t_val.join(30)
    if entered and not t_boom.is_alive() and not t_val.is_alive():
      ctx.count('inflight_shutdown_cases')
      b, v = inflight.get('boom'), inflight.get('val')
      if not (b and b[0] == 'exc' and b[1] == 'TimeoutError'):
        ctx.violation('inflight_failure_not_timeout', case, {'got': repr(b)},
                      mechanism='shutdown-inflight-error-not-retriable')
      if not (v and (v == ('ok', 41) or (v[0] == 'exc' and v[1] == 'TimeoutError'))):
        ctx.violation('inflight_value_wrong', case, {'got': repr(v)},
                      mechanism='shutdown-inflight-wrong-value')
    else:
      ctx.inconclusive_case('in-flight shutdown calls did not finish', case)
    finished, res, exc = env.cwork.run_with_watchdog(
        lambda: (_outcome(lambda: client.get_result(env.lazy_fns.trace(c14lib.boom)('value', 'x'))),
                 _outcome(lambda: client.get_result(env.lazy_fns.trace(c14lib.add)(2, 5))),
                 _outcome(lambda: env.courier.Client(name, call_timeout=5).init_generator(
                     env.lazy_fns.pickler.dumps(env.lazy_fns.trace(c14lib.counting_gen)(3))))),
        30)
    ctx.count('shutdown_cases')
    if not finished:
      ctx.violation('call_hangs_on_shutting_down_server', case, None,
                    mechanism='shutdown-call-hangs')
      return
    failing, value, init = res
    if ok_before != ('ok', 5):
      ctx.violation('wrong_value_before_shutdown', case, {'got': repr(ok_before)})
    if not (failing[0] == 'exc' and failing[1] == 'TimeoutError'):
      ctx.violation('failing_eval_not_timeout', case, {'got': repr(failing)},
                    mechanism='shutdown-error-not-retriable')
    if value[0] == 'ok' and value[1] != 7:
      ctx.violation('wrong_value_on_shutdown', case, {'got': repr(value)},
                    mechanism='shutdown-wrong-value')
    if not (init[0] == 'ok' and isinstance(init[1], TimeoutError)):
      ctx.violation('init_generator_not_refused', case, {'got': repr(init)},
                    mechanism='shutdown-init-not-refused')
    ctx.case(('shutdown', cid % 3), True)
  finally:
    try:
      srv._server.Stop()  # pylint: disable=protected-access
    except Exception:  # pylint: disable=broad-exception-caught
      pass


def run_chunk(ctx, spec):
  import courier
  env = Env()
  try:
    rng = random.Random(spec['rseed'] * 1000003 + spec['chunk'] * 7 + 3)
    for i in range(spec['n']):
      cid = spec['chunk'] * 100000 + i
      r = i % 10
      if r < 4:
        case_expr(ctx, env, rng, cid)
      elif r < 6:
        case_chain(ctx, env, rng, cid)
      elif r < 8:
        case_iterators(ctx, env, rng, cid)
      elif r == 8:
        case_concurrent(ctx, env, rng, cid)
      else:
        case_shutdown(ctx, env, rng, cid)
    ctx.count('transport_calls', sum(1 for e in courier.sim.call_log if e['ev'] == 'call'))
    ctx.notes['replay'] = 'cases are regenerated from (seed, chunk); replay re-runs the chunk of the recorded cid'
  finally:
    env.close()


def run_case(ctx, case):
  cid = case['cid']
  run_chunk(ctx, {'chunk': cid // 100000, 'n': (cid % 100000) + 1,
                  'rseed': ctx.spec.get('seed', 0)})
