"""C19 - Re-batching conserves rows, order and column alignment.

Code under test: `iter_utils.rebatched_args` (+ `_concat`, `_pad`, `_batch_size`) called
directly and through `TreeFn._iterate` (`TreeTransform.apply(fn_batch_size=, batch_size=)`,
`.select(..., batch_size=)`, `.batch(n)`), also with several fn outputs into one output
key and inside `TreeTransform.new(num_threads=)` pipelines; `iter_utils.iterate_fn`
(row-wise adapter, alignment clause). `vlib/c19w3.py` holds the third widening: assign with
SELF / Key.Literal / nested-path inputs (also under ignore_error with a following operator)
and ignorable errors that have to cross a re-batcher (`Assign.iterate`,
`iter_utils.processed_with_inputs`, the input / output re-batchers of `TreeFn._iterate`).
`vlib/c19w4.py` holds the fourth widening: select of Key.Literal inputs with batch_size
(the constant must not go through the OUTPUT re-batcher as if it were a column).

Oracle: plain Python. Every cell of every column carries a unique id
(value = 100000 * column + global row index), so the expected output of a re-batching
to target `t` of a stream with N rows is, for every column, the id list cut into
`[t] * (N // t) + [N % t]` (the last one padded when `pad` is given). Every case is a
literal (sizes, columns, container kind, target, pad, infer / api parameters) dict, so
replay is exact.
"""

from __future__ import annotations

import itertools
import random
import re

from vlib import c19w3
from vlib import c19w4

ID = 'C19'
LEVEL = 'exploration'
RULE = (
    'a case is (size sequence, #columns, container kind, target, pad, num_columns '
    'given|inferred) for rebatched_args called directly, or (size sequence, #columns, '
    'kind, fn_batch_size, batch_size) / (rows, n) for apply / select / batch pipelines. '
    'quick: ALL size sequences of length <= 5 over sizes 0..6 x targets 1..7 x 1..3 '
    'columns x {list, tuple, ndarray}; for length <= 4 every such case runs with pad in '
    '{None, -1} x num_columns {given, inferred}; for length 5 every case runs ONE of '
    'these four (pad, infer) settings, rotating with (sum(sizes)+target+columns) mod 4 '
    '(pruned for the 60 s budget: pad only acts in the final flush, inference only at '
    'the stream head, and every carry-over state is already reached by length <= 4); '
    'plus 2-D arrays and per-column mixed '
    'kinds for length <= 3, pipelines over all sequences of length <= 3 over sizes 0..4, '
    'and seeded random longer streams. thorough: length <= 5 fully crossed, length 6 with '
    'two of the four (pad, infer) settings per case (both pad values, both inference '
    'modes), random sequences to length 40 / sizes to 50. non-trivial = >= 2 '
    'input batches and some size != target; distinct = (api, size sequence, target) '
    '(column/kind/pad/infer variants of one (sequence, target) are counted as '
    'evaluations, not as distinct cases). Widened input classes: (multi_out) apply() '
    'whose fn returns 2..4 columns that all go to ONE output key - the default SELF or '
    'one named key - as pure selection (no fn), one output per input, or one input '
    'fanned out, over all size sequences of length <= 3 over sizes 0..3 x {list, tuple, '
    'ndarray} x fn_batch_size {0,2,3} x batch_size {0..4} plus random longer streams; '
    'batch_size=0 is the same pipeline without re-batching and is checked against the '
    'same id oracle. (threaded) TreeTransform.new(num_threads=T in 1..3) over a plain '
    'list / iterator / generator, apply(cb).batch(n) over rows 0..9 x n 1..4 and '
    'apply(cb, batch_size=n) over batch-size sequences, cb synchronised per round of T '
    'items by a barrier (or a 2 ms sleep) so that T workers take part; not bit-exact on '
    'replay: which worker pulls which item and the emission order across workers are '
    'up to the scheduler, the per-worker item counts are forced by the barriers. '
    '(iterate_fn) iter_utils.iterate_fn(fn, multithread=True|False) called directly, '
    'with kwargs, or inside assign(), 1-2 input columns, 1-2 outputs, 1..8 rows, per-row '
    'sleeps of rank x 2-3 ms in shuffled / reversed / increasing order. Mechanism keys '
    'of these classes are given by input class AND symptom (see the MECH_* constants); '
    'every other failure of such a case gets a key of its own. Second widening: '
    '(assign) assign(out, fn|None, in, fn_batch_size=a, batch_size=b) over all size '
    'sequences of length <= 3 over sizes 0..3 x {list, tuple, ndarray} x 1-2 columns x '
    '(a, b) in 8 settings, plus random streams (35% already cut to b: control class); '
    'input class "misfit" = b > 0 and the input partition differs from the partition '
    're-batching to b gives. (badrec) apply(strict fn, fn_batch_size=a, batch_size=b) '
    'under ignore_error over all record sequences of length <= 4 over {1 row, 2 rows, '
    'bad record} with >= 1 bad record x 5 kinds of bad record (list / tuple instead of a '
    'dict, None column, scalar column, columns of unequal lengths) x 4 (a, b), plus '
    'random streams of <= 12 records; each case first runs the twin without '
    'fn_batch_size. (literal) apply(fn, inputs = 1-2 columns + one Key.Literal at any '
    'position, positional or keyword) over all size sequences of length <= 3 over sizes '
    '0..3 x 7 literals (scalar, list, tuple, array, empty list) x 7 (a, b), plus random '
    'cases of which 35% have every input batch as long as the literal.' + c19w3.RULE + c19w4.RULE)
ASSUMPTIONS = [
    'the stream is passed as an iterator (the signature says Iterator; a list is '
    'double-counted by the num_columns inference and is not generated)',
    'all columns of one input batch have equal length and every batch has the same '
    'number of columns; for input tuples whose columns differ in length (ragged '
    'sub-check) the only demands are: no emitted batch has columns of unequal length or '
    'a row mixing different input rows, and the stream does not finish normally (the '
    'library raises ValueError by design)',
    'one container kind per column for the whole stream (list, tuple, 1-D int64 ndarray, '
    '2-D int64 ndarray); _concat takes the kind of the first buffered batch',
    'input batches of size 0 inside a stream are treated as valid input (nothing in the '
    'docs or tests excludes them and the code accepts them); empty ndarray batches are '
    'created with the column dtype (np.array([]) would be float64 and promote the column)',
    'pad values are ints (-1 as in the upstream tests, 0 in random cases)',
    'pipelines: the applied fn returns a tuple of columns (a bare tuple-typed column as a '
    'single output is ambiguous with multiple outputs by documented convention and is not '
    'generated); fn_batch_size > 0 only together with batch_size > 0 (constructor '
    'contract); batch_size=0 means pass-through',
    'assign(out_keys, fn, input_keys, fn_batch_size=, batch_size=) (assign sub-check): '
    'input records are batches {k0[, k1], zz} of arbitrary sizes (0 included), one '
    'assigned column per input column (fn adds OFFSET, or no fn); demanded: every input '
    'row is emitted exactly once and in order, all columns of an emitted record have the '
    'same length and row i of the assigned columns belongs to row i of the input '
    'columns; NOT demanded: how the rows are cut into records, how often the fn is '
    'called; accepted instead of a result: ValueError / TypeError when a pipeline with '
    'batch_size is built, or one raised while iterating whose text names the batch size '
    '/ row mismatch (words: batch_size, batch size, mismatch, misalign, rows)',
    'ignore_error sub-check (bad records): the skippable errors are TypeError / '
    'ValueError only (records that are a list / tuple instead of a dict, a None or '
    'scalar column, two columns of different lengths); the fn is strict (raises '
    'TypeError for a column that is not a list / tuple / >= 1-D array and ValueError for '
    'columns of different lengths), so that without fn_batch_size exactly the bad '
    'records are skipped - this twin run is checked first and a failing twin gets a '
    'mechanism key of its own; fn_batch_size > 0 and batch_size > 0; demanded: the rows '
    'of the good records, once, in order, aligned - not how they are cut into batches; '
    'records raising KeyError (missing key, str / int / None record) are not generated '
    '(KeyError is not skippable)',
    'Literal inputs: a Key.Literal is generated only as an input of a fn (positional or '
    'by keyword, at any position); value = int scalar, list / tuple / 1-D int64 array '
    'of length 0..5, also of exactly the length of every input batch; a Literal among '
    'the OUTPUTS of a fn-less apply / select with batch_size (a constant that would '
    'have to be re-batched as a column) is not generated',
    'several fn outputs into one output key (multi_out): the fn returns an exact tuple '
    'of >= 2 equal-length columns (the documented multiple-return convention, so the '
    'single-tuple-output ambiguity does not arise); the output key is the default SELF '
    'or one named key; the pipeline without batch_size yields the tuple of columns (under '
    'that key), and with batch_size the demand is that same tuple of columns, every '
    'column re-batched to the target; fn_batch_size > 0 only with a fn and batch_size > 0',
    'threaded re-batching: num_threads in 1..3, the source is a plain list / iterator / '
    'generator (not shardable), batch sizes >= 1, input batches of apply(batch_size=) '
    'have >= 1 row; demanded are only: every emitted batch but the last has exactly n '
    'rows, the last has 1..n rows, and the rows are conserved as a multiset - the order '
    'of rows across worker threads is NOT demanded; the user callback only waits for '
    'the other items of its round (barrier with a 0.3 s timeout that switches itself off) '
    'or sleeps 2 ms, it never reorders or drops anything',
    'iterate_fn: the per-row fn is pure apart from time.sleep; its result must be '
    'independent of multithread=; >= 1 row (an empty batch with a 2-output fn cannot be '
    'transposed and is not generated)',
] + c19w3.ASSUMPTIONS + c19w4.ASSUMPTIONS
REQUIRED = ['direct_checks', 'concat_checks', 'size_checks', 'alignment_checks',
            'pad_checks', 'infer_checks', 'given_columns_checks',
            'empty_stream_checks', 'zero_size_batch_checks', 'passthrough_checks',
            'apply_checks', 'fn_batch_checks', 'select_checks', 'batch_checks', 'rowchange_checks',
            'input_unchanged_checks', 'ragged_checks', 'ragged_rejected',
            'multi_output_checks', 'multi_output_rebatch_checks', 'threaded_checks',
            'threaded_multi_worker_checks', 'threaded_two_workers_seen',
            'iterate_fn_checks', 'iterate_fn_multithread_checks',
            'iterate_fn_inverted_completion_checks',
            'assign_checks', 'assign_batch_size_checks', 'assign_fn_batch_checks',
            'assign_misfit_checks', 'bad_record_checks', 'bad_record_twin_checks',
            'bad_record_selection_error_checks', 'bad_record_none_column_checks',
            'bad_record_scalar_column_checks', 'bad_record_unequal_columns_checks',
            'literal_checks', 'literal_fn_batch_checks', 'literal_scalar_checks',
            'literal_sequence_checks', 'literal_batch_length_checks'] + c19w3.REQUIRED + c19w4.REQUIRED
EXHAUSTIVE = {'quick': True, 'thorough': True}
CHUNK_TIMEOUT_S = {'quick': 240, 'thorough': 3000}

M = 100000          # column id stride
KINDS = ('list', 'tuple', 'array')
OFFSET = 5000000    # added by the pipeline fn, proves the fn was applied

MECH_EMPTY = 'rebatch-empty-stream-inferred-columns'
MECH_PAD2D = 'rebatch-pad-2d-array-pads-all-axes'


# ---------------------------------------------------------------------------
# Input construction and the oracle
# ---------------------------------------------------------------------------


def _col_kind(kind, col):
  return KINDS[col % 3] if kind == 'mixed' else kind


def _mk_col(kind, col, start, size, offset=0):
  import numpy as np
  lo = M * col + start + offset
  if kind == 'list':
    return list(range(lo, lo + size))
  if kind == 'tuple':
    return tuple(range(lo, lo + size))
  a = np.arange(lo, lo + size, dtype=np.int64)
  if kind == 'array':
    return a
  if kind == 'array2d':
    return np.stack([a, -a - 1], axis=1)
  raise ValueError(kind)


def _mk_batches(sizes, cols, kind):
  out, pos = [], 0
  for s in sizes:
    out.append(tuple(_mk_col(_col_kind(kind, c), c, pos, s) for c in range(cols)))
    pos += s
  return out


def _tolist(x):
  import numpy as np
  if type(x) is list:
    return x
  if type(x) is tuple:
    return list(x)
  if isinstance(x, np.ndarray):
    return x.tolist()
  raise TypeError(f'unexpected column container {type(x).__name__}')


def _cell(kind, v):
  return [v, -v - 1] if kind == 'array2d' else v


def _padcell(kind, pad):
  return [pad, pad] if kind == 'array2d' else pad


def _chunks(n, t):
  """Sizes of the batches that n rows cut to target t must have."""
  return [t] * (n // t) + ([n % t] if n % t else [])


def _expected(sizes_out, cols, kind, pad, target, offset=0):
  """Expected output as nested lists: [batch][column] -> list of cells."""
  exp, pos = [], 0
  for j, s in enumerate(sizes_out):
    b = []
    for c in range(cols):
      k = _col_kind(kind, c)
      col = [_cell(k, v) for v in range(M * c + pos + offset, M * c + pos + s + offset)]
      if pad is not None and j == len(sizes_out) - 1 and s < target:
        col = col + [_padcell(k, pad)] * (target - s)
      b.append(col)
    exp.append(b)
    pos += s
  return exp


def _diagnose(got, sizes_out, cols, kind, pad, target, offset=0):
  """Names the violated clause. `got` is [batch][column] -> list."""
  n = sum(sizes_out)
  for j, b in enumerate(got):
    if len(b) != cols:
      return 'column_count', {'batch': j, 'got': len(b), 'want': cols}
    ls = [len(c) for c in b]
    if len(set(ls)) > 1:
      return 'column_lengths_differ', {'batch': j, 'lengths': ls}
  lens = [len(b[0]) for b in got]
  if any(l == 0 for l in lens):
    return 'empty_batch', {'sizes': lens}
  for j, l in enumerate(lens[:-1]):
    if l != target:
      return 'non_final_batch_size', {'batch': j, 'sizes': lens, 'target': target}
  if lens and lens[-1] > target:
    return 'final_batch_too_large', {'sizes': lens, 'target': target}
  # Row conservation (pad tail of the last batch removed first).
  for c in range(cols):
    k = _col_kind(kind, c)
    flat = list(itertools.chain.from_iterable(b[c] for b in got))
    want = [_cell(k, v) for v in range(M * c + offset, M * c + offset + n)]
    if pad is not None and len(flat) > n:
      tail = flat[n:]
      flat = flat[:n]
      if flat == want:
        if tail != [_padcell(k, pad)] * len(tail) or (len(want) + len(tail)) % target:
          return 'pad_tail', {'column': c, 'tail': tail[:8], 'pad': pad,
                              'sizes': lens}
    if flat != want:
      return 'rows_not_conserved', {'column': c, 'got': flat[:40], 'want': want[:40],
                                    'sizes': lens}
  if pad is not None and lens and lens[-1] != target:
    return 'final_batch_not_padded', {'sizes': lens, 'target': target}
  if pad is None and lens != sizes_out:
    return 'batch_sizes', {'sizes': lens, 'want': sizes_out}
  return 'output_differs', {'sizes': lens, 'want': sizes_out}


class _Counts(dict):

  def add(self, name, n=1):
    self[name] = self.get(name, 0) + n

  def flush(self, ctx):
    for k, v in self.items():
      ctx.count(k, v)
    self.clear()


def _shape_of(out):
  try:
    return [[getattr(c, 'shape', None) or len(c) for c in b] for b in out][:6]
  except Exception:  # pylint: disable=broad-exception-caught
    return repr(out)[:200]


# ---------------------------------------------------------------------------
# Direct rebatched_args
# ---------------------------------------------------------------------------


def _direct_one(ctx, cnt, case, batches):
  """Runs one direct case; `batches` are the prepared input batches."""
  from ml_metrics._src.utils import iter_utils
  sizes, cols, kind = case['sizes'], case['cols'], case['kind']
  target, pad, infer = case['target'], case['pad'], case['infer']
  n = sum(sizes)
  cnt.add('direct_checks')
  kwargs = {}
  if not infer:
    kwargs['num_columns'] = cols
    cnt.add('given_columns_checks')
  else:
    cnt.add('infer_checks')
  if pad is not None:
    kwargs['pad'] = pad
  if not sizes:
    cnt.add('empty_stream_checks')
  if 0 in sizes:
    cnt.add('zero_size_batch_checks')
  if target == 0:
    cnt.add('passthrough_checks')
    sizes_out, pad_eff = list(sizes), None
  else:
    sizes_out, pad_eff = _chunks(n, target), pad
  try:
    out = list(iter_utils.rebatched_args(iter(batches), target, **kwargs))
  except Exception as e:  # pylint: disable=broad-exception-caught
    mech = MECH_EMPTY if (not sizes and infer and target) else None
    ctx.violation('raised', case, {'error': f'{type(e).__name__}: {e}'[:300],
                                   'want_sizes': sizes_out}, mechanism=mech)
    return
  try:
    got = [[_tolist(c) for c in b] for b in out]
  except Exception as e:  # pylint: disable=broad-exception-caught
    ctx.violation('bad_output_container', case, {'error': repr(e)[:200]})
    return
  cnt.add('concat_checks')
  cnt.add('size_checks')
  cnt.add('alignment_checks')
  if pad_eff is not None:
    cnt.add('pad_checks')
  if got == _expected(sizes_out, cols, kind, pad_eff, target):
    return
  kind_, detail = _diagnose(got, sizes_out, cols, kind, pad_eff, target)
  mech = None
  if (pad_eff is not None and n % target and
      any(_col_kind(kind, c) == 'array2d' for c in range(cols))):
    # Only when everything but the padded final batch is right.
    head_ok = (got[:-1] == _expected(sizes_out, cols, kind, None, target)[:-1]
               and len(got) == len(sizes_out))
    if head_ok:
      mech = MECH_PAD2D
      detail = dict(detail, output_shapes=_shape_of(out))
  ctx.violation(kind_, case, detail, mechanism=mech)


_ALL_VARIANTS = ((None, True), (-1, False), (None, False), (-1, True))


def _variants(length, sizes, target, cols, full):
  """(pad, infer) settings to run. full: True = all 4, 2 / 1 = rotation."""
  if full is True:
    return _ALL_VARIANTS
  r = sum(sizes) + target + cols
  if full == 2:
    p = r % 2 == 0
    return ((None, p), (-1, not p))
  return (_ALL_VARIANTS[r % 4],)


def _check_inputs_unchanged(ctx, cnt, sizes, cols, kind, batches):
  cnt.add('input_unchanged_checks')
  try:
    got = [[_tolist(c) for c in b] for b in batches]
  except Exception:  # pylint: disable=broad-exception-caught
    got = None
  if got != _expected(list(sizes), cols, kind, None, 0):
    ctx.violation('input_mutated', {'api': 'direct', 'sizes': list(sizes),
                                    'cols': cols, 'kind': kind, 'target': 3,
                                    'pad': -1, 'infer': False},
                  {'note': 'input batches changed after re-batching'})


def _sweep_sequence(ctx, cnt, sizes, targets, col_range, kinds, full):
  sizes = list(sizes)
  per_target = {t: 0 for t in targets}
  for cols in col_range:
    for kind in kinds:
      batches = _mk_batches(sizes, cols, kind)
      for t in targets:
        for pad, infer in _variants(len(sizes), sizes, t, cols, full):
          _direct_one(ctx, cnt, {'api': 'direct', 'sizes': sizes, 'cols': cols,
                                 'kind': kind, 'target': t, 'pad': pad,
                                 'infer': infer}, batches)
          per_target[t] += 1
      _check_inputs_unchanged(ctx, cnt, sizes, cols, kind, batches)
  for t, k in per_target.items():
    ctx.case(('direct', tuple(sizes), t),
             len(sizes) >= 2 and any(s != t for s in sizes), n=k)


def _run_sweep(ctx, cnt, spec):
  length, prefix = spec['length'], spec['prefix']
  smax = spec.get('smax', 6)
  targets = spec.get('targets', list(range(1, 8)))
  kinds = spec.get('kinds', list(KINDS))
  col_range = spec.get('cols', [1, 2, 3])
  rest = length - len(prefix)
  for tail in itertools.product(range(smax + 1), repeat=rest):
    _sweep_sequence(ctx, cnt, list(prefix) + list(tail), targets, col_range,
                    kinds, spec['full'])


def _run_direct_random(ctx, cnt, spec):
  rng = random.Random(spec['rseed'] * 1000003 + spec['index'] * 7919 + 19)
  big = spec['tier'] == 'thorough'
  for _ in range(spec['count']):
    length = rng.choice([rng.randint(0, 8), rng.randint(0, 40 if big else 16)])
    smax = rng.choice([3, 8, 50 if big else 20])
    zero_p = rng.choice([0.0, 0.15, 0.5])
    sizes = [0 if rng.random() < zero_p else rng.randint(0, smax)
             for _ in range(length)]
    target = rng.choice([rng.randint(1, 8), rng.randint(1, 60 if big else 24),
                         max(1, sum(sizes)), max(1, sum(sizes) + rng.randint(-1, 1))])
    if rng.random() < 0.04:
      target = 0
    cols = rng.randint(1, 3) if rng.random() < 0.85 else rng.randint(4, 6)
    kind = rng.choice(['list', 'tuple', 'array', 'array', 'array2d', 'mixed'])
    pad = rng.choice([None, None, -1, 0])
    case = {'api': 'direct', 'sizes': sizes, 'cols': cols, 'kind': kind,
            'target': target, 'pad': pad, 'infer': rng.random() < 0.5}
    check_direct(ctx, cnt, case)


def check_direct(ctx, cnt, case):
  sizes = case['sizes']
  batches = _mk_batches(sizes, case['cols'], case['kind'])
  ctx.case(('direct', tuple(sizes), case['target'], case['cols'], case['kind'],
            case['pad'], case['infer']),
           len(sizes) >= 2 and any(s != case['target'] for s in sizes))
  _direct_one(ctx, cnt, case, batches)
  _check_inputs_unchanged(ctx, cnt, sizes, case['cols'], case['kind'], batches)


# ---------------------------------------------------------------------------
# Pipelines
# ---------------------------------------------------------------------------


def _pipe_kind_ok(api, kind, cols):
  if kind == 'tuple' and api == 'apply_self':
    return False
  return True


def _add_offset(col):
  import numpy as np
  if isinstance(col, np.ndarray):
    return col + OFFSET
  if type(col) is tuple:
    return tuple(v + OFFSET for v in col)
  return [v + OFFSET for v in col]


def check_pipeline(ctx, cnt, case):
  """case: api in {'apply', 'apply_self', 'select'}; sizes, cols, kind, a, b."""
  from ml_metrics._src.chainables import transform
  api, sizes, cols, kind = case['api'], case['sizes'], case['cols'], case['kind']
  a, b = case.get('a', 0), case['b']
  n = sum(sizes)
  ctx.case((api, tuple(sizes), cols, kind, a, b, case.get('scalar_keys', False)),
           len(sizes) >= 2 and any(s != (b or a) for s in sizes))
  batches = _mk_batches(sizes, cols, kind)
  in_keys = tuple(f'k{c}' for c in range(cols))
  out_keys = tuple(f'o{c}' for c in range(cols))
  calls = []
  offset = 0
  try:
    if api == 'apply':
      stream = [dict(zip(in_keys, bt), zz=list(range(len(bt[0])))) for bt in batches]
      offset = OFFSET

      def fn(*columns):
        calls.append([len(c) for c in columns])
        return tuple(_add_offset(c) for c in columns)

      ik, ok = in_keys, out_keys
      if cols == 1 and case.get('scalar_keys'):
        ik, ok = in_keys[0], out_keys[0]
      t = transform.TreeTransform().apply(
          fn=fn, input_keys=ik, output_keys=ok, fn_batch_size=a, batch_size=b)
      res_keys = out_keys
    elif api == 'apply_self':
      stream = [bt[0] for bt in batches]
      offset = OFFSET

      def fn(column):
        calls.append([len(column)])
        return _add_offset(column)

      t = transform.TreeTransform().apply(fn=fn, fn_batch_size=a, batch_size=b)
      res_keys = None
    elif api == 'select':
      stream = [dict(zip(in_keys, bt), zz=list(range(len(bt[0])))) for bt in batches]
      keys = in_keys
      if cols == 1 and case.get('scalar_keys'):
        keys = in_keys[0]
      t = transform.TreeTransform().select(keys, batch_size=b)
      res_keys = in_keys
    else:
      raise ValueError(api)
    out = list(t.make().iterate(iter(stream)))
  except Exception as e:  # pylint: disable=broad-exception-caught
    ctx.violation('raised', case, {'error': f'{type(e).__name__}: {e}'[:400]})
    return
  cnt.add('select_checks' if api == 'select' else 'apply_checks')
  if not sizes:
    cnt.add('empty_stream_checks')
  if 0 in sizes:
    cnt.add('zero_size_batch_checks')
  fn_sizes = _chunks(n, a) if a else list(sizes)
  if api != 'select':
    cnt.add('fn_batch_checks')
    want_calls = [[s] * cols for s in fn_sizes]
    if calls != want_calls:
      ctx.violation('fn_batch_sizes', case, {'got': calls[:30], 'want': want_calls[:30]})
      return
  if b:
    sizes_out = _chunks(n, b)
  else:
    cnt.add('passthrough_checks')
    sizes_out = fn_sizes
  try:
    if res_keys is None:
      got = [[_tolist(o)] for o in out]
    else:
      for o in out:
        if not isinstance(o, dict) or sorted(o.keys()) != sorted(res_keys):
          ctx.violation('output_keys', case,
                        {'got': repr(o)[:200], 'want_keys': list(res_keys)})
          return
      got = [[_tolist(o[k]) for k in res_keys] for o in out]
  except Exception as e:  # pylint: disable=broad-exception-caught
    ctx.violation('bad_output_container', case, {'error': repr(e)[:200],
                                                 'out': repr(out)[:300]})
    return
  cnt.add('concat_checks')
  cnt.add('size_checks')
  cnt.add('alignment_checks')
  if got != _expected(sizes_out, cols, kind, None, b, offset):
    if b:
      kind_, detail = _diagnose(got, sizes_out, cols, kind, None, b, offset)
    else:
      kind_, detail = 'passthrough_differs', {
          'got_sizes': [[len(c) for c in bb] for bb in got][:20], 'want': sizes_out}
    ctx.violation(kind_, case, detail)



def check_rowchange(ctx, cnt, case):
  """apply(fn_batch_size=a, batch_size=b) with a fn that changes the row count.

  The fn is element-wise ('drop': keeps values with v % 3 != 0, 'dup': every row
  twice), so the concatenation of its outputs does not depend on how the inputs
  were grouped; the emitted stream must be that concatenation re-batched to b.
  """
  from ml_metrics._src.chainables import transform
  sizes, a, b, mode = case['sizes'], case['a'], case['b'], case['fnkind']
  ctx.case(('rowchange', tuple(sizes), a, b, mode), len(sizes) >= 2)
  rows, batches = [], []
  for sz in sizes:
    batches.append(list(range(len(rows), len(rows) + sz)))
    rows.extend(batches[-1])

  def fn(column):
    if mode == 'drop':
      return [v for v in column if v % 3 != 0]
    return [w for v in column for w in (v, v + M)]

  flat = fn(rows)
  try:
    t = transform.TreeTransform().apply(fn=fn, fn_batch_size=a, batch_size=b)
    out = [list(o) for o in t.make().iterate(iter(batches))]
  except Exception as e:  # pylint: disable=broad-exception-caught
    ctx.violation('raised', case, {'error': f'{type(e).__name__}: {e}'[:400]})
    return
  cnt.add('rowchange_checks')
  got_flat = [v for o in out for v in o]
  if got_flat != flat:
    ctx.violation('rowchange_rows_differ', case, {'got': got_flat[:40], 'want': flat[:40]})
    return
  if b:
    want_sizes = _chunks(len(flat), b)
    got_sizes = [len(o) for o in out]
    if got_sizes != want_sizes:
      ctx.violation('rowchange_batch_sizes', case,
                    {'got_sizes': got_sizes[:30], 'want_sizes': want_sizes[:30]})


def check_batch(ctx, cnt, case):
  """case: api='batch', rows N, n (batch size), cols (0 = bare scalars)."""
  from ml_metrics._src.chainables import transform
  rows, n, cols = case['rows'], case['n'], case['cols']
  ctx.case(('batch', rows, n, cols), rows >= 2 and n != 1)
  keys = tuple(f'k{c}' for c in range(cols))
  try:
    if cols == 0:
      stream = [M * 0 + g for g in range(rows)]
      t = transform.TreeTransform().batch(n)
    else:
      stream = [dict({k: M * c + g for c, k in enumerate(keys)}, zz=-g)
                for g in range(rows)]
      sel = keys[0] if (cols == 1 and case.get('scalar_keys')) else keys
      t = transform.TreeTransform().select(sel).batch(n)
    out = list(t.make().iterate(iter(stream)))
  except Exception as e:  # pylint: disable=broad-exception-caught
    ctx.violation('raised', case, {'error': f'{type(e).__name__}: {e}'[:400]})
    return
  cnt.add('batch_checks')
  cnt.add('concat_checks')
  cnt.add('size_checks')
  if not rows:
    cnt.add('empty_stream_checks')
  if n:
    sizes_out = _chunks(rows, n)
  else:
    cnt.add('passthrough_checks')
    sizes_out = [1] * rows
  try:
    if cols == 0:
      got = [[_tolist(o)] for o in out]
    else:
      for o in out:
        if not isinstance(o, dict) or sorted(o.keys()) != sorted(keys):
          ctx.violation('output_keys', case, {'got': repr(o)[:200]})
          return
      got = [[_tolist(o[k]) for k in keys] for o in out]
      cnt.add('alignment_checks')
  except Exception as e:  # pylint: disable=broad-exception-caught
    ctx.violation('bad_output_container', case, {'error': repr(e)[:200],
                                                 'out': repr(out)[:300]})
    return
  c_eff = max(cols, 1)
  if got != _expected(sizes_out, c_eff, 'list', None, n or 1):
    kind_, detail = _diagnose(got, sizes_out, c_eff, 'list', None, n or 1)
    ctx.violation(kind_, case, detail)


_AB_QUICK = [(a, b) for a in (0, 1, 2, 3, 5) for b in (0, 1, 2, 3, 4, 6)
             if not (a and not b)]


def _run_pipe_sweep(ctx, cnt, spec):
  """All sequences with the given prefix, length <= maxlen over sizes 0..smax."""
  smax, maxlen, prefix = spec['smax'], spec['maxlen'], spec['prefix']
  ab = [tuple(x) for x in spec.get('ab') or _AB_QUICK]
  seqs = []
  if prefix is None:
    seqs.append([])
  else:
    for length in range(len(prefix), maxlen + 1):
      for tail in itertools.product(range(smax + 1), repeat=length - len(prefix)):
        seqs.append(list(prefix) + list(tail))
  for sizes in seqs:
    for kind in KINDS:
      for cols in (1, 2):
        for a, b in ab:
          check_pipeline(ctx, cnt, {'api': 'apply', 'sizes': sizes, 'cols': cols,
                                    'kind': kind, 'a': a, 'b': b,
                                    'scalar_keys': (a + b) % 2 == 0})
      if kind != 'tuple':
        for a, b in ab:
          check_pipeline(ctx, cnt, {'api': 'apply_self', 'sizes': sizes, 'cols': 1,
                                    'kind': kind, 'a': a, 'b': b})
      if kind == 'list':
        for a, b in ab:
          if b:
            for fnkind in ('drop', 'dup'):
              check_rowchange(ctx, cnt, {'api': 'rowchange', 'sizes': sizes, 'a': a,
                                         'b': b, 'fnkind': fnkind})
      for cols in (1, 2, 3):
        for b in (0, 1, 2, 3, 4, 6):
          check_pipeline(ctx, cnt, {'api': 'select', 'sizes': sizes, 'cols': cols,
                                    'kind': kind, 'b': b,
                                    'scalar_keys': b % 2 == 0})


def _run_batch_sweep(ctx, cnt, spec):
  for rows in range(0, spec['rows_max'] + 1):
    for n in range(0, spec['n_max'] + 1):
      for cols in (0, 1, 2, 3):
        check_batch(ctx, cnt, {'api': 'batch', 'rows': rows, 'n': n, 'cols': cols,
                               'scalar_keys': (rows + n) % 2 == 0})


def _run_pipe_random(ctx, cnt, spec):
  rng = random.Random(spec['rseed'] * 999983 + spec['index'] * 104729 + 5)
  big = spec['tier'] == 'thorough'
  for _ in range(spec['count']):
    r = rng.random()
    if r < 0.15:
      check_batch(ctx, cnt, {'api': 'batch', 'rows': rng.randint(0, 120 if big else 40),
                             'n': rng.choice([0, 1, 2, 3, 5, 7, 16, 50]),
                             'cols': rng.randint(0, 3),
                             'scalar_keys': rng.random() < 0.5})
      continue
    length = rng.choice([rng.randint(0, 6), rng.randint(0, 40 if big else 12)])
    smax = rng.choice([3, 8, 50 if big else 16])
    zero_p = rng.choice([0.0, 0.15, 0.4])
    sizes = [0 if rng.random() < zero_p else rng.randint(0, smax)
             for _ in range(length)]
    kind = rng.choice(['list', 'tuple', 'array', 'mixed'])
    if r < 0.45:
      case = {'api': 'select', 'sizes': sizes, 'cols': rng.randint(1, 4), 'kind': kind,
              'b': rng.choice([0, 1, 2, 3, 7, 16, 33, 64]),
              'scalar_keys': rng.random() < 0.5}
    else:
      a = rng.choice([0, 0, 1, 2, 3, 5, 8, 17, 40])
      b = rng.choice([1, 2, 3, 4, 7, 16, 33, 64] + ([0] if not a else []))
      api = rng.choice(['apply', 'apply', 'apply_self'])
      if api == 'apply_self':
        case = {'api': api, 'sizes': sizes, 'cols': 1,
                'kind': rng.choice(['list', 'array']), 'a': a, 'b': b}
      else:
        case = {'api': api, 'sizes': sizes, 'cols': rng.randint(1, 4), 'kind': kind,
                'a': a, 'b': b, 'scalar_keys': rng.random() < 0.5}
    check_pipeline(ctx, cnt, case)



# ---------------------------------------------------------------------------
# Several fn outputs into ONE output key (the default SELF, or one named key)
# ---------------------------------------------------------------------------

MECH_MULTI_SELF = 'rebatch-multi-output-into-self-key'
MECH_MULTI_ONEKEY = 'rebatch-multi-output-into-one-output-key'
MECH_THREADS = 'threaded-batch-private-rebatch-buffers'
MECH_ITERATE_FN = 'iterate-fn-multithread-completion-order'
KEEP_WITNESSES = 3


def _violation(ctx, kind, case, detail, mech):
  """Counts every violation per mechanism; keeps the first few as witnesses."""
  key = 'viol:' + str(mech)
  seen = ctx.counters.get(key, 0)
  ctx.count(key)
  if seen < KEEP_WITNESSES:
    ctx.violation(kind, case, detail, mechanism=mech)


def _shift(col, d):
  import numpy as np
  if isinstance(col, np.ndarray):
    return col + d
  if type(col) is tuple:
    return tuple(v + d for v in col)
  return [v + d for v in col]


def check_multi_out(ctx, cnt, case):
  """apply(...) whose fn returns nout >= 2 columns that all go to one output key.

  case: sizes, kind, cin (input columns), nout, fnkind in {'select' (no fn, the
  inputs are the outputs), 'map' (one output per input), 'fanout' (one input,
  nout outputs)}, out in {'self' (default output key), 'onekey' (output_keys='c')},
  a (fn_batch_size), b (batch_size; 0 = the pipeline without re-batching).
  Oracle: output column j carries the ids M*j + row (+ OFFSET when a fn ran), so
  the expected stream is the id lists cut by plain Python into _chunks(N, b).
  """
  from ml_metrics._src.chainables import transform
  sizes, kind, cin, nout = case['sizes'], case['kind'], case['cin'], case['nout']
  fnkind, out_mode, a, b = case['fnkind'], case['out'], case['a'], case['b']
  n = sum(sizes)
  ctx.case(('multi_out', tuple(sizes), kind, cin, nout, fnkind, out_mode, a, b),
           len(sizes) >= 2 and any(s != (b or a) for s in sizes))
  batches = _mk_batches(sizes, cin, kind)
  in_keys = tuple(f'k{c}' for c in range(cin))
  stream = [dict(zip(in_keys, bt), zz=list(range(len(bt[0])))) for bt in batches]
  calls = []
  offset = 0 if fnkind == 'select' else OFFSET
  kwargs = {'input_keys': in_keys if (cin > 1 or not case.get('scalar_keys'))
                          else in_keys[0],
            'fn_batch_size': a, 'batch_size': b}
  if fnkind == 'map':
    def fn(*columns):
      calls.append([len(c) for c in columns])
      return tuple(_add_offset(c) for c in columns)
    kwargs['fn'] = fn
  elif fnkind == 'fanout':
    def fn(column):
      calls.append([len(column)])
      return tuple(_shift(column, OFFSET + M * j) for j in range(nout))
    kwargs['fn'] = fn
  if out_mode == 'onekey':
    kwargs['output_keys'] = 'c'
  in_class = b > 0 and nout >= 2      # re-batching of several outputs to one key
  generic = f'multi-out-{out_mode}:'
  cnt.add('multi_output_checks')
  if in_class:
    cnt.add('multi_output_rebatch_checks')
  try:
    t = transform.TreeTransform().apply(**kwargs)
    out = list(t.make().iterate(iter(stream)))
  except Exception as e:  # pylint: disable=broad-exception-caught
    msg = f'{type(e).__name__}: {e}'
    mech = generic + 'raised'
    if in_class and out_mode == 'onekey' and 'Mismatched columns' in msg:
      mech = MECH_MULTI_ONEKEY
    _violation(ctx, 'raised', case, {'error': msg[:400]}, mech)
    return
  fn_sizes = _chunks(n, a) if a else list(sizes)
  if fnkind != 'select':
    cnt.add('fn_batch_checks')
    want_calls = [[s] * cin for s in fn_sizes]
    if calls != want_calls:
      _violation(ctx, 'fn_batch_sizes', case,
                 {'got': calls[:30], 'want': want_calls[:30]}, generic + 'fn_batch_sizes')
      return
  if b:
    sizes_out = _chunks(n, b)
  else:
    cnt.add('passthrough_checks')
    sizes_out = fn_sizes
  try:
    if out_mode == 'onekey':
      for o in out:
        if not isinstance(o, dict) or list(o.keys()) != ['c']:
          _violation(ctx, 'output_keys', case, {'got': repr(o)[:200]},
                     generic + 'output_keys')
          return
      out = [o['c'] for o in out]
    got = [[_tolist(c) for c in o] for o in out]
    shape_ok = all(type(o) is tuple for o in out)
  except Exception as e:  # pylint: disable=broad-exception-caught
    _violation(ctx, 'bad_output_container', case,
               {'error': repr(e)[:200], 'out': repr(out)[:300]},
               generic + 'bad_output_container')
    return
  cnt.add('concat_checks')
  cnt.add('size_checks')
  cnt.add('alignment_checks')
  if shape_ok and got == _expected(sizes_out, nout, 'list', None, b, offset):
    return
  kind_, detail = _diagnose(got, sizes_out, nout, 'list', None, b or 1, offset)
  mech = generic + kind_
  if in_class and out_mode == 'self':
    # The audited symptom: the emitted "batches" are the fn output COLUMNS, whole
    # and in call order, grouped b at a time (columns were re-batched as rows).
    col_seq = []
    pos = 0
    for sz in fn_sizes:
      col_seq.extend(list(range(M * j + pos + offset, M * j + pos + sz + offset))
                     for j in range(nout))
      pos += sz
    as_rows = [col_seq[i:i + b] for i in range(0, len(col_seq), b)]
    if got == as_rows:
      mech = MECH_MULTI_SELF
      detail = dict(detail, clause=kind_,
                    note='every emitted element is a whole fn output column')
      kind_ = 'columns_rebatched_as_rows'
  detail = dict(detail, got=repr(got)[:300],
                want=repr(_expected(sizes_out, nout, 'list', None, b, offset))[:300])
  _violation(ctx, kind_, case, detail, mech)


_MULTI_VARIANTS = (
    # fnkind, cin, nout, out
    ('select', 2, 2, 'self'), ('select', 3, 3, 'self'), ('map', 2, 2, 'self'),
    ('fanout', 1, 2, 'self'), ('fanout', 1, 3, 'self'),
    ('map', 2, 2, 'onekey'), ('fanout', 1, 2, 'onekey'),
)
_MULTI_AB = [(a, b) for a in (0, 2, 3) for b in (0, 1, 2, 3, 4) if not (a and not b)]


def _run_multi_sweep(ctx, cnt, spec):
  smax, maxlen, prefix = spec['smax'], spec['maxlen'], spec['prefix']
  seqs = []
  if prefix is None:
    seqs.append([])
  else:
    for length in range(len(prefix), maxlen + 1):
      for tail in itertools.product(range(smax + 1), repeat=length - len(prefix)):
        seqs.append(list(prefix) + list(tail))
  for sizes in seqs:
    for kind in KINDS:
      for fnkind, cin, nout, out in _MULTI_VARIANTS:
        for a, b in _MULTI_AB:
          if a and fnkind == 'select':
            continue
          check_multi_out(ctx, cnt, {
              'api': 'multi_out', 'sizes': sizes, 'kind': kind, 'cin': cin,
              'nout': nout, 'fnkind': fnkind, 'out': out, 'a': a, 'b': b,
              'scalar_keys': (a + b) % 2 == 0})


def _run_multi_random(ctx, cnt, spec):
  rng = random.Random(spec['rseed'] * 15485863 + spec['index'] * 32452843 + 11)
  big = spec['tier'] == 'thorough'
  for _ in range(spec['count']):
    length = rng.choice([rng.randint(0, 6), rng.randint(0, 40 if big else 12)])
    smax = rng.choice([3, 8, 50 if big else 16])
    zero_p = rng.choice([0.0, 0.15, 0.4])
    sizes = [0 if rng.random() < zero_p else rng.randint(0, smax)
             for _ in range(length)]
    fnkind = rng.choice(['select', 'map', 'fanout'])
    nout = rng.randint(2, 4)
    a = 0 if fnkind == 'select' else rng.choice([0, 0, 1, 2, 3, 5, 8, 17])
    b = rng.choice([1, 2, 3, 4, 7, 16, 33] + ([0] if not a else []))
    check_multi_out(ctx, cnt, {
        'api': 'multi_out', 'sizes': sizes,
        'kind': rng.choice(['list', 'tuple', 'array', 'mixed']),
        'cin': 1 if fnkind == 'fanout' else nout, 'nout': nout, 'fnkind': fnkind,
        'out': 'self' if (fnkind == 'select' or rng.random() < 0.7) else 'onekey',
        'a': a, 'b': b, 'scalar_keys': rng.random() < 0.5})


# ---------------------------------------------------------------------------
# Re-batching inside a threaded pipeline over a plain (non-shardable) iterable
# ---------------------------------------------------------------------------


class _Rounds:
  """Makes `threads` workers take part: item i waits for the others of its round.

  Items are grouped in rounds of `threads` consecutive items; the callback of an
  item waits on a barrier until every item of its round is in flight, which needs
  as many workers as the round has items. A barrier that times out switches the
  synchronisation off for the rest of the case (a pipeline that calls the fn from
  fewer threads is legal). 'sleep' only yields the CPU for a moment.
  """

  def __init__(self, sync, threads, total):
    import threading
    self.sync, self.off = sync, False
    self.workers = set()
    self.barriers = []
    if sync == 'barrier':
      for start in range(0, total, threads):
        self.barriers.append(threading.Barrier(min(threads, total - start)))
    self.threads = threads

  def __call__(self, i):
    import threading
    import time
    self.workers.add(threading.get_ident())
    if self.sync == 'sleep':
      time.sleep(0.002)
    elif self.sync == 'barrier' and not self.off:
      try:
        self.barriers[i // self.threads].wait(timeout=0.3)
      except threading.BrokenBarrierError:
        self.off = True


def check_threaded(ctx, cnt, case):
  """TreeTransform.new(num_threads=T) ... re-batching to n over a plain iterable.

  case: form 'batch' (rows 0..R-1 -> apply(cb).batch(n)) or 'apply_bs' (input
  batches of `sizes` rows -> apply(cb, batch_size=n)); threads T (1..3); src in
  {'iter', 'list', 'gen'}; sync in {'barrier', 'sleep'}.
  Demanded (row order across threads is NOT): every emitted batch but the last has
  exactly n rows, the last has 1..n rows, the rows are conserved as a multiset.
  """
  from ml_metrics._src.chainables import transform
  form, n, threads = case['form'], case['n'], case['threads']
  if form == 'batch':
    items = list(range(case['rows']))
    total = case['rows']
  else:
    items, total = [], 0
    for sz in case['sizes']:
      items.append(list(range(total, total + sz)))
      total += sz
  ctx.case(('threaded', form, case.get('rows'), tuple(case.get('sizes', ())), n, threads,
            case['src'], case['sync']), total > n and threads >= 2)
  rounds = _Rounds(case['sync'], threads, len(items))
  if form == 'batch':
    def cb(x):
      rounds(x)
      return x
    t = transform.TreeTransform.new(num_threads=threads).apply(fn=cb).batch(n)
  else:
    index_of = {b[0]: i for i, b in enumerate(items)}
    def cb(column):
      rounds(index_of[column[0]])
      return column
    t = transform.TreeTransform.new(num_threads=threads).apply(fn=cb, batch_size=n)
  src = case['src']
  source = items if src == 'list' else iter(items) if src == 'iter' else (x for x in items)
  in_class = threads >= 2
  cnt.add('threaded_checks')
  if in_class:
    cnt.add('threaded_multi_worker_checks')
  try:
    out = [_tolist(o) for o in t.make().iterate(source)]
  except Exception as e:  # pylint: disable=broad-exception-caught
    _violation(ctx, 'raised', case, {'error': f'{type(e).__name__}: {e}'[:400]},
               'threaded:raised')
    return
  if len(rounds.workers) >= 2:
    cnt.add('threaded_two_workers_seen')
  lens = [len(o) for o in out]
  flat = sorted(v for o in out for v in o)
  detail = {'sizes': lens[:30], 'want_sizes': _chunks(total, n), 'workers': len(rounds.workers),
            'out': repr(out)[:300]}
  cnt.add('size_checks')
  if flat != list(range(total)):
    _violation(ctx, 'rows_not_conserved', case, detail, 'threaded:rows_not_conserved')
  elif any(l == 0 for l in lens):
    _violation(ctx, 'empty_batch', case, detail, 'threaded:empty_batch')
  elif any(l > n for l in lens):
    _violation(ctx, 'final_batch_too_large' if all(l <= n for l in lens[:-1])
               else 'non_final_batch_size', case, detail, 'threaded:batch_too_large')
  elif any(l != n for l in lens[:-1]):
    # Short batches before the last one while nothing is lost: with >= 2 worker
    # threads this is what private per-thread re-batching buffers produce.
    _violation(ctx, 'non_final_batch_size', case, detail,
               MECH_THREADS if in_class else 'threaded:single-worker-short-batch')


def _run_threaded_sweep(ctx, cnt, spec):
  threads = spec['threads']
  for rows in range(0, spec['rows_max'] + 1):
    for n in range(1, spec['n_max'] + 1):
      r = rows + n + threads
      check_threaded(ctx, cnt, {'api': 'threaded', 'form': 'batch', 'rows': rows, 'n': n,
                                'threads': threads, 'src': ('iter', 'list', 'gen')[r % 3],
                                'sync': 'barrier'})
  for sizes in itertools.chain.from_iterable(
      itertools.product((1, 2, 3), repeat=k) for k in (1, 2, 3, 4)):
    for n in (2, 3, 4):
      if (sum(sizes) + n) % 3 == threads % 3:
        check_threaded(ctx, cnt, {'api': 'threaded', 'form': 'apply_bs',
                                  'sizes': list(sizes), 'n': n, 'threads': threads,
                                  'src': 'iter', 'sync': 'barrier'})


def _run_threaded_random(ctx, cnt, spec):
  rng = random.Random(spec['rseed'] * 2750159 + spec['index'] * 5800079 + 7)
  for _ in range(spec['count']):
    case = {'api': 'threaded', 'n': rng.randint(1, 6), 'threads': rng.randint(1, 3),
            'src': rng.choice(['iter', 'list', 'gen']),
            'sync': rng.choice(['barrier', 'barrier', 'sleep'])}
    if rng.random() < 0.5:
      case.update(form='batch', rows=rng.randint(0, 24))
    else:
      case.update(form='apply_bs',
                  sizes=[rng.randint(1, 5) for _ in range(rng.randint(0, 10))])
    check_threaded(ctx, cnt, case)


# ---------------------------------------------------------------------------
# iter_utils.iterate_fn(fn, multithread=True): rows must stay attached to rows
# ---------------------------------------------------------------------------


def check_iterate_fn(ctx, cnt, case):
  """case: rows R, delays (ms per row), multithread, nin (1|2), nout (1|2), form.

  The wrapped fn works on one row; wrapped(columns) must return, per output
  column, [fn(row 0), fn(row 1), ...] in input order - the same as with
  multithread=False - whatever order the per-row calls complete in.
  """
  import time
  from ml_metrics._src.utils import iter_utils
  from ml_metrics._src.chainables import transform
  rows, delays, mt = case['rows'], case['delays'], case['multithread']
  nin, nout, form = case['nin'], case['nout'], case['form']
  ctx.case(('iterate_fn', rows, tuple(delays), mt, nin, nout, form), rows >= 2 and mt)
  inverted = any(delays[i] > delays[i + 1] for i in range(rows - 1))

  def pure(x, y=None):
    v = x + OFFSET + (0 if y is None else (y - M - x))   # y - M - x == 0 when aligned
    return v if nout == 1 else (v, x + 2 * OFFSET)

  def slow(x, y=None):
    time.sleep(delays[x] / 1000.0)
    return pure(x, y)

  cols = [list(range(M * c, M * c + rows)) for c in range(nin)]
  want_rows = [pure(*(col[i] for col in cols)) for i in range(rows)]
  if nout == 1:
    want = want_rows
  else:
    want = tuple(zip(*want_rows))
  cnt.add('iterate_fn_checks')
  if mt:
    cnt.add('iterate_fn_multithread_checks')
    if inverted:
      cnt.add('iterate_fn_inverted_completion_checks')
  try:
    serial = iter_utils.iterate_fn(pure)(*cols)
    wrapped = iter_utils.iterate_fn(slow, multithread=mt)
    if form == 'direct':
      got = wrapped(*cols)
    elif form == 'kwargs':
      got = wrapped(cols[0], **({'y': cols[1]} if nin == 2 else {}))
    else:
      t = transform.TreeTransform().assign(
          'out' if nout == 1 else ('out', 'out2'), fn=wrapped,
          input_keys='k0' if nin == 1 else ('k0', 'k1'))
      res = t.make()({f'k{c}': cols[c] for c in range(nin)})
      if [res.get(f'k{c}') for c in range(nin)] != cols:
        _violation(ctx, 'input_mutated', case, {'got': repr(res)[:300]},
                   'iterate-fn:assign-inputs-changed')
        return
      got = res['out'] if nout == 1 else (res['out'], res['out2'])
  except Exception as e:  # pylint: disable=broad-exception-caught
    _violation(ctx, 'raised', case, {'error': f'{type(e).__name__}: {e}'[:400]},
               'iterate-fn:raised')
    return
  if serial != want:
    _violation(ctx, 'iterate_fn_serial_differs', case,
               {'got': repr(serial)[:300], 'want': repr(want)[:300]},
               'iterate-fn:serial-differs-from-oracle')
    return
  cnt.add('alignment_checks')
  if got == want:
    return
  try:
    got_rows = list(got) if nout == 1 else list(zip(*got))
    permuted = sorted(got_rows) == sorted(want_rows) and len(got_rows) == rows
  except Exception:  # pylint: disable=broad-exception-caught
    permuted = False
  mech = MECH_ITERATE_FN if (mt and permuted) else 'iterate-fn:result-differs'
  _violation(ctx, 'rows_misaligned' if permuted else 'output_differs', case,
             {'got': repr(got)[:300], 'want': repr(want)[:300],
              'serial (multithread=False)': repr(serial)[:300]}, mech)


def _run_iterate_fn(ctx, cnt, spec):
  rng = random.Random(spec['rseed'] * 1299709 + spec['index'] * 3497861 + 13)
  for j in range(spec['count']):
    rows = rng.choice([1, 2, 3, 4, 5, 6, 8]) if j % 8 else rng.randint(2, 6)
    order = list(range(rows))
    r = rng.random()
    if r < 0.5:
      rng.shuffle(order)          # random completion order
    elif r < 0.8:
      order.reverse()             # first row completes last
    unit = rng.choice([2, 3])
    delays = [0] * rows
    for rank, i in enumerate(order):
      delays[i] = rank * unit
    check_iterate_fn(ctx, cnt, {
        'api': 'iterate_fn', 'rows': rows, 'delays': delays,
        'multithread': rng.random() < 0.85, 'nin': rng.randint(1, 2),
        'nout': rng.randint(1, 2), 'form': rng.choice(['direct', 'kwargs', 'assign'])})


# ---------------------------------------------------------------------------
# assign(..., batch_size= / fn_batch_size=) over input batches of arbitrary sizes
# ---------------------------------------------------------------------------

MECH_ASSIGN = 'assign-batch-size-outputs-paired-with-unrebatched-inputs'
MECH_TRUNC = 'ignored-error-inside-input-rebatcher-truncates-stream'
MECH_LITERAL = 'literal-input-rebatched-as-column'
ZZ = 9              # column id of the untouched by-stander column 'zz'
FOREIGN = 7         # column id of the cells of a bad record (must never be emitted)

_SIZE_WORDS = ('batch_size', 'batch size', 'mismatch', 'misalign', 'rows')


def _error_chain(e):
  out, seen = [], set()
  while e is not None and id(e) not in seen:
    seen.add(id(e))
    out.append(f'{type(e).__name__}: {e}')
    e = e.__cause__ or e.__context__
  return out


def _names_size_mismatch(e):
  """A ValueError / TypeError / RuntimeError whose text talks about batch sizes / rows."""
  if not isinstance(e, (ValueError, TypeError, RuntimeError)):
    return False
  text = ' '.join(_error_chain(e)).lower()
  return any(w in text for w in _SIZE_WORDS)


def check_assign(ctx, cnt, case):
  """assign(out_keys, fn, input_keys, fn_batch_size=a, batch_size=b).

  case: sizes (rows per input record), cols (1|2 input = assigned columns), kind,
  fnkind ('map': one assigned column per input column, value + OFFSET; 'none': no
  fn, the selected columns are assigned as they are), a, b.
  Demanded: every input row is emitted exactly once and in order, all columns of an
  emitted record (inputs k*, by-stander zz, assigned o*) have the same length and
  row i of every assigned column belongs to row i of the input columns. NOT demanded:
  how the rows are cut into records. Accepted instead: a ValueError / TypeError when
  the pipeline is built with batch_size, or one raised while iterating whose text
  names the batch size / row count mismatch.
  Input class of MECH_ASSIGN ('misfit'): batch_size > 0 and the input partition is
  not the partition that re-batching to batch_size produces; symptom: the emitted
  records are exactly 'input batch j + j-th chunk of the re-batched outputs', or the
  IndexError('No element left.') of the input recital.
  """
  from ml_metrics._src.chainables import transform
  sizes, cols, kind = list(case['sizes']), case['cols'], case['kind']
  a, b, fnkind = case['a'], case['b'], case['fnkind']
  n = sum(sizes)
  misfit = bool(b) and sizes != _chunks(n, b)
  cls = 'misfit' if misfit else ('fit' if b else 'nobatch')
  ctx.case(('assign', tuple(sizes), cols, kind, fnkind, a, b,
            case.get('scalar_keys', False)), len(sizes) >= 2 and misfit)
  cnt.add('assign_checks')
  if b:
    cnt.add('assign_batch_size_checks')
  if a:
    cnt.add('assign_fn_batch_checks')
  if misfit:
    cnt.add('assign_misfit_checks')
  in_keys = tuple(f'k{c}' for c in range(cols))
  out_keys = tuple(f'o{c}' for c in range(cols))
  stream, pos = [], 0
  for bt, sz in zip(_mk_batches(sizes, cols, kind), sizes):
    stream.append(dict(zip(in_keys, bt), zz=_mk_col('list', ZZ, pos, sz)))
    pos += sz
  offset = OFFSET if fnkind == 'map' else 0
  kwargs = {'fn_batch_size': a, 'batch_size': b}
  if fnkind == 'map':
    kwargs['fn'] = lambda *columns: tuple(_add_offset(c) for c in columns)
  ik, ok = in_keys, out_keys
  if cols == 1 and case.get('scalar_keys'):
    ik, ok = in_keys[0], out_keys[0]

  def report(symptom, detail, audited):
    mech = MECH_ASSIGN if (misfit and audited) else f'assign-{cls}:{symptom}'
    _violation(ctx, 'assign_batch_size', case, dict(detail, symptom=symptom,
                                                    input_class=cls), mech)

  try:
    runner = transform.TreeTransform().assign(ok, input_keys=ik, **kwargs).make()
  except Exception as e:  # pylint: disable=broad-exception-caught
    if b and isinstance(e, (ValueError, TypeError)):
      cnt.add('assign_batch_size_rejected_when_built')
      return
    report('build_raised', {'error': _error_chain(e)[:3]}, False)
    return
  try:
    out = list(runner.iterate(iter(stream)))
  except Exception as e:  # pylint: disable=broad-exception-caught
    if misfit and _names_size_mismatch(e):
      cnt.add('assign_size_mismatch_reported')
      return
    unrelated = isinstance(e, IndexError) and 'No element left' in str(e)
    report('raised_unrelated_IndexError' if unrelated else f'raised_{type(e).__name__}',
           {'error': _error_chain(e)[:3]}, unrelated)
    return
  cnt.add('alignment_checks')
  want_keys = sorted(in_keys + out_keys + ('zz',))
  if misfit:
    # Signature of the audited defect: record j = input batch j with the j-th
    # chunk of the outputs re-batched to b, as many records as the shorter of
    # the two streams has (more chunks than inputs ends in the IndexError).
    zipped, starts, opos = [], [sum(sizes[:j]) for j in range(len(sizes))], 0
    for j, (sz, ch) in enumerate(zip(sizes, _chunks(n, b))):
      rec = {'zz': list(range(M * ZZ + starts[j], M * ZZ + starts[j] + sz))}
      for c in range(cols):
        rec[f'k{c}'] = list(range(M * c + starts[j], M * c + starts[j] + sz))
        rec[f'o{c}'] = list(range(M * c + opos + offset, M * c + opos + ch + offset))
      zipped.append(rec)
      opos += ch
    try:
      got_recs = [{k: _tolist(v) for k, v in o.items()} for o in out]
    except Exception:  # pylint: disable=broad-exception-caught
      got_recs = None
    signature = got_recs == zipped
  else:
    signature = False
  rows = []
  for j, o in enumerate(out):
    if not isinstance(o, dict) or sorted(o.keys()) != want_keys:
      report('output_keys', {'record': j, 'got': repr(o)[:200], 'want_keys': want_keys},
             False)
      return
    try:
      colsl = {k: _tolist(o[k]) for k in want_keys}
    except Exception as e:  # pylint: disable=broad-exception-caught
      report('bad_output_container', {'record': j, 'error': repr(e)[:200]}, False)
      return
    lens = {k: len(v) for k, v in colsl.items()}
    if len(set(lens.values())) > 1:
      report('column_lengths_differ', {'record': j, 'lengths': lens,
                                       'emitted': repr(out)[:400]}, signature)
      return
    for i in range(lens['zz']):
      g = colsl['zz'][i] - M * ZZ
      if not (all(colsl[f'k{c}'][i] == M * c + g for c in range(cols)) and
              all(colsl[f'o{c}'][i] == M * c + g + offset for c in range(cols))):
        report('rows_misaligned', {'record': j, 'row': i,
                                   'cells': {k: v[i] for k, v in colsl.items()},
                                   'emitted': repr(out)[:400]}, signature)
        return
      rows.append(g)
  if rows != list(range(n)):
    report('rows_not_conserved',
           {'emitted_rows': rows[:40], 'input_rows': n,
            'lost': [g for g in range(n) if g not in rows][:20],
            'emitted': repr(out)[:400]}, signature)


_ASSIGN_AB = ((0, 0), (0, 1), (0, 2), (0, 3), (2, 2), (2, 3), (3, 2), (1, 3))


def _seqs(prefix, smax, maxlen):
  if prefix is None:
    return [[]]
  out = []
  for length in range(len(prefix), maxlen + 1):
    for tail in itertools.product(range(smax + 1), repeat=length - len(prefix)):
      out.append(list(prefix) + list(tail))
  return out


def _run_assign_sweep(ctx, cnt, spec):
  for sizes in _seqs(spec['prefix'], spec['smax'], spec['maxlen']):
    for kind in KINDS:
      for cols in (1, 2):
        for fnkind in ('map', 'none'):
          for a, b in _ASSIGN_AB:
            if a and fnkind == 'none':
              continue
            check_assign(ctx, cnt, {
                'api': 'assign', 'sizes': sizes, 'cols': cols, 'kind': kind,
                'fnkind': fnkind, 'a': a, 'b': b, 'scalar_keys': (a + b) % 2 == 0})


def _run_assign_random(ctx, cnt, spec):
  rng = random.Random(spec['rseed'] * 86028121 + spec['index'] * 49979687 + 23)
  big = spec['tier'] == 'thorough'
  for _ in range(spec['count']):
    length = rng.choice([rng.randint(0, 5), rng.randint(0, 30 if big else 10)])
    smax = rng.choice([3, 6, 30 if big else 12])
    b = rng.choice([0, 1, 2, 3, 4, 7, 16])
    r = rng.random()
    if b and r < 0.35:
      # the input already has the partition of the target (control class 'fit')
      sizes = _chunks(rng.randint(0, 40), b)
    else:
      zero_p = rng.choice([0.0, 0.0, 0.2])
      sizes = [0 if rng.random() < zero_p else rng.randint(1, smax)
               for _ in range(length)]
    fnkind = rng.choice(['map', 'map', 'none'])
    a = rng.choice([0, 1, 2, 3, 5, 8]) if (b and fnkind == 'map') else 0
    check_assign(ctx, cnt, {
        'api': 'assign', 'sizes': sizes, 'cols': rng.randint(1, 2),
        'kind': rng.choice(['list', 'tuple', 'array', 'mixed']), 'fnkind': fnkind,
        'a': a, 'b': b, 'scalar_keys': rng.random() < 0.5})


# ---------------------------------------------------------------------------
# ignore_error + fn_batch_size: records that fail INSIDE the input re-batcher
# ---------------------------------------------------------------------------

BAD_KINDS = ('selection_error_list', 'selection_error_tuple', 'none_column',
             'scalar_column', 'unequal_columns')


def _bad_record(badkind, cols, badcol, nth):
  """A record whose input selection / column validation raises a skippable error.

  Its cells carry ids of column FOREIGN, which must never be emitted.
  """
  lo = M * FOREIGN + 10 * nth
  if badkind == 'selection_error_list':
    return [lo]                       # a list has no key 'k0': TypeError
  if badkind == 'selection_error_tuple':
    return (lo, lo + 1)
  rec = {f'k{c}': [lo + 1, lo + 2] for c in range(cols)}
  rec['zz'] = [0, 0]
  if badkind == 'none_column':
    rec[f'k{badcol}'] = None
  elif badkind == 'scalar_column':
    rec[f'k{badcol}'] = lo
  elif badkind == 'unequal_columns':
    rec[f'k{badcol}'] = [lo + 1, lo + 2, lo + 3]
  else:
    raise ValueError(badkind)
  return rec


def _strict_offset_fn(*columns):
  """Adds OFFSET; rejects what is not a batch of equally long columns."""
  import numpy as np
  lens = set()
  for c in columns:
    if isinstance(c, np.ndarray):
      if c.ndim == 0:
        raise TypeError('column is not a sequence')
    elif type(c) not in (list, tuple):
      raise TypeError(f'column is not a sequence: {type(c).__name__}')
    lens.add(len(c))
  if len(lens) > 1:
    raise ValueError(f'columns of different lengths: {sorted(lens)}')
  return tuple(_add_offset(c) for c in columns)


def _run_ignore_error(recs_stream, cols, a, b, scalar_keys):
  from ml_metrics._src.chainables import transform
  in_keys = tuple(f'k{c}' for c in range(cols))
  out_keys = tuple(f'o{c}' for c in range(cols))
  ik, ok = in_keys, out_keys
  if cols == 1 and scalar_keys:
    ik, ok = in_keys[0], out_keys[0]
  t = transform.TreeTransform().apply(fn=_strict_offset_fn, input_keys=ik,
                                      output_keys=ok, fn_batch_size=a, batch_size=b)
  return list(t.make().iterate(iter(recs_stream), ignore_error=True))


def _good_rows(out, cols):
  """Emitted rows (global ids) or (None, symptom, detail)."""
  out_keys = [f'o{c}' for c in range(cols)]
  rows = []
  for j, o in enumerate(out):
    if not isinstance(o, dict) or sorted(o.keys()) != out_keys:
      return None, 'output_keys', {'record': j, 'got': repr(o)[:200]}
    colsl = [_tolist(o[k]) for k in out_keys]
    if len({len(c) for c in colsl}) > 1:
      return None, 'column_lengths_differ', {'record': j,
                                              'lengths': [len(c) for c in colsl]}
    for i in range(len(colsl[0])):
      gs = {colsl[c][i] - M * c - OFFSET for c in range(cols)}
      if len(gs) > 1:
        return None, 'rows_misaligned', {'record': j, 'row': i,
                                          'cells': [c[i] for c in colsl]}
      rows.append(gs.pop())
  return rows, None, None


def check_bad_record(ctx, cnt, case):
  """apply(fn, fn_batch_size=a, batch_size=b) under ignore_error=True over a stream
  with records that raise a skippable error before the fn is reached.

  case: recs = list of int (a good record with that many rows) | str (a bad record
  of that BAD_KINDS kind), cols, kind, badcol, a > 0, b > 0.
  Oracle: plain Python - the rows of the good records, in order, aligned; checked
  first on the twin pipeline WITHOUT fn_batch_size (same batch_size), which skips
  exactly the bad records, then demanded from the pipeline with fn_batch_size.
  """
  recs, cols, kind = case['recs'], case['cols'], case['kind']
  a, b, badcol = case['a'], case['b'], case.get('badcol', 0)
  ctx.case(('badrec', tuple(recs), cols, kind, badcol, a, b,
            case.get('scalar_keys', False)), True)
  in_keys = tuple(f'k{c}' for c in range(cols))
  stream, pos, nbad, first_bad_rows = [], 0, 0, None
  for r in recs:
    if isinstance(r, str):
      if first_bad_rows is None:
        first_bad_rows = pos
      stream.append(_bad_record(r, cols, badcol, nbad))
      nbad += 1
    else:
      cells = tuple(_mk_col(_col_kind(kind, c), c, pos, r) for c in range(cols))
      stream.append(dict(zip(in_keys, cells), zz=_mk_col('list', ZZ, pos, r)))
      pos += r
  want = list(range(pos))
  in_class = bool(a) and nbad > 0
  cnt.add('bad_record_checks')
  for bk in sorted({r for r in recs if isinstance(r, str)}):
    name = 'selection_error' if bk.startswith('selection_error') else bk
    cnt.add(f'bad_record_{name}_checks')

  def report(which, symptom, detail, audited=False):
    if which == 'twin':
      mech = f'ignored-error-without-fn-batch-size:{symptom}'
    else:
      mech = MECH_TRUNC if (in_class and audited) else f'ignored-error-in-rebatcher:{symptom}'
    _violation(ctx, 'ignored_error_rebatch', case,
               dict(detail, symptom=symptom, pipeline=which, want_rows=want[:40]), mech)

  for which, aa in (('twin', 0), ('fn_batch_size', a)):
    try:
      out = _run_ignore_error(stream, cols, aa, b, case.get('scalar_keys', False))
    except Exception as e:  # pylint: disable=broad-exception-caught
      report(which, f'raised_{type(e).__name__}', {'error': _error_chain(e)[:3]})
      return
    try:
      rows, symptom, detail = _good_rows(out, cols)
    except Exception as e:  # pylint: disable=broad-exception-caught
      rows, symptom, detail = None, 'bad_output_container', {'error': repr(e)[:200]}
    if rows is None:
      report(which, symptom, dict(detail, emitted=repr(out)[:300]))
      return
    if which == 'twin':
      cnt.add('bad_record_twin_checks')
    if rows != want:
      # The audited symptom: the stream simply ends at the first bad record (the
      # rows waiting in the re-batching buffer are lost with all later ones).
      truncated = (len(rows) < len(want) and rows == want[:len(rows)]
                   and first_bad_rows is not None and len(rows) <= first_bad_rows)
      report(which, 'stream_ends_at_bad_record' if truncated else 'rows_differ',
             {'emitted_rows': rows[:40], 'rows_before_first_bad_record': first_bad_rows,
              'lost': [g for g in want if g not in rows][:20]}, truncated)
      return


_BAD_AB = ((2, 2), (3, 2), (2, 3), (4, 1))


def _run_bad_sweep(ctx, cnt, spec):
  """All record sequences of length 1..maxlen over {1 row, 2 rows, bad}, >= 1 bad."""
  n = 0
  for length in range(1, spec['maxlen'] + 1):
    for seq in itertools.product((1, 2, 'B'), repeat=length):
      if 'B' not in seq:
        continue
      for bi, badkind in enumerate(BAD_KINDS):
        for a, b in _BAD_AB:
          n += 1
          cols = 2 if badkind == 'unequal_columns' else 1 + n % 2
          check_bad_record(ctx, cnt, {
              'api': 'badrec', 'recs': [badkind if r == 'B' else r for r in seq],
              'cols': cols, 'kind': KINDS[n % 3], 'badcol': (n // 2) % cols,
              'a': a, 'b': b, 'scalar_keys': n % 4 == 0})


def _run_bad_random(ctx, cnt, spec):
  rng = random.Random(spec['rseed'] * 67867967 + spec['index'] * 15485867 + 29)
  for _ in range(spec['count']):
    length = rng.randint(1, 12)
    cols = rng.randint(1, 2)
    kinds = [k for k in BAD_KINDS if cols == 2 or k != 'unequal_columns']
    p_bad = rng.choice([0.1, 0.25, 0.5])
    recs = [rng.choice(kinds) if rng.random() < p_bad else rng.randint(1, 5)
            for _ in range(length)]
    if not any(isinstance(r, str) for r in recs):
      recs[rng.randrange(length)] = rng.choice(kinds)
    check_bad_record(ctx, cnt, {
        'api': 'badrec', 'recs': recs, 'cols': cols,
        'kind': rng.choice(['list', 'tuple', 'array', 'mixed']),
        'badcol': rng.randrange(cols), 'a': rng.choice([1, 2, 3, 5, 8]),
        'b': rng.choice([1, 2, 3, 4, 7]), 'scalar_keys': rng.random() < 0.5})


# ---------------------------------------------------------------------------
# Key.Literal inputs of a function that is called with fn_batch_size
# ---------------------------------------------------------------------------


def _mk_literal(lit):
  import numpy as np
  t, ln = lit['type'], lit.get('len', 0)
  if t == 'scalar':
    return 7
  vals = list(range(1, ln + 1))
  if t == 'list':
    return vals
  if t == 'tuple':
    return tuple(vals)
  if t == 'array':
    return np.asarray(vals, dtype=np.int64)
  raise ValueError(t)


def _lit_desc(v):
  import numpy as np
  if isinstance(v, np.ndarray):
    return ['array', v.tolist()]
  if type(v) in (list, tuple):
    return [type(v).__name__, list(v)]
  return [type(v).__name__, v if type(v) is int else repr(v)[:80]]


def _is_resliced(w, value):
  kind, elems = _lit_desc(value)
  wkind, welems = _lit_desc(w)
  if (kind == 'int' or wkind != kind or not elems or not isinstance(welems, list)
      or not welems):
    return False
  return any(all(x == elems[(o + i) % len(elems)] for i, x in enumerate(welems))
             for o in range(len(elems)))


def check_literal(ctx, cnt, case):
  """apply(fn, input_keys=(columns..., Key.Literal(v)), fn_batch_size=a, batch_size=b).

  case: sizes, cols (row columns), kind, lit {'type': scalar|list|tuple|array, 'len'},
  pos (position of the literal among the inputs), kw (inputs passed by keyword), a, b.
  The fn adds OFFSET + sum(literal) to every cell and records the literal it got.
  Oracle: the literal is a constant - the fn receives exactly `v` on every call and
  the emitted stream is the id lists (+ OFFSET + sum(v)) cut by plain Python into
  _chunks(N, b), i.e. what the same pipeline gives without fn_batch_size.
  """
  import numpy as np
  from ml_metrics._src.chainables import transform
  from ml_metrics._src.chainables import tree as tl
  sizes, cols, kind = list(case['sizes']), case['cols'], case['kind']
  a, b, lit, lpos, kw = case['a'], case['b'], case['lit'], case['pos'], case.get('kw')
  n = sum(sizes)
  value = _mk_literal(lit)
  shift = int(np.sum(value))
  batch_len = (lit['type'] != 'scalar' and len(sizes) >= 1
               and all(s == lit['len'] for s in sizes))
  ctx.case(('literal', tuple(sizes), cols, kind, lit['type'], lit.get('len'), lpos,
            bool(kw), a, b), len(sizes) >= 2 and bool(a))
  cnt.add('literal_checks')
  if a:
    cnt.add('literal_fn_batch_checks')
    cnt.add('literal_scalar_checks' if lit['type'] == 'scalar'
            else 'literal_sequence_checks')
    if batch_len:
      cnt.add('literal_batch_length_checks')
  in_class = bool(a)
  cls = 'fn-batch' if a else 'no-fn-batch'
  batches = _mk_batches(sizes, cols, kind)
  in_keys = tuple(f'k{c}' for c in range(cols))
  out_keys = tuple(f'o{c}' for c in range(cols))
  stream = [dict(zip(in_keys, bt), zz=list(range(len(bt[0])))) for bt in batches]
  seen, calls = [], []

  def core(columns, w):
    seen.append(w)
    calls.append([len(c) for c in columns])
    return tuple(_shift(c, OFFSET + int(np.sum(w))) for c in columns)

  keys = list(in_keys)
  keys.insert(lpos, tl.Key.Literal(value))
  if kw:
    names = [f'x{c}' for c in range(cols)]
    names.insert(lpos, 'w')
    input_keys = dict(zip(names, keys))

    def fn(**kwargs):
      return core([kwargs[f'x{c}'] for c in range(cols)], kwargs['w'])
  else:
    input_keys = tuple(keys)

    def fn(*args):
      args = list(args)
      w = args.pop(lpos)
      return core(args, w)

  def report(symptom, detail, audited):
    mech = MECH_LITERAL if (in_class and audited) else f'literal-input-{cls}:{symptom}'
    _violation(ctx, 'literal_input', case,
               dict(detail, symptom=symptom, literal=_lit_desc(value)), mech)

  try:
    t = transform.TreeTransform().apply(fn=fn, input_keys=input_keys,
                                        output_keys=out_keys, fn_batch_size=a,
                                        batch_size=b)
    out = list(t.make().iterate(iter(stream)))
  except Exception as e:  # pylint: disable=broad-exception-caught
    chain = _error_chain(e)
    # The INPUT re-batcher measured / concatenated the constant as if it were a
    # column: it cannot take the length of a scalar, or finds cols + 1 "columns"
    # of which only the one at the literal's position disagrees with the others.
    audited = False
    if lit['type'] == 'scalar':
      audited = (type(e) is TypeError and 'Non sequence type' in str(e)
                 and "<class 'int'>" in str(e))
    elif type(e) is ValueError and 'Hetroegeneous columns' in str(e):
      found = re.search(r'batch_sizes=array\(\[([^\]]*)\]\)', str(e))
      nums = [int(x) for x in re.findall(r'-?\d+', found.group(1))] if found else []
      # (the literal's slot may also carry the remainder of an earlier slice)
      others = [x for i, x in enumerate(nums) if i != lpos]
      audited = (len(nums) == cols + 1 and len(set(others)) == 1
                 and nums[lpos] != others[0])
    report('rebatcher_rejects_literal' if audited else f'raised_{type(e).__name__}',
           {'error': chain[:3]}, audited)
    return
  bad = [w for w in seen if _lit_desc(w) != _lit_desc(value)]
  if bad:
    # Signature of the audited defect: the constant was concatenated once per
    # merged input batch and sliced like a column, so what the fn gets is a
    # run of the literal's elements repeated cyclically, in the same container.
    resliced = all(_is_resliced(w, value) for w in bad)
    report('fn_received_resliced_literal' if resliced else 'fn_received_foreign_value',
           {'received': [_lit_desc(w) for w in bad[:4]], 'calls': len(seen)}, resliced)
    return
  fn_sizes = _chunks(n, a) if a else sizes
  cnt.add('fn_batch_checks')
  if calls != [[s] * cols for s in fn_sizes]:
    report('fn_batch_sizes', {'got': calls[:30], 'want': fn_sizes[:30]}, False)
    return
  sizes_out = _chunks(n, b) if b else fn_sizes
  try:
    for o in out:
      if not isinstance(o, dict) or sorted(o.keys()) != sorted(out_keys):
        report('output_keys', {'got': repr(o)[:200]}, False)
        return
    got = [[_tolist(o[k]) for k in out_keys] for o in out]
  except Exception as e:  # pylint: disable=broad-exception-caught
    report('bad_output_container', {'error': repr(e)[:200]}, False)
    return
  cnt.add('alignment_checks')
  cnt.add('size_checks')
  if got != _expected(sizes_out, cols, kind, None, b, OFFSET + shift):
    if b:
      symptom, detail = _diagnose(got, sizes_out, cols, kind, None, b, OFFSET + shift)
    else:
      symptom, detail = 'passthrough_differs', {
          'got_sizes': [[len(c) for c in bb] for bb in got][:20], 'want': sizes_out}
    report(symptom, detail, False)


_LITERALS = ({'type': 'scalar'}, {'type': 'list', 'len': 2}, {'type': 'list', 'len': 3},
             {'type': 'tuple', 'len': 2}, {'type': 'array', 'len': 2},
             {'type': 'array', 'len': 1}, {'type': 'list', 'len': 0})
_LIT_AB = ((0, 0), (0, 2), (1, 2), (2, 2), (3, 2), (4, 4), (2, 3))


def _run_literal_sweep(ctx, cnt, spec):
  n = 0
  for sizes in _seqs(spec['prefix'], spec['smax'], spec['maxlen']):
    for lit in _LITERALS:
      for a, b in _LIT_AB:
        n += 1
        cols = 1 + n % 2
        check_literal(ctx, cnt, {
            'api': 'literal', 'sizes': sizes, 'cols': cols, 'kind': KINDS[n % 3],
            'lit': lit, 'pos': (n // 2) % (cols + 1), 'kw': n % 5 == 0, 'a': a, 'b': b})


def _run_literal_random(ctx, cnt, spec):
  rng = random.Random(spec['rseed'] * 32452867 + spec['index'] * 982451653 + 31)
  for _ in range(spec['count']):
    r = rng.random()
    ltype = rng.choice(['scalar', 'list', 'list', 'tuple', 'array'])
    if r < 0.35 and ltype != 'scalar':
      # every input batch is exactly as long as the literal
      ln = rng.randint(1, 4)
      sizes = [ln] * rng.randint(1, 8)
    else:
      ln = rng.randint(0, 5)
      sizes = [rng.randint(0, 6) for _ in range(rng.randint(0, 10))]
    a = rng.choice([0, 1, 2, 3, 4, 5, 8, 12])
    b = rng.choice([1, 2, 3, 4, 7, 16] + ([0] if not a else []))
    cols = rng.randint(1, 2)
    lit = {'type': ltype} if ltype == 'scalar' else {'type': ltype, 'len': ln}
    check_literal(ctx, cnt, {
        'api': 'literal', 'sizes': sizes, 'cols': cols,
        'kind': rng.choice(['list', 'tuple', 'array', 'mixed']), 'lit': lit,
        'pos': rng.randint(0, cols), 'kw': rng.random() < 0.25, 'a': a, 'b': b})


# ---------------------------------------------------------------------------
# Ragged input (columns of one input tuple with unequal lengths)
# ---------------------------------------------------------------------------


def _mk_ragged(lens, kind):
  """lens[j][c] = length of column c of input tuple j; ids = M*c + row position."""
  out, pos = [], 0
  for tl in lens:
    out.append(tuple(_mk_col(_col_kind(kind, c), c, pos, l) for c, l in enumerate(tl)))
    pos += max(tl) if tl else 0
  return out


def check_ragged(ctx, cnt, case):
  """Rows of one input tuple cannot line up when its columns differ in length.

  Whatever the library then does, it must not emit a batch whose row i mixes
  different input rows, and it cannot finish normally (all rows conserved in
  equal-length columns is impossible): by design it raises ValueError.
  """
  from ml_metrics._src.utils import iter_utils
  lens, kind, target = case['lens'], case['kind'], case['target']
  cols = len(lens[0])
  ctx.case(('ragged', tuple(map(tuple, lens)), target, kind, case['infer']), True)
  cnt.add('ragged_checks')
  kwargs = {} if case['infer'] else {'num_columns': cols}
  if case.get('pad') is not None:
    kwargs['pad'] = case['pad']
  out, err = [], None
  try:
    for b in iter_utils.rebatched_args(iter(_mk_ragged(lens, kind)), target, **kwargs):
      out.append(b)
      if len(out) > 10000:
        break
  except Exception as e:  # pylint: disable=broad-exception-caught
    err = e
  pad = case.get('pad')
  for j, b in enumerate(out):
    try:
      colsl = [_tolist(c) for c in b]
    except Exception as e:  # pylint: disable=broad-exception-caught
      ctx.violation('bad_output_container', case, {'error': repr(e)[:200]})
      return
    ls = [len(c) for c in colsl]
    if len(set(ls)) > 1:
      ctx.violation('ragged_column_lengths_differ', case, {'batch': j, 'lengths': ls},
                    mechanism='ragged-input-emitted-misaligned')
      return
    for i in range(ls[0] if ls else 0):
      gs = {colsl[c][i] - M * c for c in range(len(colsl))
            if not (pad is not None and colsl[c][i] == pad)}
      if len(gs) > 1:
        ctx.violation('ragged_rows_misaligned', case,
                      {'batch': j, 'row': i, 'cells': [colsl[c][i] for c in range(len(colsl))],
                       'emitted': [[_tolist(c) for c in bb] for bb in out][:6]},
                      mechanism='ragged-input-emitted-misaligned')
        return
  if err is None:
    ctx.violation('ragged_input_accepted', case,
                  {'emitted': [[_tolist(c) for c in bb] for bb in out][:6]},
                  mechanism='ragged-input-accepted')
    return
  cnt.add('ragged_rejected')
  ctx.observe('ragged_error', type(err).__name__)


def _run_ragged_sweep(ctx, cnt, spec):
  """All pairs / triples of 2-column tuples over lengths 0..lmax with a ragged one."""
  lmax, ntup = spec['lmax'], spec['ntup']
  tl = list(itertools.product(range(lmax + 1), repeat=2))
  for lens in itertools.product(tl, repeat=ntup):
    if all(a == b for a, b in lens):
      continue
    for target in spec['targets']:
      r = sum(map(sum, lens)) + target
      kind = KINDS[r % 3]
      check_ragged(ctx, cnt, {'api': 'ragged', 'lens': [list(x) for x in lens],
                              'kind': kind, 'target': target, 'infer': r % 2 == 0,
                              'pad': None if r % 4 < 2 else -1})


def _run_ragged_random(ctx, cnt, spec):
  rng = random.Random(spec['rseed'] * 7368787 + spec['index'] * 611953 + 3)
  for _ in range(spec['count']):
    cols = rng.choice([2, 2, 3, 4])
    n = rng.randint(1, 8)
    smax = rng.choice([2, 4, 9])
    lens = [[s] * cols for s in (rng.randint(0, smax) for _ in range(n))]
    # One ragged tuple, optionally compensated by a later (or earlier) one so the
    # column totals agree again.
    j, c = rng.randrange(n), rng.randrange(cols)
    d = rng.choice([-2, -1, 1, 2])
    if lens[j][c] + d < 0:
      d = -d
    lens[j][c] += d
    if n > 1 and rng.random() < 0.6:
      j2 = rng.choice([x for x in range(n) if x != j])
      if lens[j2][c] - d >= 0:
        lens[j2][c] -= d
      else:
        for c2 in range(cols):
          if c2 != c:
            lens[j2][c2] += d
    total = sum(max(t) for t in lens)
    target = rng.choice([rng.randint(1, 8), max(1, total), max(1, total + 1),
                         rng.randint(1, 30)])
    check_ragged(ctx, cnt, {'api': 'ragged', 'lens': lens,
                            'kind': rng.choice(['list', 'tuple', 'array', 'mixed']),
                            'target': target, 'infer': rng.random() < 0.5,
                            'pad': rng.choice([None, None, -1])})


# ---------------------------------------------------------------------------
# Plan / entry points
# ---------------------------------------------------------------------------


def plan(tier, seed):
  specs = []
  thorough = tier == 'thorough'
  if thorough:
    # length 6 with the parity rotation, split by the first two sizes.
    for p in itertools.product(range(7), repeat=2):
      specs.append({'mode': 'sweep', 'length': 6, 'prefix': list(p), 'full': 2})
  # length 5: split by the first two sizes (49 chunks).
  for p in itertools.product(range(7), repeat=2):
    specs.append({'mode': 'sweep', 'length': 5, 'prefix': list(p),
                  'full': True if thorough else 1})
  for p in range(7):
    specs.append({'mode': 'sweep', 'length': 4, 'prefix': [p], 'full': True})
  specs.append({'mode': 'sweep_small', 'full': True})
  # pipelines
  smax, maxlen = (5, 4) if thorough else (4, 3)
  specs.append({'mode': 'pipe', 'prefix': None, 'smax': smax, 'maxlen': maxlen})
  if thorough:
    for p in itertools.product(range(smax + 1), repeat=2):
      specs.append({'mode': 'pipe', 'prefix': list(p), 'smax': smax, 'maxlen': maxlen})
    for p in range(smax + 1):
      specs.append({'mode': 'pipe', 'prefix': [p], 'smax': smax, 'maxlen': 1})
  else:
    for p in range(smax + 1):
      specs.append({'mode': 'pipe', 'prefix': [p], 'smax': smax, 'maxlen': maxlen})
  specs.append({'mode': 'batch', 'rows_max': 40 if thorough else 16,
                'n_max': 12 if thorough else 8})
  specs.append({'mode': 'ragged_sweep', 'lmax': 3, 'ntup': 2,
                'targets': list(range(1, 9))})
  specs.append({'mode': 'ragged_sweep', 'lmax': 2, 'ntup': 3,
                'targets': list(range(1, 8))})
  if thorough:
    specs.append({'mode': 'ragged_sweep', 'lmax': 4, 'ntup': 3,
                  'targets': list(range(1, 14))})
  # several outputs into one output key (default SELF / one named key)
  msmax, mmaxlen = (4, 4) if thorough else (3, 3)
  multi = [{'mode': 'multi', 'prefix': None, 'smax': msmax, 'maxlen': mmaxlen}]
  for p in range(msmax + 1):
    multi.append({'mode': 'multi', 'prefix': [p], 'smax': msmax, 'maxlen': mmaxlen})
  # threaded re-batching over a plain iterable, iterate_fn(multithread=True)
  threaded = [{'mode': 'threaded', 'threads': t, 'rows_max': 24 if thorough else 9,
               'n_max': 6 if thorough else 4} for t in (1, 2, 3)]
  nthr = 12 if thorough else 2
  for i in range(nthr):
    multi.append({'mode': 'multi_random', 'rseed': seed, 'index': i,
                  'count': 4000 if thorough else 400})
    threaded.append({'mode': 'threaded_random', 'rseed': seed, 'index': i,
                     'count': 1500 if thorough else 120})
    threaded.append({'mode': 'iterate_fn', 'rseed': seed, 'index': i,
                     'count': 1500 if thorough else 100})
  # second widening: assign with batch_size, bad records under ignore_error with
  # fn_batch_size, Literal inputs with fn_batch_size
  wsmax, wmaxlen = (4, 4) if thorough else (3, 3)
  widened = []
  for mode in ('assign', 'literal'):
    widened.append({'mode': mode, 'prefix': None, 'smax': wsmax, 'maxlen': wmaxlen})
    for p in range(wsmax + 1):
      widened.append({'mode': mode, 'prefix': [p], 'smax': wsmax, 'maxlen': wmaxlen})
  widened.append({'mode': 'badrec', 'maxlen': 5 if thorough else 4})
  for i in range(8 if thorough else 1):
    for mode, count in (('assign_random', 500), ('badrec_random', 400),
                        ('literal_random', 500)):
      widened.append({'mode': mode, 'rseed': seed, 'index': i,
                      'count': count * (8 if thorough else 1)})
  # third widening (vlib/c19w3.py): assign with SELF / literal / nested inputs, also
  # under ignore_error; ignorable errors that have to cross a re-batcher
  widened.extend(c19w3.plan(tier, seed))
  # fourth widening (vlib/c19w4.py): select of Key.Literal inputs with batch_size
  widened.extend(c19w4.plan(tier, seed))
  # Started first: the sleeping / barrier cases need wall time, not CPU, and the
  # first witnesses of a run then cover every widened input class.
  first = [threaded[1], threaded[-1], multi[2]] + [
      next(w for w in widened if w['mode'] == mode and w.get('prefix', [1]) == [1])
      for mode in ('assign', 'badrec', 'literal')]
  rest = [x for x in threaded + multi + widened if not any(x is f for f in first)]
  specs = first + rest + specs
  nrand = 48 if thorough else 4
  for i in range(nrand):
    specs.append({'mode': 'ragged_random', 'rseed': seed, 'index': i,
                  'count': 20000 if thorough else 1500})
    specs.append({'mode': 'direct_random', 'rseed': seed, 'index': i,
                  'count': 20000 if thorough else 1200})
    specs.append({'mode': 'pipe_random', 'rseed': seed, 'index': i,
                  'count': 8000 if thorough else 500})
  return specs


def run_chunk(ctx, spec):
  cnt = _Counts()
  mode = spec['mode']
  try:
    if mode == 'sweep':
      _run_sweep(ctx, cnt, spec)
    elif mode == 'sweep_small':
      # lengths 0..3 fully crossed, plus 2-D arrays and per-column mixed kinds.
      for length in range(0, 4):
        _run_sweep(ctx, cnt, {'length': length, 'prefix': [], 'full': True})
        _run_sweep(ctx, cnt, {'length': length, 'prefix': [], 'full': True,
                              'kinds': ['array2d', 'mixed'], 'cols': [1, 3]})
      # pass-through (target 0)
      for length in range(0, 3):
        _run_sweep(ctx, cnt, {'length': length, 'prefix': [], 'full': True,
                              'targets': [0], 'smax': 3})
    elif mode == 'pipe':
      _run_pipe_sweep(ctx, cnt, spec)
    elif mode == 'batch':
      _run_batch_sweep(ctx, cnt, spec)
    elif mode == 'direct_random':
      _run_direct_random(ctx, cnt, spec)
    elif mode == 'pipe_random':
      _run_pipe_random(ctx, cnt, spec)
    elif mode == 'multi':
      _run_multi_sweep(ctx, cnt, spec)
    elif mode == 'multi_random':
      _run_multi_random(ctx, cnt, spec)
    elif mode == 'threaded':
      _run_threaded_sweep(ctx, cnt, spec)
    elif mode == 'threaded_random':
      _run_threaded_random(ctx, cnt, spec)
    elif mode == 'iterate_fn':
      _run_iterate_fn(ctx, cnt, spec)
    elif mode == 'assign':
      _run_assign_sweep(ctx, cnt, spec)
    elif mode == 'assign_random':
      _run_assign_random(ctx, cnt, spec)
    elif mode == 'badrec':
      _run_bad_sweep(ctx, cnt, spec)
    elif mode == 'badrec_random':
      _run_bad_random(ctx, cnt, spec)
    elif mode == 'literal':
      _run_literal_sweep(ctx, cnt, spec)
    elif mode == 'literal_random':
      _run_literal_random(ctx, cnt, spec)
    elif mode.startswith('w3_'):
      c19w3.run_chunk(ctx, cnt, spec)
    elif mode.startswith('w4_'):
      c19w4.run_chunk(ctx, cnt, spec)
    elif mode == 'ragged_sweep':
      _run_ragged_sweep(ctx, cnt, spec)
    elif mode == 'ragged_random':
      _run_ragged_random(ctx, cnt, spec)
    else:
      raise ValueError(mode)
  finally:
    cnt.flush(ctx)
  if ctx.evaluations and not ctx.samples:
    ctx.sample({k: v for k, v in spec.items() if k not in ('tier', 'seed')})


def run_case(ctx, case):
  cnt = _Counts()
  try:
    api = case.get('api', 'direct')
    if api == 'direct':
      check_direct(ctx, cnt, case)
    elif api == 'batch':
      check_batch(ctx, cnt, case)
    elif api == 'rowchange':
      check_rowchange(ctx, cnt, case)
    elif api == 'ragged':
      check_ragged(ctx, cnt, case)
    elif api == 'multi_out':
      check_multi_out(ctx, cnt, case)
    elif api == 'threaded':
      check_threaded(ctx, cnt, case)
    elif api == 'iterate_fn':
      check_iterate_fn(ctx, cnt, case)
    elif api == 'assign':
      check_assign(ctx, cnt, case)
    elif api == 'badrec':
      check_bad_record(ctx, cnt, case)
    elif api == 'literal':
      check_literal(ctx, cnt, case)
    elif api in ('assign_w3', 'skiperr'):
      c19w3.run_case(ctx, cnt, case)
    elif api == 'litsel':
      c19w4.run_case(ctx, cnt, case)
    else:
      check_pipeline(ctx, cnt, case)
  finally:
    cnt.flush(ctx)
