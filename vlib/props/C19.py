"""C19 - Re-batching conserves rows, order and column alignment.

Code under test: `iter_utils.rebatched_args` (+ `_concat`, `_pad`, `_batch_size`) called
directly and through `TreeFn._iterate` (`TreeTransform.apply(fn_batch_size=, batch_size=)`,
`.select(..., batch_size=)`, `.batch(n)`).

Oracle: plain Python. Every cell of every column carries a unique id
(value = 100000 * column + global row index), so the expected output of a re-batching
to target `t` of a stream with N rows is, for every column, the id list cut into
`[t] * (N // t) + [N % t]` (the last one padded when `pad` is given). Every case is a
literal (sizes, columns, container kind, target, pad, infer / api parameters) dict, so
replay is exact.
"""

from __future__ import annotations

import itertools
import random

ID = 'C19'
LEVEL = 'exploration'
RULE = (
    'a case is (size sequence, #columns, container kind, target, pad, num_columns '
    'given|inferred) for rebatched_args called directly, or (size sequence, #columns, '
    'kind, fn_batch_size, batch_size) / (rows, n) for apply / select / batch pipelines. '
    'quick: ALL size sequences of length <= 5 over sizes 0..6 x targets 1..7 x 1..3 '
    'columns x {list, tuple, ndarray}; for length <= 4 every such case runs with pad in '
    '{None, -1} x num_columns {given, inferred}; for length 5 every case runs ONE of '
    'these four (pad, infer) settings, rotating with (sum(sizes)+target+columns) mod 4 '
    '(pruned for the 60 s budget: pad only acts in the final flush, inference only at '
    'the stream head, and every carry-over state is already reached by length <= 4); '
    'plus 2-D arrays and per-column mixed '
    'kinds for length <= 3, pipelines over all sequences of length <= 3 over sizes 0..4, '
    'and seeded random longer streams. thorough: length <= 5 fully crossed, length 6 with '
    'two of the four (pad, infer) settings per case (both pad values, both inference '
    'modes), random sequences to length 40 / sizes to 50. non-trivial = >= 2 '
    'input batches and some size != target; distinct = (api, size sequence, target) '
    '(column/kind/pad/infer variants of one (sequence, target) are counted as '
    'evaluations, not as distinct cases)')
ASSUMPTIONS = [
    'the stream is passed as an iterator (the signature says Iterator; a list is '
    'double-counted by the num_columns inference and is not generated)',
    'all columns of one input batch have equal length and every batch has the same '
    'number of columns; for input tuples whose columns differ in length (ragged '
    'sub-check) the only demands are: no emitted batch has columns of unequal length or '
    'a row mixing different input rows, and the stream does not finish normally (the '
    'library raises ValueError by design)',
    'one container kind per column for the whole stream (list, tuple, 1-D int64 ndarray, '
    '2-D int64 ndarray); _concat takes the kind of the first buffered batch',
    'input batches of size 0 inside a stream are treated as valid input (nothing in the '
    'docs or tests excludes them and the code accepts them); empty ndarray batches are '
    'created with the column dtype (np.array([]) would be float64 and promote the column)',
    'pad values are ints (-1 as in the upstream tests, 0 in random cases)',
    'pipelines: the applied fn returns a tuple of columns (a bare tuple-typed column as a '
    'single output is ambiguous with multiple outputs by documented convention and is not '
    'generated); fn_batch_size > 0 only together with batch_size > 0 (constructor '
    'contract); batch_size=0 means pass-through',
    'Assign (assign(..., batch_size=)) is not exercised: its outputs are zipped with the '
    'input batches and therefore must keep the input partition',
]
REQUIRED = ['direct_checks', 'concat_checks', 'size_checks', 'alignment_checks',
            'pad_checks', 'infer_checks', 'given_columns_checks',
            'empty_stream_checks', 'zero_size_batch_checks', 'passthrough_checks',
            'apply_checks', 'fn_batch_checks', 'select_checks', 'batch_checks', 'rowchange_checks',
            'input_unchanged_checks', 'ragged_checks', 'ragged_rejected']
EXHAUSTIVE = {'quick': True, 'thorough': True}
CHUNK_TIMEOUT_S = {'quick': 240, 'thorough': 3000}

M = 100000          # column id stride
KINDS = ('list', 'tuple', 'array')
OFFSET = 5000000    # added by the pipeline fn, proves the fn was applied

MECH_EMPTY = 'rebatch-empty-stream-inferred-columns'
MECH_PAD2D = 'rebatch-pad-2d-array-pads-all-axes'


# ---------------------------------------------------------------------------
# Input construction and the oracle
# ---------------------------------------------------------------------------


def _col_kind(kind, col):
  return KINDS[col % 3] if kind == 'mixed' else kind


def _mk_col(kind, col, start, size, offset=0):
  import numpy as np
  lo = M * col + start + offset
  if kind == 'list':
    return list(range(lo, lo + size))
  if kind == 'tuple':
    return tuple(range(lo, lo + size))
  a = np.arange(lo, lo + size, dtype=np.int64)
  if kind == 'array':
    return a
  if kind == 'array2d':
    return np.stack([a, -a - 1], axis=1)
  raise ValueError(kind)


def _mk_batches(sizes, cols, kind):
  out, pos = [], 0
  for s in sizes:
    out.append(tuple(_mk_col(_col_kind(kind, c), c, pos, s) for c in range(cols)))
    pos += s
  return out


def _tolist(x):
  import numpy as np
  if type(x) is list:
    return x
  if type(x) is tuple:
    return list(x)
  if isinstance(x, np.ndarray):
    return x.tolist()
  raise TypeError(f'unexpected column container {type(x).__name__}')


def _cell(kind, v):
  return [v, -v - 1] if kind == 'array2d' else v


def _padcell(kind, pad):
  return [pad, pad] if kind == 'array2d' else pad


def _chunks(n, t):
  """Sizes of the batches that n rows cut to target t must have."""
  return [t] * (n // t) + ([n % t] if n % t else [])


def _expected(sizes_out, cols, kind, pad, target, offset=0):
  """Expected output as nested lists: [batch][column] -> list of cells."""
  exp, pos = [], 0
  for j, s in enumerate(sizes_out):
    b = []
    for c in range(cols):
      k = _col_kind(kind, c)
      col = [_cell(k, v) for v in range(M * c + pos + offset, M * c + pos + s + offset)]
      if pad is not None and j == len(sizes_out) - 1 and s < target:
        col = col + [_padcell(k, pad)] * (target - s)
      b.append(col)
    exp.append(b)
    pos += s
  return exp


def _diagnose(got, sizes_out, cols, kind, pad, target, offset=0):
  """Names the violated clause. `got` is [batch][column] -> list."""
  n = sum(sizes_out)
  for j, b in enumerate(got):
    if len(b) != cols:
      return 'column_count', {'batch': j, 'got': len(b), 'want': cols}
    ls = [len(c) for c in b]
    if len(set(ls)) > 1:
      return 'column_lengths_differ', {'batch': j, 'lengths': ls}
  lens = [len(b[0]) for b in got]
  if any(l == 0 for l in lens):
    return 'empty_batch', {'sizes': lens}
  for j, l in enumerate(lens[:-1]):
    if l != target:
      return 'non_final_batch_size', {'batch': j, 'sizes': lens, 'target': target}
  if lens and lens[-1] > target:
    return 'final_batch_too_large', {'sizes': lens, 'target': target}
  # Row conservation (pad tail of the last batch removed first).
  for c in range(cols):
    k = _col_kind(kind, c)
    flat = list(itertools.chain.from_iterable(b[c] for b in got))
    want = [_cell(k, v) for v in range(M * c + offset, M * c + offset + n)]
    if pad is not None and len(flat) > n:
      tail = flat[n:]
      flat = flat[:n]
      if flat == want:
        if tail != [_padcell(k, pad)] * len(tail) or (len(want) + len(tail)) % target:
          return 'pad_tail', {'column': c, 'tail': tail[:8], 'pad': pad,
                              'sizes': lens}
    if flat != want:
      return 'rows_not_conserved', {'column': c, 'got': flat[:40], 'want': want[:40],
                                    'sizes': lens}
  if pad is not None and lens and lens[-1] != target:
    return 'final_batch_not_padded', {'sizes': lens, 'target': target}
  if pad is None and lens != sizes_out:
    return 'batch_sizes', {'sizes': lens, 'want': sizes_out}
  return 'output_differs', {'sizes': lens, 'want': sizes_out}


class _Counts(dict):

  def add(self, name, n=1):
    self[name] = self.get(name, 0) + n

  def flush(self, ctx):
    for k, v in self.items():
      ctx.count(k, v)
    self.clear()


def _shape_of(out):
  try:
    return [[getattr(c, 'shape', None) or len(c) for c in b] for b in out][:6]
  except Exception:  # pylint: disable=broad-exception-caught
    return repr(out)[:200]


# ---------------------------------------------------------------------------
# Direct rebatched_args
# ---------------------------------------------------------------------------


def _direct_one(ctx, cnt, case, batches):
  """Runs one direct case; `batches` are the prepared input batches."""
  from ml_metrics._src.utils import iter_utils
  sizes, cols, kind = case['sizes'], case['cols'], case['kind']
  target, pad, infer = case['target'], case['pad'], case['infer']
  n = sum(sizes)
  cnt.add('direct_checks')
  kwargs = {}
  if not infer:
    kwargs['num_columns'] = cols
    cnt.add('given_columns_checks')
  else:
    cnt.add('infer_checks')
  if pad is not None:
    kwargs['pad'] = pad
  if not sizes:
    cnt.add('empty_stream_checks')
  if 0 in sizes:
    cnt.add('zero_size_batch_checks')
  if target == 0:
    cnt.add('passthrough_checks')
    sizes_out, pad_eff = list(sizes), None
  else:
    sizes_out, pad_eff = _chunks(n, target), pad
  try:
    out = list(iter_utils.rebatched_args(iter(batches), target, **kwargs))
  except Exception as e:  # pylint: disable=broad-exception-caught
    mech = MECH_EMPTY if (not sizes and infer and target) else None
    ctx.violation('raised', case, {'error': f'{type(e).__name__}: {e}'[:300],
                                   'want_sizes': sizes_out}, mechanism=mech)
    return
  try:
    got = [[_tolist(c) for c in b] for b in out]
  except Exception as e:  # pylint: disable=broad-exception-caught
    ctx.violation('bad_output_container', case, {'error': repr(e)[:200]})
    return
  cnt.add('concat_checks')
  cnt.add('size_checks')
  cnt.add('alignment_checks')
  if pad_eff is not None:
    cnt.add('pad_checks')
  if got == _expected(sizes_out, cols, kind, pad_eff, target):
    return
  kind_, detail = _diagnose(got, sizes_out, cols, kind, pad_eff, target)
  mech = None
  if (pad_eff is not None and n % target and
      any(_col_kind(kind, c) == 'array2d' for c in range(cols))):
    # Only when everything but the padded final batch is right.
    head_ok = (got[:-1] == _expected(sizes_out, cols, kind, None, target)[:-1]
               and len(got) == len(sizes_out))
    if head_ok:
      mech = MECH_PAD2D
      detail = dict(detail, output_shapes=_shape_of(out))
  ctx.violation(kind_, case, detail, mechanism=mech)


_ALL_VARIANTS = ((None, True), (-1, False), (None, False), (-1, True))


def _variants(length, sizes, target, cols, full):
  """(pad, infer) settings to run. full: True = all 4, 2 / 1 = rotation."""
  if full is True:
    return _ALL_VARIANTS
  r = sum(sizes) + target + cols
  if full == 2:
    p = r % 2 == 0
    return ((None, p), (-1, not p))
  return (_ALL_VARIANTS[r % 4],)


def _check_inputs_unchanged(ctx, cnt, sizes, cols, kind, batches):
  cnt.add('input_unchanged_checks')
  try:
    got = [[_tolist(c) for c in b] for b in batches]
  except Exception:  # pylint: disable=broad-exception-caught
    got = None
  if got != _expected(list(sizes), cols, kind, None, 0):
    ctx.violation('input_mutated', {'api': 'direct', 'sizes': list(sizes),
                                    'cols': cols, 'kind': kind, 'target': 3,
                                    'pad': -1, 'infer': False},
                  {'note': 'input batches changed after re-batching'})


def _sweep_sequence(ctx, cnt, sizes, targets, col_range, kinds, full):
  sizes = list(sizes)
  per_target = {t: 0 for t in targets}
  for cols in col_range:
    for kind in kinds:
      batches = _mk_batches(sizes, cols, kind)
      for t in targets:
        for pad, infer in _variants(len(sizes), sizes, t, cols, full):
          _direct_one(ctx, cnt, {'api': 'direct', 'sizes': sizes, 'cols': cols,
                                 'kind': kind, 'target': t, 'pad': pad,
                                 'infer': infer}, batches)
          per_target[t] += 1
      _check_inputs_unchanged(ctx, cnt, sizes, cols, kind, batches)
  for t, k in per_target.items():
    ctx.case(('direct', tuple(sizes), t),
             len(sizes) >= 2 and any(s != t for s in sizes), n=k)


def _run_sweep(ctx, cnt, spec):
  length, prefix = spec['length'], spec['prefix']
  smax = spec.get('smax', 6)
  targets = spec.get('targets', list(range(1, 8)))
  kinds = spec.get('kinds', list(KINDS))
  col_range = spec.get('cols', [1, 2, 3])
  rest = length - len(prefix)
  for tail in itertools.product(range(smax + 1), repeat=rest):
    _sweep_sequence(ctx, cnt, list(prefix) + list(tail), targets, col_range,
                    kinds, spec['full'])


def _run_direct_random(ctx, cnt, spec):
  rng = random.Random(spec['rseed'] * 1000003 + spec['index'] * 7919 + 19)
  big = spec['tier'] == 'thorough'
  for _ in range(spec['count']):
    length = rng.choice([rng.randint(0, 8), rng.randint(0, 40 if big else 16)])
    smax = rng.choice([3, 8, 50 if big else 20])
    zero_p = rng.choice([0.0, 0.15, 0.5])
    sizes = [0 if rng.random() < zero_p else rng.randint(0, smax)
             for _ in range(length)]
    target = rng.choice([rng.randint(1, 8), rng.randint(1, 60 if big else 24),
                         max(1, sum(sizes)), max(1, sum(sizes) + rng.randint(-1, 1))])
    if rng.random() < 0.04:
      target = 0
    cols = rng.randint(1, 3) if rng.random() < 0.85 else rng.randint(4, 6)
    kind = rng.choice(['list', 'tuple', 'array', 'array', 'array2d', 'mixed'])
    pad = rng.choice([None, None, -1, 0])
    case = {'api': 'direct', 'sizes': sizes, 'cols': cols, 'kind': kind,
            'target': target, 'pad': pad, 'infer': rng.random() < 0.5}
    check_direct(ctx, cnt, case)


def check_direct(ctx, cnt, case):
  sizes = case['sizes']
  batches = _mk_batches(sizes, case['cols'], case['kind'])
  ctx.case(('direct', tuple(sizes), case['target'], case['cols'], case['kind'],
            case['pad'], case['infer']),
           len(sizes) >= 2 and any(s != case['target'] for s in sizes))
  _direct_one(ctx, cnt, case, batches)
  _check_inputs_unchanged(ctx, cnt, sizes, case['cols'], case['kind'], batches)


# ---------------------------------------------------------------------------
# Pipelines
# ---------------------------------------------------------------------------


def _pipe_kind_ok(api, kind, cols):
  if kind == 'tuple' and api == 'apply_self':
    return False
  return True


def _add_offset(col):
  import numpy as np
  if isinstance(col, np.ndarray):
    return col + OFFSET
  if type(col) is tuple:
    return tuple(v + OFFSET for v in col)
  return [v + OFFSET for v in col]


def check_pipeline(ctx, cnt, case):
  """case: api in {'apply', 'apply_self', 'select'}; sizes, cols, kind, a, b."""
  from ml_metrics._src.chainables import transform
  api, sizes, cols, kind = case['api'], case['sizes'], case['cols'], case['kind']
  a, b = case.get('a', 0), case['b']
  n = sum(sizes)
  ctx.case((api, tuple(sizes), cols, kind, a, b, case.get('scalar_keys', False)),
           len(sizes) >= 2 and any(s != (b or a) for s in sizes))
  batches = _mk_batches(sizes, cols, kind)
  in_keys = tuple(f'k{c}' for c in range(cols))
  out_keys = tuple(f'o{c}' for c in range(cols))
  calls = []
  offset = 0
  try:
    if api == 'apply':
      stream = [dict(zip(in_keys, bt), zz=list(range(len(bt[0])))) for bt in batches]
      offset = OFFSET

      def fn(*columns):
        calls.append([len(c) for c in columns])
        return tuple(_add_offset(c) for c in columns)

      ik, ok = in_keys, out_keys
      if cols == 1 and case.get('scalar_keys'):
        ik, ok = in_keys[0], out_keys[0]
      t = transform.TreeTransform().apply(
          fn=fn, input_keys=ik, output_keys=ok, fn_batch_size=a, batch_size=b)
      res_keys = out_keys
    elif api == 'apply_self':
      stream = [bt[0] for bt in batches]
      offset = OFFSET

      def fn(column):
        calls.append([len(column)])
        return _add_offset(column)

      t = transform.TreeTransform().apply(fn=fn, fn_batch_size=a, batch_size=b)
      res_keys = None
    elif api == 'select':
      stream = [dict(zip(in_keys, bt), zz=list(range(len(bt[0])))) for bt in batches]
      keys = in_keys
      if cols == 1 and case.get('scalar_keys'):
        keys = in_keys[0]
      t = transform.TreeTransform().select(keys, batch_size=b)
      res_keys = in_keys
    else:
      raise ValueError(api)
    out = list(t.make().iterate(iter(stream)))
  except Exception as e:  # pylint: disable=broad-exception-caught
    ctx.violation('raised', case, {'error': f'{type(e).__name__}: {e}'[:400]})
    return
  cnt.add('select_checks' if api == 'select' else 'apply_checks')
  if not sizes:
    cnt.add('empty_stream_checks')
  if 0 in sizes:
    cnt.add('zero_size_batch_checks')
  fn_sizes = _chunks(n, a) if a else list(sizes)
  if api != 'select':
    cnt.add('fn_batch_checks')
    want_calls = [[s] * cols for s in fn_sizes]
    if calls != want_calls:
      ctx.violation('fn_batch_sizes', case, {'got': calls[:30], 'want': want_calls[:30]})
      return
  if b:
    sizes_out = _chunks(n, b)
  else:
    cnt.add('passthrough_checks')
    sizes_out = fn_sizes
  try:
    if res_keys is None:
      got = [[_tolist(o)] for o in out]
    else:
      for o in out:
        if not isinstance(o, dict) or sorted(o.keys()) != sorted(res_keys):
          ctx.violation('output_keys', case,
                        {'got': repr(o)[:200], 'want_keys': list(res_keys)})
          return
      got = [[_tolist(o[k]) for k in res_keys] for o in out]
  except Exception as e:  # pylint: disable=broad-exception-caught
    ctx.violation('bad_output_container', case, {'error': repr(e)[:200],
                                                 'out': repr(out)[:300]})
    return
  cnt.add('concat_checks')
  cnt.add('size_checks')
  cnt.add('alignment_checks')
  if got != _expected(sizes_out, cols, kind, None, b, offset):
    if b:
      kind_, detail = _diagnose(got, sizes_out, cols, kind, None, b, offset)
    else:
      kind_, detail = 'passthrough_differs', {
          'got_sizes': [[len(c) for c in bb] for bb in got][:20], 'want': sizes_out}
    ctx.violation(kind_, case, detail)



def check_rowchange(ctx, cnt, case):
  """apply(fn_batch_size=a, batch_size=b) with a fn that changes the row count.

  The fn is element-wise ('drop': keeps values with v % 3 != 0, 'dup': every row
  twice), so the concatenation of its outputs does not depend on how the inputs
  were grouped; the emitted stream must be that concatenation re-batched to b.
  """
  from ml_metrics._src.chainables import transform
  sizes, a, b, mode = case['sizes'], case['a'], case['b'], case['fnkind']
  ctx.case(('rowchange', tuple(sizes), a, b, mode), len(sizes) >= 2)
  rows, batches = [], []
  for sz in sizes:
    batches.append(list(range(len(rows), len(rows) + sz)))
    rows.extend(batches[-1])

  def fn(column):
    if mode == 'drop':
      return [v for v in column if v % 3 != 0]
    return [w for v in column for w in (v, v + M)]

  flat = fn(rows)
  try:
    t = transform.TreeTransform().apply(fn=fn, fn_batch_size=a, batch_size=b)
    out = [list(o) for o in t.make().iterate(iter(batches))]
  except Exception as e:  # pylint: disable=broad-exception-caught
    ctx.violation('raised', case, {'error': f'{type(e).__name__}: {e}'[:400]})
    return
  cnt.add('rowchange_checks')
  got_flat = [v for o in out for v in o]
  if got_flat != flat:
    ctx.violation('rowchange_rows_differ', case, {'got': got_flat[:40], 'want': flat[:40]})
    return
  if b:
    want_sizes = _chunks(len(flat), b)
    got_sizes = [len(o) for o in out]
    if got_sizes != want_sizes:
      ctx.violation('rowchange_batch_sizes', case,
                    {'got_sizes': got_sizes[:30], 'want_sizes': want_sizes[:30]})


def check_batch(ctx, cnt, case):
  """case: api='batch', rows N, n (batch size), cols (0 = bare scalars)."""
  from ml_metrics._src.chainables import transform
  rows, n, cols = case['rows'], case['n'], case['cols']
  ctx.case(('batch', rows, n, cols), rows >= 2 and n != 1)
  keys = tuple(f'k{c}' for c in range(cols))
  try:
    if cols == 0:
      stream = [M * 0 + g for g in range(rows)]
      t = transform.TreeTransform().batch(n)
    else:
      stream = [dict({k: M * c + g for c, k in enumerate(keys)}, zz=-g)
                for g in range(rows)]
      sel = keys[0] if (cols == 1 and case.get('scalar_keys')) else keys
      t = transform.TreeTransform().select(sel).batch(n)
    out = list(t.make().iterate(iter(stream)))
  except Exception as e:  # pylint: disable=broad-exception-caught
    ctx.violation('raised', case, {'error': f'{type(e).__name__}: {e}'[:400]})
    return
  cnt.add('batch_checks')
  cnt.add('concat_checks')
  cnt.add('size_checks')
  if not rows:
    cnt.add('empty_stream_checks')
  if n:
    sizes_out = _chunks(rows, n)
  else:
    cnt.add('passthrough_checks')
    sizes_out = [1] * rows
  try:
    if cols == 0:
      got = [[_tolist(o)] for o in out]
    else:
      for o in out:
        if not isinstance(o, dict) or sorted(o.keys()) != sorted(keys):
          ctx.violation('output_keys', case, {'got': repr(o)[:200]})
          return
      got = [[_tolist(o[k]) for k in keys] for o in out]
      cnt.add('alignment_checks')
  except Exception as e:  # pylint: disable=broad-exception-caught
    ctx.violation('bad_output_container', case, {'error': repr(e)[:200],
                                                 'out': repr(out)[:300]})
    return
  c_eff = max(cols, 1)
  if got != _expected(sizes_out, c_eff, 'list', None, n or 1):
    kind_, detail = _diagnose(got, sizes_out, c_eff, 'list', None, n or 1)
    ctx.violation(kind_, case, detail)


_AB_QUICK = [(a, b) for a in (0, 1, 2, 3, 5) for b in (0, 1, 2, 3, 4, 6)
             if not (a and not b)]


def _run_pipe_sweep(ctx, cnt, spec):
  """All sequences with the given prefix, length <= maxlen over sizes 0..smax."""
  smax, maxlen, prefix = spec['smax'], spec['maxlen'], spec['prefix']
  ab = [tuple(x) for x in spec.get('ab') or _AB_QUICK]
  seqs = []
  if prefix is None:
    seqs.append([])
  else:
    for length in range(len(prefix), maxlen + 1):
      for tail in itertools.product(range(smax + 1), repeat=length - len(prefix)):
        seqs.append(list(prefix) + list(tail))
  for sizes in seqs:
    for kind in KINDS:
      for cols in (1, 2):
        for a, b in ab:
          check_pipeline(ctx, cnt, {'api': 'apply', 'sizes': sizes, 'cols': cols,
                                    'kind': kind, 'a': a, 'b': b,
                                    'scalar_keys': (a + b) % 2 == 0})
      if kind != 'tuple':
        for a, b in ab:
          check_pipeline(ctx, cnt, {'api': 'apply_self', 'sizes': sizes, 'cols': 1,
                                    'kind': kind, 'a': a, 'b': b})
      if kind == 'list':
        for a, b in ab:
          if b:
            for fnkind in ('drop', 'dup'):
              check_rowchange(ctx, cnt, {'api': 'rowchange', 'sizes': sizes, 'a': a,
                                         'b': b, 'fnkind': fnkind})
      for cols in (1, 2, 3):
        for b in (0, 1, 2, 3, 4, 6):
          check_pipeline(ctx, cnt, {'api': 'select', 'sizes': sizes, 'cols': cols,
                                    'kind': kind, 'b': b,
                                    'scalar_keys': b % 2 == 0})


def _run_batch_sweep(ctx, cnt, spec):
  for rows in range(0, spec['rows_max'] + 1):
    for n in range(0, spec['n_max'] + 1):
      for cols in (0, 1, 2, 3):
        check_batch(ctx, cnt, {'api': 'batch', 'rows': rows, 'n': n, 'cols': cols,
                               'scalar_keys': (rows + n) % 2 == 0})


def _run_pipe_random(ctx, cnt, spec):
  rng = random.Random(spec['rseed'] * 999983 + spec['index'] * 104729 + 5)
  big = spec['tier'] == 'thorough'
  for _ in range(spec['count']):
    r = rng.random()
    if r < 0.15:
      check_batch(ctx, cnt, {'api': 'batch', 'rows': rng.randint(0, 120 if big else 40),
                             'n': rng.choice([0, 1, 2, 3, 5, 7, 16, 50]),
                             'cols': rng.randint(0, 3),
                             'scalar_keys': rng.random() < 0.5})
      continue
    length = rng.choice([rng.randint(0, 6), rng.randint(0, 40 if big else 12)])
    smax = rng.choice([3, 8, 50 if big else 16])
    zero_p = rng.choice([0.0, 0.15, 0.4])
    sizes = [0 if rng.random() < zero_p else rng.randint(0, smax)
             for _ in range(length)]
    kind = rng.choice(['list', 'tuple', 'array', 'mixed'])
    if r < 0.45:
      case = {'api': 'select', 'sizes': sizes, 'cols': rng.randint(1, 4), 'kind': kind,
              'b': rng.choice([0, 1, 2, 3, 7, 16, 33, 64]),
              'scalar_keys': rng.random() < 0.5}
    else:
      a = rng.choice([0, 0, 1, 2, 3, 5, 8, 17, 40])
      b = rng.choice([1, 2, 3, 4, 7, 16, 33, 64] + ([0] if not a else []))
      api = rng.choice(['apply', 'apply', 'apply_self'])
      if api == 'apply_self':
        case = {'api': api, 'sizes': sizes, 'cols': 1,
                'kind': rng.choice(['list', 'array']), 'a': a, 'b': b}
      else:
        case = {'api': api, 'sizes': sizes, 'cols': rng.randint(1, 4), 'kind': kind,
                'a': a, 'b': b, 'scalar_keys': rng.random() < 0.5}
    check_pipeline(ctx, cnt, case)


# ---------------------------------------------------------------------------
# Ragged input (columns of one input tuple with unequal lengths)
# ---------------------------------------------------------------------------


def _mk_ragged(lens, kind):
  """lens[j][c] = length of column c of input tuple j; ids = M*c + row position."""
  out, pos = [], 0
  for tl in lens:
    out.append(tuple(_mk_col(_col_kind(kind, c), c, pos, l) for c, l in enumerate(tl)))
    pos += max(tl) if tl else 0
  return out


def check_ragged(ctx, cnt, case):
  """Rows of one input tuple cannot line up when its columns differ in length.

  Whatever the library then does, it must not emit a batch whose row i mixes
  different input rows, and it cannot finish normally (all rows conserved in
  equal-length columns is impossible): by design it raises ValueError.
  """
  from ml_metrics._src.utils import iter_utils
  lens, kind, target = case['lens'], case['kind'], case['target']
  cols = len(lens[0])
  ctx.case(('ragged', tuple(map(tuple, lens)), target, kind, case['infer']), True)
  cnt.add('ragged_checks')
  kwargs = {} if case['infer'] else {'num_columns': cols}
  if case.get('pad') is not None:
    kwargs['pad'] = case['pad']
  out, err = [], None
  try:
    for b in iter_utils.rebatched_args(iter(_mk_ragged(lens, kind)), target, **kwargs):
      out.append(b)
      if len(out) > 10000:
        break
  except Exception as e:  # pylint: disable=broad-exception-caught
    err = e
  pad = case.get('pad')
  for j, b in enumerate(out):
    try:
      colsl = [_tolist(c) for c in b]
    except Exception as e:  # pylint: disable=broad-exception-caught
      ctx.violation('bad_output_container', case, {'error': repr(e)[:200]})
      return
    ls = [len(c) for c in colsl]
    if len(set(ls)) > 1:
      ctx.violation('ragged_column_lengths_differ', case, {'batch': j, 'lengths': ls},
                    mechanism='ragged-input-emitted-misaligned')
      return
    for i in range(ls[0] if ls else 0):
      gs = {colsl[c][i] - M * c for c in range(len(colsl))
            if not (pad is not None and colsl[c][i] == pad)}
      if len(gs) > 1:
        ctx.violation('ragged_rows_misaligned', case,
                      {'batch': j, 'row': i, 'cells': [colsl[c][i] for c in range(len(colsl))],
                       'emitted': [[_tolist(c) for c in bb] for bb in out][:6]},
                      mechanism='ragged-input-emitted-misaligned')
        return
  if err is None:
    ctx.violation('ragged_input_accepted', case,
                  {'emitted': [[_tolist(c) for c in bb] for bb in out][:6]},
                  mechanism='ragged-input-accepted')
    return
  cnt.add('ragged_rejected')
  ctx.observe('ragged_error', type(err).__name__)


def _run_ragged_sweep(ctx, cnt, spec):
  """All pairs / triples of 2-column tuples over lengths 0..lmax with a ragged one."""
  lmax, ntup = spec['lmax'], spec['ntup']
  tl = list(itertools.product(range(lmax + 1), repeat=2))
  for lens in itertools.product(tl, repeat=ntup):
    if all(a == b for a, b in lens):
      continue
    for target in spec['targets']:
      r = sum(map(sum, lens)) + target
      kind = KINDS[r % 3]
      check_ragged(ctx, cnt, {'api': 'ragged', 'lens': [list(x) for x in lens],
                              'kind': kind, 'target': target, 'infer': r % 2 == 0,
                              'pad': None if r % 4 < 2 else -1})


def _run_ragged_random(ctx, cnt, spec):
  rng = random.Random(spec['rseed'] * 7368787 + spec['index'] * 611953 + 3)
  for _ in range(spec['count']):
    cols = rng.choice([2, 2, 3, 4])
    n = rng.randint(1, 8)
    smax = rng.choice([2, 4, 9])
    lens = [[s] * cols for s in (rng.randint(0, smax) for _ in range(n))]
    # One ragged tuple, optionally compensated by a later (or earlier) one so the
    # column totals agree again.
    j, c = rng.randrange(n), rng.randrange(cols)
    d = rng.choice([-2, -1, 1, 2])
    if lens[j][c] + d < 0:
      d = -d
    lens[j][c] += d
    if n > 1 and rng.random() < 0.6:
      j2 = rng.choice([x for x in range(n) if x != j])
      if lens[j2][c] - d >= 0:
        lens[j2][c] -= d
      else:
        for c2 in range(cols):
          if c2 != c:
            lens[j2][c2] += d
    total = sum(max(t) for t in lens)
    target = rng.choice([rng.randint(1, 8), max(1, total), max(1, total + 1),
                         rng.randint(1, 30)])
    check_ragged(ctx, cnt, {'api': 'ragged', 'lens': lens,
                            'kind': rng.choice(['list', 'tuple', 'array', 'mixed']),
                            'target': target, 'infer': rng.random() < 0.5,
                            'pad': rng.choice([None, None, -1])})


# ---------------------------------------------------------------------------
# Plan / entry points
# ---------------------------------------------------------------------------


def plan(tier, seed):
  specs = []
  thorough = tier == 'thorough'
  if thorough:
    # length 6 with the parity rotation, split by the first two sizes.
    for p in itertools.product(range(7), repeat=2):
      specs.append({'mode': 'sweep', 'length': 6, 'prefix': list(p), 'full': 2})
  # length 5: split by the first two sizes (49 chunks).
  for p in itertools.product(range(7), repeat=2):
    specs.append({'mode': 'sweep', 'length': 5, 'prefix': list(p),
                  'full': True if thorough else 1})
  for p in range(7):
    specs.append({'mode': 'sweep', 'length': 4, 'prefix': [p], 'full': True})
  specs.append({'mode': 'sweep_small', 'full': True})
  # pipelines
  smax, maxlen = (5, 4) if thorough else (4, 3)
  specs.append({'mode': 'pipe', 'prefix': None, 'smax': smax, 'maxlen': maxlen})
  if thorough:
    for p in itertools.product(range(smax + 1), repeat=2):
      specs.append({'mode': 'pipe', 'prefix': list(p), 'smax': smax, 'maxlen': maxlen})
    for p in range(smax + 1):
      specs.append({'mode': 'pipe', 'prefix': [p], 'smax': smax, 'maxlen': 1})
  else:
    for p in range(smax + 1):
      specs.append({'mode': 'pipe', 'prefix': [p], 'smax': smax, 'maxlen': maxlen})
  specs.append({'mode': 'batch', 'rows_max': 40 if thorough else 16,
                'n_max': 12 if thorough else 8})
  specs.append({'mode': 'ragged_sweep', 'lmax': 3, 'ntup': 2,
                'targets': list(range(1, 9))})
  specs.append({'mode': 'ragged_sweep', 'lmax': 2, 'ntup': 3,
                'targets': list(range(1, 8))})
  if thorough:
    specs.append({'mode': 'ragged_sweep', 'lmax': 4, 'ntup': 3,
                  'targets': list(range(1, 14))})
  nrand = 48 if thorough else 4
  for i in range(nrand):
    specs.append({'mode': 'ragged_random', 'rseed': seed, 'index': i,
                  'count': 20000 if thorough else 1500})
    specs.append({'mode': 'direct_random', 'rseed': seed, 'index': i,
                  'count': 20000 if thorough else 1200})
    specs.append({'mode': 'pipe_random', 'rseed': seed, 'index': i,
                  'count': 8000 if thorough else 500})
  return specs


def run_chunk(ctx, spec):
  cnt = _Counts()
  mode = spec['mode']
  try:
    if mode == 'sweep':
      _run_sweep(ctx, cnt, spec)
    elif mode == 'sweep_small':
      # lengths 0..3 fully crossed, plus 2-D arrays and per-column mixed kinds.
      for length in range(0, 4):
        _run_sweep(ctx, cnt, {'length': length, 'prefix': [], 'full': True})
        _run_sweep(ctx, cnt, {'length': length, 'prefix': [], 'full': True,
                              'kinds': ['array2d', 'mixed'], 'cols': [1, 3]})
      # pass-through (target 0)
      for length in range(0, 3):
        _run_sweep(ctx, cnt, {'length': length, 'prefix': [], 'full': True,
                              'targets': [0], 'smax': 3})
    elif mode == 'pipe':
      _run_pipe_sweep(ctx, cnt, spec)
    elif mode == 'batch':
      _run_batch_sweep(ctx, cnt, spec)
    elif mode == 'direct_random':
      _run_direct_random(ctx, cnt, spec)
    elif mode == 'pipe_random':
      _run_pipe_random(ctx, cnt, spec)
    elif mode == 'ragged_sweep':
      _run_ragged_sweep(ctx, cnt, spec)
    elif mode == 'ragged_random':
      _run_ragged_random(ctx, cnt, spec)
    else:
      raise ValueError(mode)
  finally:
    cnt.flush(ctx)
  if ctx.evaluations and not ctx.samples:
    ctx.sample({k: v for k, v in spec.items() if k not in ('tier', 'seed')})


def run_case(ctx, case):
  cnt = _Counts()
  try:
    api = case.get('api', 'direct')
    if api == 'direct':
      check_direct(ctx, cnt, case)
    elif api == 'batch':
      check_batch(ctx, cnt, case)
    elif api == 'rowchange':
      check_rowchange(ctx, cnt, case)
    elif api == 'ragged':
      check_ragged(ctx, cnt, case)
    else:
      check_pipeline(ctx, cnt, case)
  finally:
    cnt.flush(ctx)
