"""C20 - worker liveness and ownership bookkeeping stays consistent.

Modes:
  registry   E2: fresh WorkerRegistry with a recording dict (mutations logged from
             inside its critical section), 2-4 controlled threads.  Scenario
             'heartbeat_delivery': the pushed notices heartbeat(alive)* /
             heartbeat(dead) of 1-2 workers (1-2 incarnations each, numbered in
             send order) are delivered to a host CourierServer._heartbeat by 2-4
             handler threads in an arbitrary order.
  liveness   reference-model monitor: a fresh CourierClient with stub transport
             futures and a controllable clock; random histories of calls, late
             completions, unregister/register, clock advances; is_alive is
             compared with a 10-line model at every query.
  ownership  E2: 2-3 pools x 2-4 workers, acquire/release operations with
             pre-emption between check and act; belief-based ownership log.
             Scenario 'blocking': rounds of blocking acquires (acquire_by /
             _acquire_all with blocking=True) against owners that use and then
             release their workers; every pool holds nothing when it starts to
             wait (or waits in worker order), so a correct implementation cannot
             dead-lock: an exact deadlock witness is the verdict.
             Scenario 'run_siblings': 2-3 threads of one pool each in
             WorkerPool.run() (stub transport whose futures a controlled
             "remote" thread completes) while 1-2 other pools probe
             acquire_by / release(pool) (or call run() themselves) on the
             shared workers.
  poolops    E4: pool-level operations over the simulated transport must leave
             no worker acquired when they return or raise.  Pools may list
             workers that are absent / have exited / are busy with an in-flight
             call of another user; call_and_wait may get an unpicklable argument;
             'as_completed_contended': a second pool sharing the Worker objects
             probes acquire_by while the first pool's as_completed is running.

Ownership is exclusive per SERVER ADDRESS: the ownership scenarios (E2 basic
scenario and the E4 'cross_pool' operation) also build pools that differ in a
client setting (call_timeout / max_parallelism / heartbeat_threshold_secs /
iterate_batch_size) over the same addresses; the ownership log is keyed by the
address, whatever Worker objects the pools hold for it.
"""

from __future__ import annotations

import concurrent.futures as cf
import itertools
import random

from vlib import runner

ID = 'C20'
LEVEL = 'exploration'
EXTRA_PATH = ('vlib/fakecourier',)
RULE = (
    'a case is (mode, history, schedule): registry = 2-4 threads x 3-8 register/refresh/unregister/get '
    'operations on 1-2 addresses with stale timestamps, or (heartbeat_delivery) 2-4 handler threads '
    'delivering the numbered alive/dead notices of 1-2 workers x 1-2 incarnations in any order; '
    'liveness = 10-40 step history of clock '
    'advances, calls, late completions (ok/error/cancelled), shutdown, server heartbeats and is_alive '
    'queries; ownership = 2-3 pool threads x 3-8 acquire_by/_acquire_all/next_idle_worker/'
    'release_all/release operations over 2-4 shared workers, or (blocking) 2-3 pools x 1-3 rounds of '
    'release_all, blocking acquire_by / _acquire_all(blocking=True), owner-side use of the owned workers, '
    'release over 1-3 workers, or (run_siblings) 2-3 threads of one pool x 1-2 WorkerPool.run() calls '
    'plus 1-2 other pools x 2-5 acquire_by/release(pool) probes or run() calls over 1-2 workers, task '
    'completions delivered by a controlled thread at any point; poolops = call_and_wait/run/as_completed '
    'normal and failing over pools of 1-3 workers each ok / absent / exited / busy (>= 1 ok), '
    'call_and_wait with an unpicklable argument, run() with every worker busy for longer than its '
    'give-up time (dilated clock), and as_completed (1-3 workers, parallelism 1-2, 1-5 timed tasks) '
    'while a second pool probes acquire_by on the shared workers; in the basic ownership scenario and in '
    'cross_pool (two pools x next_idle_worker / _acquire_all / acquire_by over 1-3 live servers, then '
    'release_all of the loser) a pool may differ from the others in one of call_timeout / max_parallelism / '
    'heartbeat_threshold_secs / iterate_batch_size. Non-trivial = >= 2 threads touching one address / worker with >= 1 '
    'statement-level pre-emption (E2 modes), or a history with a late completion after an unregister '
    '(liveness); distinct = (history, schedule trace) hash')
ASSUMPTIONS = [
    'registry / client / worker objects are constructed after the threading shims are installed; the process-global registry is replaced by a fresh one per case',
    'the transport of the E2/liveness modes is a stub whose futures the harness completes; the clock is a settable fake (time.time only)',
    'a pool only calls release on workers it believes it owns (acquire_by returned True) or through release_all',
    'scheduler assumptions as in C04; poolops uses the transport stand-in (C14 assumptions)',
    'heartbeat_delivery: a worker sends its notices in order (alive..., dead, then possibly alive... of a restarted incarnation); the transport may deliver them in any order. Only an alive notice SENT BEFORE an already delivered dead notice counts as late; an alive notice sent after it (restart) may revive the worker; a stale dead notice killing a newer incarnation is not judged',
    'a busy worker is one with max_parallelism in-flight calls issued through the public Worker.submit by another user of the same Worker singleton (no pool owns it); an absent worker has no server and refuses connections; an exited worker was alive, then died and its death notice unregistered it',
    'blocking: a pool starts a blocking acquire only while it holds no worker (it calls release_all first), _acquire_all(blocking=True) waits in the worker order of the pool (the same for every pool), and every pool releases what it holds without waiting for anything else: no circular wait exists, so under a correct implementation every schedule terminates',
    'run_siblings: the transport is a stub; a call issued by run() is in flight until a controlled thread completes its future (any point of the schedule); time stands still (no give-up path); a probing pool releases with the ownership-checked release(pool) only; a worker counts as used by pool P between the hand-out of next_idle_worker to a run() of P and the end of that run(); a worker locked by pool Q while a run() of P != Q has a call in flight on it (or issues one) is reported',
    'ownership is judged per server address: a pool believes it owns an address when acquire_by of ITS Worker object for that address returned True, until a release of that object frees its lock; pools with differing settings hold different Worker objects for one address (WorkerPool re-creates its workers with its own settings), the harness stubs the transport of every such object and replaces the ownership locks by counting locks preserving the aliasing the library built (objects that share a lock keep sharing one)',
    'as_completed_contended: the second pool only calls acquire_by / release(pool) on the shared workers; a worker counts as busy for the first pool strictly between the start and the end of the handler of one of its tasks (server side clock)',
]
REQUIRED = ['registry_schedules', 'registry_mutations', 'liveness_queries', 'late_heartbeats',
            'ownership_schedules', 'acquire_events', 'release_events', 'poolops_cases',
            'line_preemptions', 'heartbeat_delivery_schedules', 'late_alive_deliveries',
            'degraded_pool_cases', 'inspected_unusable_workers', 'unpicklable_argument_cases',
            'all_busy_cases', 'contended_cases', 'contended_acquire_probes',
            'exhausted_with_tasks_in_flight', 'blocking_schedules', 'blocking_acquires_that_waited',
            'run_sibling_schedules', 'pool_runs_completed', 'runs_handed_a_worker_in_use_by_a_sibling',
            'probe_acquires', 'ownership_differing_settings_schedules', 'cross_pool_cases',
            'cross_pool_differing_settings_cases']
# Mechanism keys of the audited root causes (classified by the scenario of the case).
K_RUN_LEAK = 'pool-run-leaves-inspected-workers-acquired'
K_CALL_LEAK = 'call-and-wait-leaks-workers-when-call-raises'
K_AC_RELEASE = 'as-completed-releases-busy-workers'
K_LATE_HB = 'late-alive-heartbeat-resurrects-dead-worker'
# two concurrent pushed heartbeats: the handler that read the clock first registers last
K_HB_BACKWARDS = 'pushed-heartbeat-register-overwrites-newer-timestamp'
# Worker.acquire_by(pool, blocking=True) waits for the ownership lock while holding
# the worker's _states_lock, which release() and every operation of the owner need
K_BLOCK_DEADLOCK = 'blocking-acquire-holds-states-lock-deadlock'
# WorkerPool.run(): its finally releases the worker although a sibling run() of the
# same pool (handed the same, already owned worker) is still using it
K_RUN_SIBLING = 'pool-run-releases-worker-of-sibling-run'
# ... and that finally is the unconditional worker.release(): it frees the lock
# that meanwhile belongs to another pool
K_RUN_FOREIGN = 'pool-run-unconditional-release-frees-lock-of-other-pool'
# the ownership lock (and the capacity bookkeeping) live on the Worker OBJECT, and Worker
# objects are singletons per address AND per client setting: pools that differ in any
# setting hold different objects for one server and both own it
K_OWN_ADDR = 'ownership-keyed-by-worker-object-not-address'
POOL_SETTINGS = [{'call_timeout': 600}, {'max_parallelism': 2}, {'heartbeat_threshold_secs': 400},
                 {'iterate_batch_size': 4}]
CHUNK_TIMEOUT_S = {'quick': 300, 'thorough': 3000}
_uid = itertools.count()


def plan(tier, seed):
  k = 1 if tier == 'quick' else 30
  chunks = 32
  out = []
  for i in range(chunks):
    mode = ['registry', 'liveness', 'ownership', 'poolops', 'liveness', 'registry',
            'poolops', 'ownership'][i % 8]
    out.append({'chunk': i, 'mode': mode, 'rseed': seed,
                'n': {'registry': 400, 'liveness': 300, 'ownership': 700, 'poolops': 12}[mode] * k})
  return out


# ---------------------------------------------------------------------------
# shared patching
# ---------------------------------------------------------------------------
_patched = {'done': False}


class FakeClock:
  def __init__(self):
    self.now = 1000.0

  def time(self):
    return self.now

  def sleep(self, x):
    self.now += x

  def __getattr__(self, name):
    import time as _t
    return getattr(_t, name)


class StubFutures:
  def __init__(self, owner):
    self._owner = owner

  def __getattr__(self, method):
    def call(*a, **k):
      f = cf.Future()
      self._owner.issued.append((method, f))
      return f
    return call


class StubClient:
  """Replaces courier.Client inside a CourierClient: futures completed by the harness."""

  def __init__(self):
    self.issued = []
    self.futures = StubFutures(self)


def patch_modules(line_level=True):
  from ml_metrics._src.chainables import courier_worker
  from ml_metrics._src.utils import courier_utils
  from vlib.sched import core, shims
  took = shims.install(courier_utils, names=('threading',))
  took += shims.install(courier_worker, names=('threading',))
  if not _patched['done'] and line_level:
    core.install_line_yield([
        courier_utils.WorkerRegistry.get, courier_utils.WorkerRegistry.refresh,
        courier_utils.WorkerRegistry.register, courier_utils.WorkerRegistry.unregister,
        courier_worker.Worker.acquire_by, courier_worker.Worker.release,
        courier_worker.Worker.is_available, courier_worker.Worker.is_locked,
        courier_worker.WorkerPool._acquire_all, courier_worker.WorkerPool.release_all,  # pylint: disable=protected-access
        courier_worker.WorkerPool.next_idle_worker,
    ])
    _patched['done'] = True
  return took


# ---------------------------------------------------------------------------
# registry (E2)
# ---------------------------------------------------------------------------


def run_registry_case(ctx, case):
  if case.get('scenario') == 'heartbeat_delivery':
    return run_heartbeat_case(ctx, case)
  from ml_metrics._src.utils import courier_utils
  from vlib.sched import core
  took = patch_modules()
  sched = core.Scheduler(case['sched_seed'], strategy=case.get('strategy', 'random'),
                         p_sync=0.5, p_line=0.3, max_steps=40000)
  reg = courier_utils.WorkerRegistry()
  log = []
  cur_op = {}

  class RecDict(dict):
    def __setitem__(self, k, v):
      st = core.ACTIVE.me() if core.ACTIVE else None
      log.append(('write', k, self.get(k, 'MISSING'), v, cur_op.get(st.idx if st else -1)))
      super().__setitem__(k, v)

  reg.data = RecDict()

  def worker(tid, ops):
    st = core.ACTIVE.me()
    for op in ops:
      cur_op[st.idx] = (tid, op[0])
      log.append(('call', tid, op))
      if op[0] == 'register':
        reg.register(op[1], op[2])
      elif op[0] == 'refresh':
        reg.refresh(op[1], op[2])
      elif op[0] == 'unregister':
        reg.unregister(op[1])
      else:
        r = reg.get(op[1])
        log.append(('got', tid, op[1], r))
      log.append(('ret', tid, op))

  for tid, ops in enumerate(case['threads']):
    sched.spawn(worker, name=f'T{tid}', args=(tid, ops))
  sched.run(20)
  ctx.count('registry_schedules')
  ctx.count('line_preemptions', sched.line_preemptions)
  writes = [e for e in log if e[0] == 'write']
  ctx.count('registry_mutations', len(writes))
  ctx.case((runner.stable_hash(case['threads']), sched.trace_hash()),
           len(case['threads']) >= 2 and sched.line_preemptions >= 1)
  if 'threading' not in took:
    ctx.inconclusive_case('threading shim not installed', case)
    return
  if sched.status == 'deadlock':
    ctx.violation('deadlock', case, sched.witness, mechanism='registry:deadlock')
    return
  if sched.status != 'ok':
    ctx.inconclusive_case(sched.status, case)
    return
  for name, e in sched.thread_errors().items():
    ctx.violation('thread_error', case, {name: repr(e)}, mechanism='registry:thread-error')
  # offline checker over the mutation log (recorded inside the critical section)
  value = {}
  for e in writes:
    _, k, old, new, op = e
    opname = op[1] if op else None
    cur = value.get(k, 'MISSING')
    if old != cur:
      ctx.violation('torn_update', case, {'entry': e, 'model': cur},
                    mechanism='registry:write-on-stale-read')
    if cur is None and new is not None and opname != 'register':
      ctx.violation('dead_worker_resurrected', case, {'entry': e},
                    mechanism='registry:dead-resurrected-by-' + str(opname))
    if opname == 'refresh' and isinstance(cur, (int, float)) and new is not None and new < cur:
      ctx.violation('heartbeat_moved_backwards', case, {'entry': e},
                    mechanism='registry:refresh-decreases')
    value[k] = new
  # every get returns a value the key held between its call and return (None -> 0)
  for i, e in enumerate(log):
    if e[0] != 'got':
      continue
    _, tid, k, r = e
    j = max(x for x in range(i) if log[x][0] == 'call' and log[x][1] == tid)
    seen = set()
    cur = 'MISSING'
    for x, ev in enumerate(log[:i]):
      if ev[0] == 'write' and ev[1] == k:
        cur = ev[3]
        if x > j:
          seen.add(cur)
      if x == j:
        seen.add(cur)
    seen.add(cur)
    ok_vals = {0 if v in (None, 'MISSING') else v for v in seen}
    if r not in ok_vals:
      ctx.violation('get_returned_unheld_value', case, {'got': r, 'possible': sorted(ok_vals)},
                    mechanism='registry:get')
  if len(ctx.samples) < 2:
    ctx.sample({'mode': 'registry', 'threads': case['threads'], 'writes': writes[:8]})


def gen_registry_case(rng):
  if rng.random() < 0.4:
    return gen_heartbeat_case(rng)
  addrs = ['a', 'b'][:rng.randint(1, 2)]
  t = 10.0
  threads = []
  for _ in range(rng.randint(2, 4)):
    ops = []
    for _ in range(rng.randint(3, 8)):
      t += rng.choice([0.0, 1.0, 5.0])
      k = rng.choice(['register', 'refresh', 'refresh', 'refresh', 'unregister', 'get'])
      a = rng.choice(addrs)
      if k in ('register', 'refresh'):
        ops.append([k, a, t - rng.choice([0.0, 0.0, 3.0, 20.0])])  # possibly stale
      else:
        ops.append([k, a])
    threads.append(ops)
  return {'mode': 'registry', 'threads': threads}


# ---------------------------------------------------------------------------
# registry: delivery order of pushed heartbeats (E2)
# ---------------------------------------------------------------------------
_host = {}


def _host_server():
  """One (never started) CourierServer per child: the host receiving pushed heartbeats."""
  from ml_metrics._src.chainables import courier_server
  from vlib import c20lib
  from vlib.sched import core
  if 'server' not in _host:
    courier_server.signal = c20lib.NoSignal
    courier_server.CourierServer.__del__ = lambda self: None
    _host['server'] = courier_server.CourierServer(f'c20_host_{next(_uid)}')
    core.install_line_yield([courier_server.CourierServer._heartbeat])  # pylint: disable=protected-access
  return _host['server']


def run_heartbeat_case(ctx, case):
  """Notices [addr, send_seq, is_alive] are delivered by handler threads in any order."""
  from ml_metrics._src.chainables import courier_server, courier_worker
  from ml_metrics._src.utils import courier_utils
  from vlib.sched import core
  took = patch_modules()
  host = _host_server()
  clock = FakeClock()
  courier_utils.time = clock
  courier_worker.time = clock
  courier_server.time = clock
  sched = core.Scheduler(case['sched_seed'], strategy=case.get('strategy', 'random'),
                         p_sync=0.5, p_line=0.3, max_steps=40000)
  reg = courier_utils.WorkerRegistry()
  courier_utils._worker_registry = reg  # pylint: disable=protected-access
  log = []
  cur_op = {}

  class RecDict(dict):
    def __setitem__(self, k, v):
      st = core.ACTIVE.me() if core.ACTIVE else None
      log.append(('write', k, self.get(k, 'MISSING'), v, cur_op.get(st.idx if st else -1)))
      super().__setitem__(k, v)

  reg.data = RecDict()
  uid = next(_uid)
  full = lambda a: f'hb_{uid}_{a}'
  late_deliveries = [0]

  def handler_thread(tid, notices):
    st = core.ACTIVE.me()
    for addr, seq, alive in notices:
      cur_op[st.idx] = (addr, seq, alive)
      clock.now += 1.0
      # an alive notice whose handler starts after a later-sent dead notice was recorded
      if alive and any(e[1] == full(addr) and e[3] is None and e[4] and e[4][1] > seq
                       for e in log):
        late_deliveries[0] += 1
      host._heartbeat(full(addr), alive)  # pylint: disable=protected-access
    cur_op[st.idx] = None

  for tid, notices in enumerate(case['threads']):
    sched.spawn(handler_thread, name=f'H{tid}', args=(tid, notices))
  sched.run(20)
  ctx.count('registry_schedules')
  ctx.count('heartbeat_delivery_schedules')
  ctx.count('line_preemptions', sched.line_preemptions)
  writes = [e for e in log if e[0] == 'write']
  ctx.count('registry_mutations', len(writes))
  ctx.case((runner.stable_hash(case['threads']), sched.trace_hash()),
           len(case['threads']) >= 2 and sched.line_preemptions >= 1)
  if 'threading' not in took:
    ctx.inconclusive_case('threading shim not installed', case)
    return
  if sched.status == 'deadlock':
    ctx.violation('deadlock', case, sched.witness, mechanism='registry:heartbeat:deadlock')
    return
  if sched.status != 'ok':
    ctx.inconclusive_case(sched.status, case)
    return
  for name, e in sched.thread_errors().items():
    ctx.violation('thread_error', case, {name: repr(e)}, mechanism='registry:heartbeat:thread-error')
  # offline checker over the mutation log (recorded inside the critical section)
  value, dead_seqs, late_for = {}, {}, set()
  n_late = 0
  for e in writes:
    _, k, old, new, op = e
    cur = value.get(k, 'MISSING')
    if old != cur:
      ctx.violation('torn_update', case, {'entry': e, 'model': cur},
                    mechanism='registry:heartbeat:write-on-stale-read')
    if op is None or full(op[0]) != k:
      ctx.violation('write_outside_a_notice', case, {'entry': e},
                    mechanism='registry:heartbeat:foreign-write')
      value[k] = new
      continue
    addr, seq, alive = op
    if not alive:
      if new is not None:
        ctx.violation('dead_notice_not_recorded', case, {'entry': e},
                      mechanism='registry:heartbeat:dead-notice-not-recorded')
      dead_seqs.setdefault(addr, []).append(seq)
    else:
      late = any(d > seq for d in dead_seqs.get(addr, []))
      if late:
        n_late += 1
        if cur is None and new is not None:
          late_for.add(addr)
          ctx.violation('dead_worker_resurrected', case,
                        {'entry': e, 'delivered_dead_notices': dead_seqs.get(addr),
                         'deliveries': [w[4] for w in writes]},
                        mechanism=K_LATE_HB)
      if isinstance(cur, (int, float)) and new is not None and new < cur:
        ctx.violation('heartbeat_moved_backwards', case, {'entry': e},
                      mechanism=K_HB_BACKWARDS)
    value[k] = new
  ctx.count('late_alive_deliveries', late_deliveries[0])
  # observable end state: a worker whose LAST SENT notice is "dead" is not alive
  sent = {}
  for notices in case['threads']:
    for addr, seq, alive in notices:
      if addr not in sent or seq > sent[addr][0]:
        sent[addr] = (seq, alive)
  for addr, (seq, alive) in sorted(sent.items()):
    if alive:
      continue
    w = courier_worker.Worker(full(addr))
    w._client, w._heartbeat_client = StubClient(), StubClient()  # pylint: disable=protected-access
    w._refresh_clients = lambda: None  # pylint: disable=protected-access
    got = reg.get(full(addr))
    if got != 0 or w.is_alive:
      ctx.violation('dead_worker_reported_alive', case,
                    {'address': addr, 'registry_get': got, 'is_alive': True,
                     'deliveries': [x[4] for x in writes]},
                    mechanism=K_LATE_HB if addr in late_for else 'registry:heartbeat:dead-reported-alive')
  if len(ctx.samples) < 3 and n_late:
    ctx.sample({'mode': 'registry', 'scenario': 'heartbeat_delivery', 'threads': case['threads'],
                'deliveries': [w[4] for w in writes][:10]})


def gen_heartbeat_case(rng):
  notices = []
  for a in ['a', 'b'][:rng.randint(1, 2)]:
    seq = 0
    for _ in range(rng.randint(1, 2)):          # incarnations of the worker process
      for _ in range(rng.randint(1, 3)):
        notices.append([a, seq, True])
        seq += 1
      if rng.random() < 0.85:
        notices.append([a, seq, False])
        seq += 1
  rng.shuffle(notices)                          # delivery order is not the send order
  k = rng.randint(2, 4)
  return {'mode': 'registry', 'scenario': 'heartbeat_delivery',
          'threads': [notices[i::k] for i in range(k)]}


# ---------------------------------------------------------------------------
# liveness (reference model)
# ---------------------------------------------------------------------------


def run_liveness_case(ctx, case):
  from ml_metrics._src.utils import courier_utils
  took = patch_modules(line_level=False)
  clock = FakeClock()
  courier_utils.time = clock
  courier_utils._worker_registry = courier_utils.WorkerRegistry()  # pylint: disable=protected-access
  addr = f'live_{next(_uid)}'
  H = case['threshold']
  client = courier_utils.CourierClient(addr, heartbeat_threshold_secs=H, call_timeout=7)
  stub, hb_stub = StubClient(), StubClient()
  client._client, client._heartbeat_client = stub, hb_stub  # pylint: disable=protected-access
  client._refresh_clients = lambda: None  # keep the stubs  # pylint: disable=protected-access
  model = {'v': 'MISSING'}
  pend = []  # (future, start_time) in issue order, mirrors client._pendings

  def m_refresh(t):
    if model['v'] is None:
      return
    cur = 0 if model['v'] == 'MISSING' else model['v']
    model['v'] = max(cur, t)

  late = 0
  nontrivial = False
  steps = []
  for step in case['steps']:
    kind = step[0]
    steps.append(step)
    if kind == 'advance':
      clock.now += step[1]
    elif kind == 'call':
      f = client.call('x')
      pend.append((f, clock.now))
    elif kind == 'complete' and pend:
      f, t0 = pend[step[1] % len(pend)]
      if not f.done():
        if step[2] == 'ok':
          f.set_result(b'')
        elif step[2] == 'err':
          f.set_exception(RuntimeError('x'))
        else:
          f.cancel()
        if model['v'] is None and step[2] == 'ok':
          late += 1
          nontrivial = True
    elif kind == 'server_heartbeat':
      courier_utils.worker_registry().register(addr, clock.now)
      model['v'] = clock.now
    elif kind == 'unregister':
      courier_utils.worker_registry().unregister(addr)
      model['v'] = None
    elif kind == 'query':
      got = client.is_alive
      # model: completed pendings are folded in issue order, failed ones ignored
      still = []
      for f, t0 in pend:
        if f.done():
          if not f.cancelled() and f.exception() is None:
            m_refresh(t0)
        else:
          still.append((f, t0))
      # the heartbeat probe issued by is_alive itself
      for method, f in hb_stub.issued:
        if not any(f is p[0] for p in pend) and not getattr(f, '_seen', False):
          f._seen = True  # pylint: disable=protected-access
          still.append((f, None))
      pend[:] = [(f, t0 if t0 is not None else _probe_time(client, f)) for f, t0 in still]
      last = 0 if model['v'] in ('MISSING', None) else model['v']
      want = (clock.now - last) < H
      ctx.count('liveness_queries')
      if got != want:
        mech = 'liveness:dead-reported-alive' if (got and model['v'] is None) else 'liveness:is-alive-differs'
        ctx.violation('is_alive_differs_from_model', case,
                      {'got': got, 'want': want, 'model_last': model['v'], 'now': clock.now,
                       'threshold': H, 'steps_so_far': steps[-12:]}, mechanism=mech)
        break
      reg_v = courier_utils.worker_registry().data.get(addr, 'MISSING')
      if reg_v != model['v'] and not (reg_v == 0 and model['v'] == 'MISSING'):
        ctx.violation('registry_differs_from_model', case,
                      {'registry': reg_v, 'model': model['v'], 'steps_so_far': steps[-12:]},
                      mechanism='liveness:registry-differs')
        break
  ctx.count('late_heartbeats', late)
  ctx.case(case, nontrivial)
  if len(ctx.samples) < 4 and late:
    ctx.sample({'mode': 'liveness', 'steps': case['steps'][:20]})


def _probe_time(client, f):
  for st in client._pendings:  # pylint: disable=protected-access
    if st.state is f:
      return st.time
  hb = client._heartbeat  # pylint: disable=protected-access
  if hb is not None and hb.state is f:
    return hb.time
  return 0.0


def gen_liveness_case(rng):
  steps = []
  for _ in range(rng.randint(10, 40)):
    k = rng.choice(['advance', 'advance', 'call', 'complete', 'complete', 'query', 'query',
                    'server_heartbeat', 'unregister'])
    if k == 'advance':
      steps.append(['advance', rng.choice([1.0, 10.0, 40.0, 100.0, 400.0])])
    elif k == 'complete':
      steps.append(['complete', rng.randrange(8), rng.choice(['ok', 'ok', 'err', 'cancel'])])
    else:
      steps.append([k])
  steps.append(['query'])
  return {'mode': 'liveness', 'threshold': rng.choice([100.0, 180.0, 360.0]), 'steps': steps}


# ---------------------------------------------------------------------------
# ownership (E2)
# ---------------------------------------------------------------------------


def run_ownership_case(ctx, case):
  if case.get('scenario') == 'run_siblings':
    return run_siblings_case(ctx, case)
  from ml_metrics._src.chainables import courier_worker
  from ml_metrics._src.utils import courier_utils
  from vlib import c20lib
  from vlib.sched import core
  took = patch_modules()
  blocking = case.get('scenario') == 'blocking'
  # (blocking: a waiting acquire may be implemented by polling; sleep() is then a
  # scheduling point and the walk is random, so that a poller cannot starve the owner)
  clock = c20lib.SchedClock() if blocking else FakeClock()
  courier_utils.time = clock
  courier_worker.time = clock
  courier_utils._worker_registry = courier_utils.WorkerRegistry()  # pylint: disable=protected-access
  uid = next(_uid)
  n_w, n_p = case['workers'], len(case['pools'])
  settings = case.get('settings') or [{} for _ in range(n_p)]
  differing = any(settings)
  workers = []
  for i in range(n_w):
    addr = f'own_{uid}_{i}'
    w = courier_worker.Worker(addr)
    courier_utils.worker_registry().register(addr, clock.now)  # alive
    workers.append(w)
  pools = [courier_worker.WorkerPool(workers, **settings[pi]) for pi in range(n_p)]
  # WorkerPool re-creates Worker objects through the singleton: with its default
  # settings they must be ours; a pool with other settings holds its own objects.
  shared = all(pw is w for pi, p in enumerate(pools) if not settings[pi]
               for pw, w in zip(p.all_workers, workers))
  objs, lock_of, keep = [], {}, []
  for w in workers + [pw for p in pools for pw in p.all_workers]:
    if any(w is o for o in objs):
      continue
    objs.append(w)
    w._client, w._heartbeat_client = StubClient(), StubClient()  # pylint: disable=protected-access
    w._refresh_clients = lambda: None  # pylint: disable=protected-access
    # counting locks, preserving the aliasing the library built between the objects
    keep.append(w._lock)  # pylint: disable=protected-access
    if id(w._lock) not in lock_of:  # pylint: disable=protected-access
      lock_of[id(w._lock)] = c20lib.counting_lock()  # pylint: disable=protected-access
    try:
      w._lock = lock_of[id(w._lock)]  # pylint: disable=protected-access
    except AttributeError:
      shared = False
  sched = core.Scheduler(case['sched_seed'],
                         strategy='random' if blocking else case.get('strategy', 'random'),
                         p_sync=0.5, p_line=0.3, max_steps=60000)
  log = []
  belief = {i: set() for i in range(n_w)}   # worker index -> pools believing they own it
  by_addr = {w.address: i for i, w in enumerate(workers)}
  widx = {id(o): by_addr[o.address] for o in objs}     # ownership is per ADDRESS
  pidx = {id(p): i for i, p in enumerate(pools)}
  thread_pool = {}
  orig_release = courier_worker.Worker.release
  orig_acquire = courier_worker.Worker.acquire_by
  waited = [0]
  lock_snapshot = []
  if blocking:
    # Who holds which lock at the instant the scheduler finds no thread enabled
    # (afterwards the aborted threads unwind and release everything).
    orig_describe = sched._describe_blocked  # pylint: disable=protected-access

    def describe_blocked():
      out = orig_describe()
      for i, w in enumerate(workers):
        lock_snapshot.append({
            'worker': i,
            'states_lock_held_by': getattr(w._states_lock, '_owner', None),  # pylint: disable=protected-access
            'ownership_lock': f'Lock@{id(w._lock):x}.acquire',  # pylint: disable=protected-access
            'owner_pool': pidx.get(id(w._worker_pool))})  # pylint: disable=protected-access
      return out

    sched._describe_blocked = describe_blocked  # pylint: disable=protected-access

  def release(self, *args, **kwargs):
    st = core.ACTIVE.me() if core.ACTIVE else None
    caller = thread_pool.get(st.idx if st else -1)
    with self._states_lock:  # pylint: disable=protected-access
      owner = self._worker_pool  # pylint: disable=protected-access
      locked = self._lock.locked()  # pylint: disable=protected-access
      wi = widx.get(id(self))
      n0 = getattr(self._lock, 'releases', 0)  # pylint: disable=protected-access
      r = orig_release(self, *args, **kwargs)
      # (not read from locked(): a waiting acquirer may hold the lock again already)
      released = getattr(self._lock, 'releases', 0) > n0  # pylint: disable=protected-access
      log.append(('release', caller, wi, pidx.get(id(owner)), locked, released))
      if wi is not None and released and owner is not None and caller is not None \
          and pidx.get(id(owner)) != caller:
        log.append(('VIOLATION', 'release_by_non_owner', caller, wi, pidx.get(id(owner))))
      if wi is not None and released:
        belief[wi].discard(pidx.get(id(owner)))
      return r

  def acquire_by(self, worker_pool, *, blocking=False):
    r = orig_acquire(self, worker_pool, blocking=blocking)
    wi, pi = widx.get(id(self)), pidx.get(id(worker_pool))
    if wi is not None:
      with self._states_lock:  # pylint: disable=protected-access
        log.append(('acquire', pi, wi, r))
        if r:
          others = belief[wi] - {pi}
          if others:
            log.append(('VIOLATION', 'two_owners', pi, wi, sorted(others)))
          belief[wi].add(pi)
    return r

  courier_worker.Worker.release = release
  courier_worker.Worker.acquire_by = acquire_by
  try:
    def pool_thread(pi, ops):
      # (the pool's own Worker objects: the same as `workers` for default settings)
      workers = pools[pi].all_workers
      st = core.ACTIVE.me()
      thread_pool[st.idx] = pi
      p = pools[pi]
      rnd = random.Random(case['sched_seed'] + pi)
      for op in ops:
        if op[0] == 'acquire':
          workers[op[1] % n_w].acquire_by(p)
        elif op[0] == 'acquire_all':
          p._acquire_all()  # pylint: disable=protected-access
        elif op[0] == 'next_idle':
          p.next_idle_worker(maybe_acquire=True)
        elif op[0] == 'acquire_blocking':
          wi = op[1] % n_w
          if belief[wi] - {pi}:
            waited[0] += 1
          workers[wi].acquire_by(p, blocking=True)
        elif op[0] == 'acquire_all_blocking':
          if any(belief[i] - {pi} for i in range(n_w)):
            waited[0] += 1
          p._acquire_all(blocking=True)  # pylint: disable=protected-access
        elif op[0] == 'use':
          # what an owner does with its workers between acquire and release
          for i in range(n_w):
            if pi in belief[i]:
              w = workers[i]
              log.append(('use', pi, i, w.has_capacity, w.is_alive, len(w.pendings)))
        elif op[0] == 'release_all':
          p.release_all()
        elif op[0] == 'release_owned':
          owned = [i for i in range(n_w) if pi in belief[i]]
          if owned:
            workers[rnd.choice(owned)].release()
        elif op[0] == 'query':
          log.append(('acquired_workers', pi, sorted(widx[id(w)] for w in p.acquired_workers)))
      # a pool-level operation ends by releasing what it holds
      p.release_all()
      log.append(('final', pi, sorted(widx[id(w)] for w in p.acquired_workers)))

    for pi, ops in enumerate(case['pools']):
      sched.spawn(pool_thread, name=f'P{pi}', args=(pi, ops))
    sched.run(20)
  finally:
    courier_worker.Worker.release = orig_release
    courier_worker.Worker.acquire_by = orig_acquire
  ctx.count('ownership_schedules')
  ctx.count('line_preemptions', sched.line_preemptions)
  ctx.count('acquire_events', sum(1 for e in log if e[0] == 'acquire'))
  ctx.count('release_events', sum(1 for e in log if e[0] == 'release'))
  ctx.case((runner.stable_hash(case['pools']), case['workers'], sched.trace_hash()),
           n_p >= 2 and sched.line_preemptions >= 1)
  if not shared or 'threading' not in took:
    ctx.inconclusive_case('pools do not share the worker objects / shim missing', case)
    return
  if blocking:
    ctx.count('blocking_schedules')
    ctx.count('blocking_acquires_that_waited', waited[0])
  if differing:
    ctx.count('ownership_differing_settings_schedules')
  if sched.status == 'deadlock':
    mech = 'ownership:deadlock'
    holders = []
    if blocking:
      # Audited root cause, decided from the lock state at the deadlock: a thread
      # holds the _states_lock of a worker while it waits for the ownership lock
      # of that same worker.
      by_idx = {('c', t.idx): t.name for t in sched.threads}
      for snap in lock_snapshot:
        name = by_idx.get(snap['states_lock_held_by'])
        if name and (sched.witness.get(name) or {}).get('blocked_on') == snap['ownership_lock']:
          holders.append({'thread': name, 'worker': snap['worker'],
                          'worker_owned_by_pool': snap['owner_pool']})
      if holders:
        mech = K_BLOCK_DEADLOCK
    ctx.violation('deadlock', case,
                  {'witness': sched.witness,
                   'holds_states_lock_while_waiting_for_ownership_lock': holders,
                   'log_tail': log[-12:]}, mechanism=mech)
    return
  if sched.status != 'ok':
    ctx.inconclusive_case(sched.status, case)
    return
  for name, e in sched.thread_errors().items():
    ctx.violation('thread_error', case, {name: repr(e)}, mechanism='ownership:thread-error')
  for e in log:
    if e[0] == 'VIOLATION':
      mech = 'ownership:' + e[1]
      detail = {'event': e, 'log_tail': log[-25:]}
      if e[1] == 'two_owners' and any(settings[e[2]] != settings[o] for o in e[4]):
        # Classified by the input class: the pools that own the address at the same
        # time were built with different client settings.
        mech = K_OWN_ADDR
        detail.update(address_index=e[3], pool_settings=settings,
                      pools_owning_the_address=sorted([e[2]] + list(e[4])),
                      same_worker_object=pools[e[2]].all_workers[e[3]] is pools[e[4][0]].all_workers[e[3]])
      ctx.violation(e[1], case, detail, mechanism=mech)
  for e in log:
    if e[0] == 'final' and e[2]:
      ctx.violation('pool_still_holds_workers_after_release_all', case, {'event': e},
                    mechanism='ownership:not-released')
  for w in objs:
    i = widx[id(w)]
    if w.is_locked() and not belief[i]:
      ctx.violation('locked_without_owner', case, {'worker': i, 'log_tail': log[-20:]},
                    mechanism='ownership:locked-without-owner')
  if len(ctx.samples) < 2:
    ctx.sample({'mode': 'ownership', 'pools': case['pools'], 'events': log[:20]})


def gen_ownership_case(rng):
  r = rng.random()
  if r < 0.15:
    return gen_blocking_case(rng)
  if r < 0.35:
    return gen_run_siblings_case(rng)
  pools = []
  for _ in range(rng.randint(2, 3)):
    ops = []
    for _ in range(rng.randint(3, 8)):
      k = rng.choice(['acquire', 'acquire_all', 'next_idle', 'release_all', 'release_all',
                      'release_owned', 'query'])
      ops.append([k, rng.randrange(4)])
    pools.append(ops)
  return {'mode': 'ownership', 'workers': rng.randint(2, 4), 'pools': pools}


def with_differing_settings(case, rng):
  """Basic ownership scenario: 1 .. n-1 pools are built with one differing client setting."""
  if case.get('scenario'):
    return case
  n_p = len(case['pools'])
  settings = [{} for _ in range(n_p)]
  for pi in rng.sample(range(n_p), rng.randint(1, n_p - 1)):
    settings[pi] = dict(rng.choice(POOL_SETTINGS))
  return dict(case, settings=settings)


def gen_blocking_case(rng):
  """Rounds of: release everything, wait for workers, use them, release them."""
  n_w = rng.randint(1, 3)
  pools = []
  for _ in range(rng.randint(2, 3)):
    ops = []
    for _ in range(rng.randint(1, 3)):
      k = rng.choice(['acquire', 'next_idle', 'acquire_blocking', 'acquire_blocking',
                      'acquire_all_blocking'])
      if k in ('acquire_blocking', 'acquire_all_blocking'):
        ops.append(['release_all', 0])   # waits only while holding nothing
      ops.append([k, rng.randrange(n_w)])
      for _ in range(rng.randint(0, 2)):
        ops.append([rng.choice(['use', 'query', 'acquire']), rng.randrange(n_w)])
      ops.append([rng.choice(['release_all', 'release_all', 'release_owned']), 0])
    pools.append(ops)
  if not any(op[0].endswith('_blocking') for ops in pools for op in ops):
    pools[0] = [['release_all', 0], ['acquire_blocking', 0], ['use', 0], ['release_all', 0]] + pools[0]
  return {'mode': 'ownership', 'scenario': 'blocking', 'workers': n_w, 'pools': pools}


# ---------------------------------------------------------------------------
# ownership: several threads of one pool inside WorkerPool.run() (E2)
# ---------------------------------------------------------------------------
_run_lines = {'done': False}


class _IssuingStub:
  """courier.Client look-alike: records who issued which call; futures completed by the harness."""

  def __init__(self, on_issue):
    self._on_issue = on_issue
    self.futures = self

  def __getattr__(self, method):
    if method.startswith('_'):
      raise AttributeError(method)

    def call(*a, **k):
      del a, k
      f = cf.Future()
      self._on_issue(method, f)
      return f
    return call


def run_siblings_case(ctx, case):
  """Threads [pool index, ops]: ['run'] = pool.run(task); ['probe', w, hold] = acquire_by / release(pool)."""
  from ml_metrics._src.chainables import courier_worker, lazy_fns
  from ml_metrics._src.utils import courier_utils
  from vlib import c20lib
  from vlib.sched import core
  took = patch_modules()
  if not _run_lines['done']:
    core.install_line_yield([courier_worker.WorkerPool.run])
    _run_lines['done'] = True
  clock = c20lib.SchedClock()
  courier_utils.time = clock
  courier_worker.time = clock
  courier_utils._worker_registry = courier_utils.WorkerRegistry()  # pylint: disable=protected-access
  uid = next(_uid)
  n_w, n_p = case['workers'], case['n_pools']
  threads = case['threads']
  log = []
  issued = []                                 # {'f', 'worker', 'thread', 'pool', 'done'}
  hold_rng = random.Random(case['sched_seed'] ^ 0x2545f491)
  thread_pool, in_run, using = {}, {}, {}     # by controlled thread index
  undercut = {}   # run (thread) -> the sibling run whose finally released the worker it uses
  belief = {i: set() for i in range(n_w)}
  workers = []
  for i in range(n_w):
    addr = f'sib_{uid}_{i}'
    w = courier_worker.Worker(addr, max_parallelism=case.get('max_parallelism', 1))

    def on_issue(method, f, i=i):
      st = core.ACTIVE.me() if core.ACTIVE else None
      tid = st.idx if st else -1
      pi = thread_pool.get(tid)
      issued.append({'f': f, 'worker': i, 'thread': tid, 'pool': pi, 'method': method,
                     'from_run': bool(in_run.get(tid)),
                     # most low-level calls stay in flight until every client is through
                     # (never so many that the worker has no room left for a run())
                     'hold': (not in_run.get(tid) and hold_rng.random() < 0.7
                              and sum(1 for x in issued if x['worker'] == i and x['hold']
                                      and not x['f'].done())
                              < case.get('max_parallelism', 1) - 1)})
      log.append(('call', tid, pi, i, method))
      others = sorted(belief[i] - {pi})
      if in_run.get(tid) and others:
        # the run() of pool pi sends its task to a worker that another pool owns
        log.append(('VIOLATION', 'worker_used_by_two_pools', i,
                    {'call_issued_by_run_of_pool': pi, 'worker_owned_by_pools': others,
                     'how': 'call issued on a worker owned by another pool',
                     'worker_released_under_this_run_by': undercut.get(tid)}))

    w._lock = c20lib.counting_lock()  # pylint: disable=protected-access
    w._client = _IssuingStub(on_issue)  # pylint: disable=protected-access
    w._heartbeat_client = StubClient()  # pylint: disable=protected-access
    w._refresh_clients = lambda: None  # pylint: disable=protected-access
    courier_utils.worker_registry().register(addr, clock.now)
    workers.append(w)
  pools = [courier_worker.WorkerPool(workers) for _ in range(n_p)]
  shared = all(pw is w for p in pools for pw, w in zip(p.all_workers, workers))
  widx = {id(w): i for i, w in enumerate(workers)}
  pidx = {id(p): i for i, p in enumerate(pools)}
  sched = core.Scheduler(case['sched_seed'], strategy='random', p_sync=0.5, p_line=0.3,
                         max_steps=120000)
  orig_release = courier_worker.Worker.release
  orig_acquire = courier_worker.Worker.acquire_by
  orig_next_idle = courier_worker.WorkerPool.next_idle_worker
  saved_futures = courier_utils.futures
  courier_utils.futures = c20lib.sched_futures(saved_futures)
  counters = {'handed_in_use': 0, 'probe_acquires': 0, 'runs': 0, 'lowlevel_calls': 0,
              'run_finally_with_foreign_call_in_flight': 0}

  def me():
    st = core.ACTIVE.me() if core.ACTIVE else None
    return st.idx if st else -1

  def release(self, *args, **kwargs):
    tid = me()
    caller = thread_pool.get(tid)
    with self._states_lock:  # pylint: disable=protected-access
      owner = pidx.get(id(self._worker_pool))  # pylint: disable=protected-access
      locked = self._lock.locked()  # pylint: disable=protected-access
      wi = widx.get(id(self))
      n0 = getattr(self._lock, 'releases', 0)  # pylint: disable=protected-access
      r = orig_release(self, *args, **kwargs)
      released = getattr(self._lock, 'releases', 0) > n0  # pylint: disable=protected-access
      if wi is None:
        return r
      from_run = bool(in_run.get(tid))
      if from_run and any(x['worker'] == wi and not x['from_run'] and not x['f'].done()
                          for x in issued):
        counters['run_finally_with_foreign_call_in_flight'] += 1
      unconditional = not args and not kwargs
      # runs of the caller's own pool that were handed this worker and are not over
      siblings = sorted(t for t, u in using.items()
                        if u == wi and t != tid and thread_pool.get(t) == caller)
      log.append(('release', tid, caller, wi, owner, released, from_run, siblings))
      if released:
        if owner is not None and caller is not None and owner != caller:
          log.append(('VIOLATION', 'release_by_non_owner', wi,
                      {'released_by_pool': caller, 'lock_owned_by_pool': owner,
                       'from_the_finally_of_run': from_run, 'unconditional_release': unconditional}))
        belief[wi].discard(owner)
        # the release that ended the ownership of pool `owner`
        last_release[(wi, owner)] = {'thread': tid, 'pool': caller, 'owner': owner,
                                     'from_run': from_run}
        if from_run and owner == caller:
          for t in siblings:
            undercut[t] = {'finally_of_run_in_thread': tid, 'pool': caller, 'worker': wi}
      if using.get(tid) == wi and from_run:
        using.pop(tid, None)
      return r

  last_release = {}

  def acquire_by(self, worker_pool, *, blocking=False):
    wi, pi = widx.get(id(self)), pidx.get(id(worker_pool))
    owned_before = wi is not None and pi in belief[wi]
    r = orig_acquire(self, worker_pool, blocking=blocking)
    if wi is not None:
      with self._states_lock:  # pylint: disable=protected-access
        log.append(('acquire', me(), pi, wi, r))
        if r and not owned_before and self._worker_pool is worker_pool:  # pylint: disable=protected-access
          others = belief[wi] - {pi}
          if others:
            log.append(('VIOLATION', 'two_owners', wi, {'pool': pi, 'others': sorted(others)}))
          belief[wi].add(pi)
          # calls of run()s of OTHER pools still in flight on this worker
          busy = [x for x in issued if x['worker'] == wi and not x['f'].done()
                  and x['from_run'] and x['pool'] is not None and x['pool'] != pi]
          if busy:
            log.append(('VIOLATION', 'worker_used_by_two_pools', wi,
                        {'acquired_by_pool': pi,
                         'calls_in_flight_of_run_of_pool': sorted({x['pool'] for x in busy}),
                         'how': 'acquired while the task of a run() of another pool is in flight',
                         'worker_released_under_this_run_by':
                             next((undercut[x['thread']] for x in busy if x['thread'] in undercut),
                                  None)}))
    return r

  def next_idle_worker(self, *args, **kwargs):
    w = orig_next_idle(self, *args, **kwargs)
    tid = me()
    if w is not None and in_run.get(tid) and id(w) in widx:
      wi = widx[id(w)]
      if any(u == wi and t != tid and thread_pool.get(t) == thread_pool.get(tid)
             for t, u in using.items()):
        counters['handed_in_use'] += 1
      using[tid] = wi
      pi = thread_pool.get(tid)
      log.append(('handed', tid, pi, wi, pi in belief[wi]))
      lr = last_release.get((wi, pi))
      if (pi not in belief[wi] and lr and lr['from_run'] and lr['pool'] == pi
          and lr['thread'] != tid):
        # handed a worker that its pool owned when next_idle_worker looked at it and
        # that the finally of a sibling run() has released before the hand-out
        undercut[tid] = {'finally_of_run_in_thread': lr['thread'], 'pool': pi, 'worker': wi}
    return w

  courier_worker.Worker.release = release
  courier_worker.Worker.acquire_by = acquire_by
  courier_worker.WorkerPool.next_idle_worker = next_idle_worker
  state = {'clients_done': 0}
  payload = lazy_fns.pickler.dumps(('done', 1))
  srv_rng = random.Random(case['sched_seed'] ^ 0x5bd1e995)

  def answerable(x):
    return not x['f'].done() and (not x['hold'] or state['clients_done'] == len(threads))

  try:
    def client(pi, ops):
      tid = me()
      thread_pool[tid] = pi
      p = pools[pi]
      try:
        for op in ops:
          if op[0] == 'run':
            in_run[tid] = True
            try:
              res = p.run(lazy_fns.trace(len)([1, 2, 3]))
              log.append(('run_returned', tid, pi, repr(res)))
              counters['runs'] += 1
            except Exception as e:  # pylint: disable=broad-exception-caught
              log.append(('run_raised', tid, pi, repr(e)[:120]))
            finally:
              in_run[tid] = False
              using.pop(tid, None)
              undercut.pop(tid, None)
          elif op[0] == 'call':
            # a low-level call that no pool operation issued (ignores capacity and lock);
            # the remote side completes it at any point of the schedule
            workers[op[1] % n_w].call(courier_method='slow')
            counters['lowlevel_calls'] += 1
          elif op[0] == 'probe':
            w = workers[op[1] % n_w]
            if w.acquire_by(p):
              counters['probe_acquires'] += 1
              for _ in range(op[2]):
                log.append(('probe_holds', pi, op[1] % n_w, w.has_capacity))
              w.release(p)
      finally:
        state['clients_done'] += 1

    def remote():
      # the "remote side": completes one in-flight call at a time, at any point
      s = core.ACTIVE
      while True:
        s.block(lambda: state['clients_done'] == len(threads)
                or any(answerable(x) for x in issued), 'remote.idle')
        pend = [x for x in issued if answerable(x)]
        if not pend:
          if state['clients_done'] == len(threads):
            return
          continue
        x = pend[srv_rng.randrange(len(pend))]
        x['f'].set_result(payload)
        log.append(('task_done', x['thread'], x['pool'], x['worker']))

    for ti, (pi, ops) in enumerate(threads):
      sched.spawn(client, name=f'P{pi}T{ti}', args=(pi, ops))
    sched.spawn(remote, name='remote')
    sched.run(30)
  finally:
    courier_worker.Worker.release = orig_release
    courier_worker.Worker.acquire_by = orig_acquire
    courier_worker.WorkerPool.next_idle_worker = orig_next_idle
    courier_utils.futures = saved_futures
  ctx.count('ownership_schedules')
  ctx.count('run_sibling_schedules')
  ctx.count('line_preemptions', sched.line_preemptions)
  ctx.count('acquire_events', sum(1 for e in log if e[0] == 'acquire'))
  ctx.count('release_events', sum(1 for e in log if e[0] == 'release'))
  ctx.count('pool_runs_completed', counters['runs'])
  ctx.count('runs_handed_a_worker_in_use_by_a_sibling', counters['handed_in_use'])
  ctx.count('probe_acquires', counters['probe_acquires'])
  ctx.count('lowlevel_calls', counters['lowlevel_calls'])
  ctx.count('run_finally_with_foreign_call_in_flight',
            counters['run_finally_with_foreign_call_in_flight'])
  ctx.case((runner.stable_hash(threads), n_w, case.get('max_parallelism', 1), sched.trace_hash()),
           n_p >= 2 and sched.line_preemptions >= 1)
  if not shared or 'threading' not in took:
    ctx.inconclusive_case('pools do not share the worker objects / shim missing', case)
    return
  if sched.status == 'deadlock':
    ctx.violation('deadlock', case, {'witness': sched.witness, 'log_tail': log[-12:]},
                  mechanism='ownership:run_siblings:deadlock')
    return
  if sched.status != 'ok':
    ctx.inconclusive_case(sched.status, case)
    return
  for name, e in sched.thread_errors().items():
    ctx.violation('thread_error', case, {name: repr(e)},
                  mechanism='ownership:run_siblings:thread-error')
  n_runs = sum(1 for _, ops in threads for op in ops if op[0] == 'run')
  # The first event of a schedule decides: once a root cause was witnessed the
  # ownership state is corrupt and later events of the same schedule follow from it.
  explained = 0
  pos = {id(e): i for i, e in enumerate(log)}
  for e in log:
    if e[0] != 'VIOLATION':
      continue
    kind, wi, d = e[1], e[2], e[3]
    mech = None
    if kind == 'release_by_non_owner' and d['from_the_finally_of_run'] and d['unconditional_release']:
      mech = K_RUN_FOREIGN
    elif kind == 'worker_used_by_two_pools' and d.get('worker_released_under_this_run_by'):
      # Audited root cause: the finally of a run() released the worker while another
      # run() of the same pool, handed the same worker, was still using it.
      mech = K_RUN_SIBLING
    if mech is None:
      if explained:
        ctx.count('events_following_a_reported_root_cause')
        continue
      mech = 'ownership:run_siblings:' + kind
    else:
      explained += 1
    ctx.violation(kind, case, {'worker': wi, 'event': d,
                               'events_before': log[max(0, pos[id(e)] - 14):pos[id(e)]]},
                  mechanism=mech)
  raised = [e for e in log if e[0] == 'run_raised']
  locked = [i for i, w in enumerate(workers) if w.is_locked()]
  if explained:
    return
  if raised:
    ctx.violation('run_raised', case, {'events': raised[:3]},
                  mechanism='ownership:run_siblings:run-raises')
  elif counters['runs'] != n_runs:
    ctx.violation('run_lost', case, {'returned': counters['runs'], 'called': n_runs},
                  mechanism='ownership:run_siblings:run-lost')
  if locked:
    ctx.violation('workers_not_released', case, {'locked': locked, 'log_tail': log[-20:]},
                  mechanism='ownership:run_siblings:not-released-after-return')
  if len(ctx.samples) < 4 and counters['handed_in_use']:
    ctx.sample({'mode': 'ownership', 'scenario': 'run_siblings', 'threads': threads,
                'events': log[:24]})


def gen_run_siblings_case(rng):
  n_w = rng.randint(1, 2)
  n_p = rng.randint(2, 3)
  threads = [[0, [['run']] * rng.randint(1, 2)] for _ in range(rng.randint(2, 3))]
  for pi in range(1, n_p):
    ops = []
    for _ in range(rng.randint(2, 5)):
      if rng.random() < 0.2:
        ops.append(['run'])
      else:
        ops.append(['probe', rng.randrange(n_w), rng.randint(0, 2)])
    threads.append([pi, ops])
  case = {'mode': 'ownership', 'scenario': 'run_siblings', 'workers': n_w, 'n_pools': n_p,
          'threads': threads}
  if rng.random() < 0.4:
    # fourth seed round (C20d): workers with room for several calls and a thread of pool 0
    # that issues low-level calls next to the run()s
    case['max_parallelism'] = rng.randint(2, 3)
    threads.append([0, [['call', rng.randrange(n_w)] for _ in range(rng.randint(1, 2))]])
  return case


# ---------------------------------------------------------------------------
# poolops (E4)
# ---------------------------------------------------------------------------


def _unreachable(sim, server):
  """The worker process is gone and its port refuses connections."""
  raw = server._server.address  # pylint: disable=protected-access
  sim.kill(raw)
  sim.refusing.add(raw)
  sim.refusing.add(server.address)


def gen_cross_pool_case(rng, differing=None):
  if differing is None:
    differing = rng.random() < 0.7
  acts = [rng.choice(['next_idle', 'next_idle', 'acquire_all', 'acquire_by']) for _ in range(2)]
  return {'mode': 'poolops', 'op': 'cross_pool', 'W': rng.randint(1, 3), 'fail': False,
          'acts': acts, 'first': rng.randrange(2),
          'settings': [{}, dict(rng.choice(POOL_SETTINGS)) if differing else {}]}


def run_cross_pool_case(ctx, case):
  """Two pools over the same live servers acquire workers one after the other."""
  from vlib import cwork
  cwork.setup(scale=1.0)
  from ml_metrics._src.chainables import courier_worker
  W, settings = case['W'], case['settings']
  differing = settings[0] != settings[1]
  servers = cwork.start_servers(W, 'c20x')
  try:
    addrs = [s.address for s in servers]
    pools = [courier_worker.WorkerPool(addrs, **dict({'call_timeout': 30}, **settings[pi]))
             for pi in range(2)]
    for p in pools:
      p.wait_until_alive(deadline_secs=60, minimum_num_workers=W)
    ctx.count('poolops_cases')
    ctx.count('cross_pool_cases')
    if differing:
      ctx.count('cross_pool_differing_settings_cases')
    ctx.case(('poolops', case), True)
    if any(len(p.workers) < W for p in pools):
      ctx.inconclusive_case('workers did not come up', case)
      return

    def act(pi):
      p, a = pools[pi], case['acts'][pi]
      if a == 'next_idle':
        p.next_idle_worker(maybe_acquire=True)
      elif a == 'acquire_all':
        p._acquire_all()  # pylint: disable=protected-access
      else:
        for w in p.all_workers:
          w.acquire_by(p)

    def owners():
      return {a: [pi for pi, p in enumerate(pools)
                  if a in [w.address for w in p.acquired_workers]] for a in addrs}

    order = [case['first'], 1 - case['first']]
    act(order[0])
    after_first = owners()
    act(order[1])
    own = owners()
    both = sorted(a for a, ps in own.items() if len(ps) > 1)
    if both:
      ctx.violation(
          'two_owners', case,
          {'addresses_owned_by_both_pools': [addrs.index(a) for a in both], 'pool_settings': settings,
           'same_worker_object': [pools[0].all_workers[addrs.index(a)] is pools[1].all_workers[addrs.index(a)]
                                  for a in both]},
          mechanism=K_OWN_ADDR if differing else 'poolops:cross_pool:two-owners')
    else:
      # a pool can only release what it owns: the second pool releases everything it can
      pools[order[1]].release_all()
      still = owners()
      lost = sorted(addrs.index(a) for a, ps in after_first.items()
                    if order[0] in ps and order[0] not in still[a])
      if lost:
        ctx.violation('release_by_non_owner', case, {'addresses': lost, 'pool_settings': settings},
                      mechanism='poolops:cross_pool:release-by-non-owner')
    for p in pools:
      p.release_all()
    held = {pi: sorted(addrs.index(w.address) for w in p.all_workers if w.is_locked())
            for pi, p in enumerate(pools)}
    if any(held.values()):
      ctx.violation('workers_not_released', case, {'locked': held},
                    mechanism='poolops:cross_pool:not-released-after-return')
  finally:
    cwork.stop_servers(servers, join_s=0.5)


def run_poolops_case(ctx, case):
  if case.get('op') == 'as_completed_contended':
    return run_contended_case(ctx, case)
  if case.get('op') == 'cross_pool':
    return run_cross_pool_case(ctx, case)
  import courier
  from vlib import c16lib, c20lib, cwork
  all_busy = case['op'] == 'run_all_busy'
  # run() gives up after 180 library seconds: dilate the clock for that scenario.
  scale = 200.0 if all_busy else 1.0
  cwork.setup(scale=scale)
  from ml_metrics._src.chainables import courier_worker, lazy_fns, orchestrate
  from ml_metrics._src.utils import courier_utils
  sim = courier.sim
  W = case['W']
  states = case.get('states') or ['ok'] * W
  par = case.get('par', 1)
  servers, addrs = [], []
  for st in states:
    if st == 'absent':
      addr = cwork.unique('c20absent')       # no server was ever started there
      sim.refusing.add(addr)
      servers.append(None)
    else:
      srv = cwork.start_servers(1, 'c20w')[0]
      servers.append(srv)
      addr = srv.address
    addrs.append(addr)
  try:
    pool = courier_worker.WorkerPool(addrs, call_timeout=0 if all_busy else 30,
                                     max_parallelism=par)
    n_up = sum(1 for st in states if st != 'absent')
    pool.wait_until_alive(deadline_secs=60 * scale, minimum_num_workers=n_up)
    if len(pool.workers) < n_up:
      ctx.inconclusive_case('workers did not come up', case)
      return
    busy_s = 2.2 if all_busy else 0.5
    for i, st in enumerate(states):
      w = pool.all_workers[i]
      if st == 'exited':
        _unreachable(sim, servers[i])
        courier_utils.worker_registry().unregister(w.address)   # its death notice
      elif st == 'busy':
        # another user of the same Worker singleton keeps it at capacity
        for j in range(par):
          w.submit(lazy_fns.trace(c16lib.task_fn)(900 + 10 * i + j, delay=busy_s))
    op, fail = case['op'], case['fail']
    arg = case.get('arg')
    task = lambda i=0: lazy_fns.trace(c16lib.task_fn)(i, fail='value' if fail else None)

    def go():
      if op == 'call_and_wait':
        if arg == 'unpicklable':
          return pool.call_and_wait(task(), c20lib.Unpicklable())
        return pool.call_and_wait(task())
      if op in ('run', 'run_all_busy'):
        return pool.run(task())
      if op == 'as_completed':
        return list(orchestrate.as_completed(pool, [task(i) for i in range(3)]))
      raise ValueError(op)

    finished, res, exc = cwork.run_with_watchdog(go, 60)
    ctx.count('poolops_cases')
    degraded = [i for i, st in enumerate(states) if st != 'ok']
    if degraded:
      ctx.count('degraded_pool_cases')
    if arg == 'unpicklable':
      ctx.count('unpicklable_argument_cases')
    if all_busy:
      ctx.count('all_busy_cases')
    ctx.case(('poolops', case), True)
    if not finished:
      ctx.inconclusive_case('poolops watchdog', case)
      return
    if all_busy and (exc is None or 'No worker is available' not in str(exc)):
      # (load) the busy calls ended before run() reached its give-up time
      ctx.inconclusive_case(f'run() did not reach its give-up path: {exc!r}'[:200], case)
      return
    expect_raise = bool(fail or arg == 'unpicklable' or all_busy)
    if expect_raise and exc is None:
      ctx.violation('error_swallowed', case, {'result': repr(res)[:200]},
                    mechanism=f'poolops:{op}:error-swallowed')
    if not expect_raise and exc is not None:
      ctx.violation('unexpected_error', case, {'error': repr(exc)[:300]},
                    mechanism=f'poolops:{op}:raises:{type(exc).__name__}')
    held = [i for i, w in enumerate(pool.all_workers) if w.is_locked(pool)]
    locked = [i for i, w in enumerate(pool.all_workers) if w.is_locked()]
    if op in ('run', 'run_all_busy'):
      # workers listed before the first usable one are the ones run() walks over
      first_ok = next((i for i, st in enumerate(states) if st == 'ok'), W)
      ctx.count('inspected_unusable_workers', len([i for i in degraded if i < first_ok]))
    if held or locked:
      mech = f'poolops:{op}:not-released-after-' + ('raise' if exc else 'return')
      if op in ('run', 'run_all_busy') and degraded and set(locked) <= set(degraded):
        # only workers that run() inspected and rejected (absent / exited / busy)
        mech = K_RUN_LEAK
      elif (op == 'call_and_wait' and arg == 'unpicklable' and exc is not None
            and 'pickling' in str(exc)):
        mech = K_CALL_LEAK
      ctx.violation('workers_not_released', case,
                    {'held_by_pool': held, 'locked': locked, 'states': states,
                     'raised': repr(exc)[:120]}, mechanism=mech)
  finally:
    cwork.stop_servers([s for s in servers if s is not None], join_s=0.5)
    if scale != 1.0:
      cwork.setup(scale=1.0)


def run_contended_case(ctx, case):
  """Pool A runs as_completed; pool B (same Worker objects) probes acquire_by."""
  import threading
  import time as real_time
  from vlib import c20lib, cwork
  cwork.setup(scale=1.0)
  from ml_metrics._src.chainables import courier_worker, lazy_fns, orchestrate
  W, par, durs = case['W'], case['par'], case['durs']
  servers = cwork.start_servers(W, 'c20c')
  try:
    pool_a = courier_worker.WorkerPool([s.address for s in servers], call_timeout=30,
                                       max_parallelism=par)
    pool_a.wait_until_alive(deadline_secs=60, minimum_num_workers=W)
    pool_b = courier_worker.WorkerPool(pool_a.all_workers)
    shared = all(x is y for x, y in zip(pool_a.all_workers, pool_b.all_workers))
    workers = pool_a.all_workers
    base = next(_uid) * 1000
    tasks = [lazy_fns.trace(c20lib.timed_task)(base + i, d) for i, d in enumerate(durs)]
    my_ids = {base + i for i in range(len(durs))}
    releases = []      # (time, explicit worker argument was empty, tasks of A in flight)
    orig_release_all = pool_a.release_all
    a_state = {'submitted': 0, 'delivered': 0, 'done': False}

    def release_all(workers_=()):
      ws = list(workers_)
      releases.append((real_time.monotonic(), not ws,
                       a_state['submitted'] - a_state['delivered'],
                       sorted(i for i, w in enumerate(workers) if w.is_locked(pool_a)
                              and len(w.pendings) >= 1)))
      return orig_release_all(ws)

    pool_a.release_all = release_all

    def counted(it):
      for t in it:
        a_state['submitted'] += 1
        yield t
      # the task iterator is exhausted: are tasks of this run still in flight?
      a_state['in_flight_at_exhaustion'] = a_state['submitted'] - a_state['delivered']

    results = []

    def go():
      for r in orchestrate.as_completed(pool_a, counted(tasks)):
        a_state['delivered'] += 1
        results.append(r)

    probes = []        # (worker index, t0, t1) of every acquire_by(B) that succeeded
    n_probes = [0]
    rnd = random.Random(case.get('probe_seed', 0))

    def prober():
      while not a_state['done']:
        order = list(range(W))
        rnd.shuffle(order)
        for i in order:
          t0 = real_time.monotonic()
          ok = workers[i].acquire_by(pool_b)
          t1 = real_time.monotonic()
          n_probes[0] += 1
          if ok:
            probes.append((i, t0, t1))
            workers[i].release(pool_b)
        real_time.sleep(0.004)

    pt = threading.Thread(target=prober, daemon=True)
    pt.start()
    finished, _, exc = cwork.run_with_watchdog(go, 60)
    a_state['done'] = True
    pt.join(5)
    ctx.count('poolops_cases')
    ctx.count('contended_cases')
    ctx.count('contended_acquire_probes', n_probes[0])
    ctx.case(('poolops', case), True)
    if not finished or not shared:
      ctx.inconclusive_case('contended watchdog / pools do not share the worker objects', case)
      return
    # the audited trigger: release_all() called with an empty worker set while tasks are in flight
    trigger = [r for r in releases if r[1] and r[2] > 0]
    if a_state.get('in_flight_at_exhaustion', 0) > 0:
      ctx.count('exhausted_with_tasks_in_flight')
    if exc is not None:
      ctx.violation('unexpected_error', case, {'error': repr(exc)[:300]},
                    mechanism=f'poolops:as_completed_contended:raises:{type(exc).__name__}')
    ids = sorted(r[1] for r in results if isinstance(r, tuple) and r and r[0] == 'done')
    if exc is None and ids != sorted(my_ids):
      ctx.violation('results_differ', case, {'delivered': ids, 'expected': sorted(my_ids)},
                    mechanism='poolops:as_completed_contended:results-differ')
    execs = [e for e in list(c20lib.EXEC_LOG) if e[0] in my_ids]
    stolen = []
    for i, t0, t1 in probes:
      for tid, tname, s0, s1 in execs:
        if c20lib.ran_on(tname, servers[i].address) and s0 < t0 and t1 < s1:
          stolen.append({'worker': i, 'task_of_pool_a': tid - base,
                         'task_ran': [round(s0 - execs[0][2], 3), round(s1 - execs[0][2], 3)],
                         'pool_b_acquired_at': round(t0 - execs[0][2], 3)})
          break
    if stolen:
      first = min(t0 for _, t0, _ in probes)
      # attributed to the audited root cause only if as_completed itself called
      # release_all with an empty worker set while its tasks were in flight
      after_trigger = bool(trigger) and trigger[0][0] <= first + 1.0
      ctx.violation('busy_worker_acquired_by_other_pool', case,
                    {'witnesses': stolen[:3], 'n': len(stolen),
                     'release_all_with_empty_set_while_tasks_in_flight': len(trigger),
                     'busy_workers_it_released': trigger[0][3] if trigger else None},
                    mechanism=K_AC_RELEASE if after_trigger
                    else 'poolops:as_completed_contended:busy-worker-acquirable')
    held = [i for i, w in enumerate(workers) if w.is_locked()]
    if held:
      ctx.violation('workers_not_released', case, {'locked': held, 'raised': repr(exc)[:120]},
                    mechanism='poolops:as_completed_contended:not-released-after-'
                    + ('raise' if exc else 'return'))
    if len(ctx.samples) < 6 and stolen:
      ctx.sample({'mode': 'poolops', 'case': case, 'stolen': stolen[:2]})
  finally:
    cwork.stop_servers(servers, join_s=0.5)


def gen_poolops_case(rng):
  r = rng.random()
  if r < 0.25:
    return {'mode': 'poolops', 'op': 'as_completed_contended', 'W': rng.randint(1, 3),
            'par': rng.choice([1, 1, 2]), 'fail': False,
            'durs': [rng.choice([0.12, 0.2, 0.3]) for _ in range(rng.randint(1, 5))],
            'probe_seed': rng.randrange(1 << 20)}
  if r < 0.33:
    W = rng.randint(1, 2)
    return {'mode': 'poolops', 'op': 'run_all_busy', 'W': W, 'par': 1, 'fail': False,
            'states': ['busy'] * W}
  W = rng.randint(1, 3)
  op = rng.choice(['call_and_wait', 'run', 'run', 'as_completed'])
  case = {'mode': 'poolops', 'W': W, 'par': rng.choice([1, 2]), 'op': op,
          'fail': rng.random() < 0.5}
  if op == 'call_and_wait':
    # every listed worker is called: unusable workers only make it wait for deadlines
    case['states'] = [rng.choice(['ok', 'ok', 'busy']) for _ in range(W)]
    if rng.random() < 0.4:
      case['arg'] = 'unpicklable'
  else:
    states = [rng.choice(['ok', 'ok', 'absent', 'exited', 'busy']) for _ in range(W)]
    if 'ok' not in states:
      states[rng.randrange(W)] = 'ok'
    case['states'] = states
  return case


_RUN = {'registry': run_registry_case, 'liveness': run_liveness_case,
        'ownership': run_ownership_case, 'poolops': run_poolops_case}
_GEN = {'registry': gen_registry_case, 'liveness': gen_liveness_case,
        'ownership': gen_ownership_case, 'poolops': gen_poolops_case}


def run_chunk(ctx, spec):
  rng = random.Random(spec['rseed'] * 1000003 + spec['chunk'] * 17 + 5)
  mode = spec['mode']
  n_sched = 1 if mode in ('liveness', 'poolops') else 6
  n_cfg = max(1, spec['n'] // n_sched)
  # (own generator: the cases drawn from rng stay what they were)
  rng4 = random.Random(spec['rseed'] * 1000003 + spec['chunk'] * 17 + 9)
  if mode == 'poolops':
    # ownership per server address over the real pool operations (every poolops chunk)
    run_cross_pool_case(ctx, gen_cross_pool_case(rng4, differing=True))
    for _ in range(max(2, n_cfg // 4)):
      run_cross_pool_case(ctx, gen_cross_pool_case(rng4))
  forced = False
  for _ in range(n_cfg):
    case = _GEN[mode](rng)
    if mode == 'ownership' and not case.get('scenario') and (not forced or rng4.random() < 0.3):
      # pools that differ in one client setting (at least once in every ownership chunk)
      case = with_differing_settings(case, rng4)
      forced = True
    for j in range(n_sched):
      c = dict(case)
      if mode in ('registry', 'ownership'):
        c['sched_seed'] = rng.randrange(1 << 30)
        c['strategy'] = 'pct' if j % 3 == 2 else 'random'
      _RUN[mode](ctx, c)


def run_case(ctx, case):
  _RUN[case['mode']](ctx, case)
