"""C01 - Aggregates are invariant to how data is batched and sharded.

Metamorphic twin execution, no reference implementation: for one dataset the
library is run twice -- (reference) one accumulator fed the whole dataset as
one batch, (subject) one accumulator per shard fed batch by batch, folded with
merge -- and the two results must agree (numerically / as a concatenation /
for the reservoir in size, membership and reviewed count). Both the object
API (add / merge / result) and the AggregateFn API (create_state /
update_state / merge_states / get_result) are driven through
`vlib.agg_adapters`. Per-example clause: a row's value returned by add() in any
batch equals its value in a batch of one.

A case is {adapter, mode, dseed, n, comp, nary}; the dataset is regenerated
from (adapter, dseed, n), so replay is exact.
"""

from __future__ import annotations

import random

from vlib import agg_adapters as A
from vlib import c01_scenarios as S

ID = 'C01'
LEVEL = 'exploration'
RULE = (
    'case = (metric configuration [adapter + API mode], seeded dataset of n rows, '
    'composition = list of shards, each a list of batch sizes); datasets have 0-24 '
    'rows (thorough: up to 200) with NaN entries / all-NaN columns / NaN blocks, '
    '1-D and 2-D inputs, ragged rankings, str and int labels; 1-5 shards, some '
    'empty; every shard cut into 1..6 unequal batches; non-trivial = dataset >= 3 '
    'rows and (>= 2 shards or >= 2 non-empty batches of unequal size); distinct = '
    'hash(adapter, mode, dataset seed, n, composition). Input classes generated on purpose '
    '(second audit round): Mean / MeanAndVariance / Var data with +inf / -inf among finite '
    'values and no NaN (adapters ",inf"); multiclass / multiclass-multioutput labels WITHOUT '
    'a vocabulary under micro / macro / samples / top-k with every rate requested and '
    'classes that drift along the dataset, so that batches and shards see different class '
    'sets (adapters ",all-metrics"); two-class multiclass labels under the default '
    'average=binary without vocabulary (int labels 0 / 8 whose set order is the insertion '
    'order whatever PYTHONHASHSEED is, and str labels), with an explicit-vocabulary control; '
    'binary / multiclass-indicator input with macro average and no vocabulary; '
    'KerasAggregateFn around a stand-in metric (instance and factory); scenario '
    'reservoir_many (vlib/c01_scenarios.py): 20-300 tiny FixedSizeSample shards, or 3-8 '
    'shards of 1e5-3e6 samples fed as ranges, merged (left fold / balanced tree / one n-ary '
    'merge_states) and the merged sampler fed 1-3 further batches; scenario '
    'reservoir_unequal (third audit round): 2-3 FixedSizeSample shards of pairwise different '
    'max_size (1-32) merged into the first one, large receiver <- small operands and small '
    'receiver <- large operands in equal shares, every fill level (fresh / partly filled / '
    'exactly full / 2-20x the capacity reviewed; two thirds of the cases have every sampler '
    'over-full), one sampler seed per case out of 1e6, then 1-2 further batches. A violation is keyed '
    '(mechanism) by the configuration / input class of the case and the quantity that '
    'differs, never by a value')
ASSUMPTIONS = [
    'Mean / MeanAndVariance / Var: every batch is non-empty ("a non-vacant series"); '
    'empty shards (fresh accumulators) are generated, empty batches are not',
    'MinMaxAndCount: non-negative values (documented over counts, max starts at 0), '
    'batch_score_fn=None (a batch score such as len is batch-dependent by definition)',
    'multiclass / multioutput labels without a vocabulary: the one-batch run (vocabulary = '
    'the classes of the whole dataset) is the reference; a batched / sharded run must give '
    'the same values, or refuse explicitly: a ValueError whose message names the vocab, '
    'raised by update_state or merge_states, is accepted and counted (documented_refusals; '
    'the docstring requires a vocab for distributed macro averaging); a silently different '
    'value, or any other exception (broadcasting), is a violation. The older adapters '
    'without ",all-metrics" request only tn-free quantities (precision, recall, f1, threat '
    'score, ...) and keep their behaviour',
    'binary / multiclass-indicator input with macro average and no vocab: merge_states '
    'refuses with the same ValueError naming the vocab although these encodings never read '
    'it (any dummy vocab gives the one-batch value). Reported by two audits; kept as an '
    'accepted, counted refusal (macro_fixed_position_no_vocab_cases): the docstring of '
    '`vocab` states the precondition for distributed macro averaging without restricting it '
    'to label encodings and an upstream test pins the refusal on the default binary input '
    '(DESIGN 15, third round)',
    'average=binary on multiclass labels is only generated with exactly two classes in the '
    'pool (more raise by design); which class is "positive" is not documented, so only the '
    'invariance (several batches == one batch) is demanded, never a value',
    'confusion-matrix `accuracy` is only requested under samples averaging; '
    '`mean_average_precision` of the confusion-matrix enum is not implemented upstream',
    'zero-row batches are only fed to metrics where they are plainly valid (Histogram, '
    'Counter, UnboundedSampler, ValueAccumulator with list concat, FixedSizeSample, '
    'R2Tjur*, RRegression 1-D, SymmetricPredictionDifference, MeanState, TupleMeanState, '
    'FrequencyState, text metrics, CalibrationHistogram); for an empty dataset both '
    'sides receive one empty batch when that is valid, otherwise no batch at all',
    'retrieval rows have >= 1 true label and >= 1 prediction, items are distinct; '
    'per-row values of rankings shorter than k are aligned with the documented '
    '"extend the remaining Ks from the last value" convention before comparing',
    'Histogram / CalibrationHistogram always get an explicit range or explicit edges '
    '(auto-ranged bins differ per batch and merge raises by design); values on a '
    'dyadic grid; no NaN',
    'ValueAccumulator without concat_fn: the unit of add() is one value, so a batch '
    'is fed value by value; concat_fn is list "+" or np.concatenate (non-mutating)',
    'FixedSizeSample: fixed integer seed (seed=None is not replayable); only size, '
    'membership (as a multiset) and num_samples_reviewed are compared; in the many-states '
    'scenario the values are distinct consecutive ints handed over as `range` objects '
    '(sized, sliceable, indexable: what add() uses), so membership = inside the range and '
    'at most once; that later samples are admitted with the right probability is NOT '
    'checked (only that add() keeps working and the three invariants hold)',
    'FixedSizeSample shards of different max_size (reservoir_unequal): nothing documents '
    'which size the merged sample has, so the weakest reading is demanded per merge step: '
    'size = min(receiver.max_size, samples held by receiver and operand), members from the '
    'two reservoirs, reviewed counts added, operand unchanged - or the merge rejects the '
    'operand and leaves the receiver exactly as it was (accepted and counted; 4% of the cases '
    'use unequal sampler seeds, which merge() refuses by design); only a raise that leaves '
    'the receiver changed - or any raise when one side is a fresh sampler of the same seed, '
    'the neutral element - is reported (key fixed-size-sample-merge-small-operand-into-large-'
    'receiver when the operand has the smaller capacity and reviewed more than it holds)',
    'FrequencyState has no add(): a batch enters as merge(FrequencyState(Counter(batch), '
    'len(batch))), which is what the text metrics do',
    'TopKRetrieval with input_type=multiclass: single-character class ids as in the '
    'upstream test (len() of the label is taken)',
    'numeric data are dyadic rationals with |x| <= 1000 (sums exact); comparison '
    'rtol 1e-9, atol 1e-12 x result scale; NaN == NaN; the ",inf" adapters add +inf / -inf '
    'entries (never NaN): an infinite / NaN result must be reproduced in kind (same '
    'infinity, NaN only for NaN) by every batching',
    'for CallableMetric subclasses the merge-free evaluation of one batch, new(batch) '
    '(what __call__ uses), must report what add(batch) on a fresh accumulator reports; '
    'for the text metrics the value returned by add() is that batch result; skipped when '
    'the dataset holds only NaN (count 0 has no shape yet)',
    'CalibrationHistogram (add and merge share one code path, no merge-free batch '
    'evaluation): the one-batch result must conserve the number of values and the sums '
    'of labels / predictions (exact, dyadic data inside the range); ThresholdedRetrieval: '
    'get_metric() of the batch confusion matrix returned by add() is the merge-free value',
    'when both paths raise the same exception type (e.g. result() of a never-fed '
    'RRegression) they agree; this is counted as `both_raise`',
    'KerasAggregateFn: Keras is not installed; the wrapper is duck-typed on the KerasMetric '
    'protocol it documents (update_state / reset_state / merge_state / result), so it is '
    'driven with a stand-in mean metric implementing exactly that protocol, handed over as '
    'an instance and as a factory function; AggFnNested excluded (merge_states is '
    'unimplemented upstream)',
]
FAMILY_COUNTERS = ['family:' + f for f in A.EXPECTED_FAMILIES]
REQUIRED = ['merge_checks', 'one_batch_state_checks', 'obj_api_checks', 'aggfn_api_checks', 'per_row_checks',
            'reservoir_checks', 'empty_shard_cases', 'nan_cases', 'inf_cases',
            'no_vocab_all_metrics_cases', 'macro_fixed_position_no_vocab_cases',
            'reservoir_many_states_cases', 'reservoir_many_tiny_cases',
            'reservoir_many_large_cases', 'reservoir_add_after_merge_checks',
            'reservoir_unequal_cases', 'reservoir_unequal_large_receiver_cases',
            'reservoir_unequal_small_receiver_cases', 'reservoir_unequal_audited_class_cases',
            'reservoir_unequal_merge_checks',
            'inventory_classes_covered'] + FAMILY_COUNTERS
EXHAUSTIVE = {'quick': False, 'thorough': False}
CHUNK_TIMEOUT_S = {'quick': 240, 'thorough': 3000}

N_CHUNKS = {'quick': 32, 'thorough': 64}
CASES_PER_ADAPTER_MODE = {'quick': 250, 'thorough': 6000}


def plan(tier, seed):
  ams = A.adapter_modes('C01')
  k = N_CHUNKS[tier]
  specs = [{'work': [], 'rseed': seed, 'cases': CASES_PER_ADAPTER_MODE[tier],
            'inventory': i == 0, 'scenarios': S.plan_slice(tier, i, k)} for i in range(k)]
  # Split every adapter-mode's cases over a few chunks so that chunks are even.
  parts = 1 if tier == 'quick' else 8
  j = 0
  for name, mode in ams:
    for part in range(parts):
      specs[j % k]['work'].append([name, mode, part, parts])
      j += 1
  return specs


# ---------------------------------------------------------------------------
# case generation
# ---------------------------------------------------------------------------


def _cut(rng, total, parts):
  """`parts` positive sizes summing to `total` (parts <= total)."""
  cuts = sorted(rng.sample(range(1, total), parts - 1)) if parts > 1 else []
  return [b - a for a, b in zip([0] + cuts, cuts + [total])]


def gen_case(rng, ad, mode, tier):
  if tier == 'thorough' and rng.random() < 0.4:
    n = rng.randint(25, 200)
  else:
    n = rng.choice([0, 1, 2, 3, 4, 5, 6, 8, 11, 16, 24, rng.randint(0, 24),
                    rng.randint(3, 24)])
  nshards = rng.randint(1, 5)
  cuts = sorted(rng.randint(0, n) for _ in range(nshards - 1))
  sizes = [b - a for a, b in zip([0] + cuts, cuts + [n])]
  if rng.random() < 0.3 and len(sizes) < 5:
    sizes.insert(rng.randint(0, len(sizes)), 0)
  comp = []
  for s in sizes:
    if s == 0:
      comp.append([0] if (ad.allows_empty_batch and rng.random() < 0.4) else [])
      continue
    batches = _cut(rng, s, rng.randint(1, min(s, 6)))
    if ad.allows_empty_batch and rng.random() < 0.15:
      batches.insert(rng.randint(0, len(batches)), 0)
    comp.append(batches)
  if n == 0 and ad.allows_empty_batch and not any(comp):
    comp[rng.randrange(len(comp))] = [0]
  return {'adapter': ad.name, 'mode': mode, 'dseed': rng.getrandbits(40),
          'n': n, 'comp': comp, 'nary': rng.random() < 0.5}


# ---------------------------------------------------------------------------
# one case
# ---------------------------------------------------------------------------


def _has_nan(rows):
  def walk(x):
    if isinstance(x, float):
      return x != x
    if isinstance(x, (list, tuple)):
      return any(walk(e) for e in x)
    return False
  return walk(rows)


def _all_nan(rows):
  """True when the dataset holds no number at all (shape-of-nothing cases)."""
  def nums(x):
    if isinstance(x, (list, tuple)):
      for e in x:
        yield from nums(e)
    elif isinstance(x, float):
      yield x
  vals = list(nums(rows))
  return bool(vals) and all(v != v for v in vals)


def _lit(rows, limit=14):
  return rows if len(rows) <= limit else {'rows': len(rows), 'head': rows[:4]}


def _violate(ctx, ad, kind, case, detail, diffs=None, exc=None, rows=None):
  A.report(ctx, ad, kind, case, detail, diffs=diffs, exc=exc, rows=rows)


def check_case(ctx, case, reg):
  ad = reg[case['adapter']]
  mode = case['mode']
  drv = A.Driver(ad, mode)
  n, comp = case['n'], case['comp']
  rows = ad.gen_dataset(random.Random(case['dseed']), n)
  assert len(rows) == n and sum(map(sum, comp)) == n
  nonempty = [b for shard in comp for b in shard if b]
  nontrivial = n >= 3 and (len(comp) >= 2 or (len(nonempty) >= 2
                                               and len(set(nonempty)) >= 2))
  ctx.case(('C01', ad.name, mode, case['dseed'], n, comp, case['nary']), nontrivial)
  ctx.count('family:' + ad.family)
  ctx.count('obj_api_checks' if mode == 'obj' else 'aggfn_api_checks')
  if any(len(s) == 0 for s in comp):
    ctx.count('empty_shard_cases')
  if _has_nan(rows):
    ctx.count('nan_cases')
  if A._contains_inf(rows):  # pylint: disable=protected-access
    ctx.count('inf_cases')
  if getattr(ad, 'needs_vocab', False) and not ad.with_vocab and getattr(
      ad, 'metric_set', '') == 'all':
    ctx.count('no_vocab_all_metrics_cases')
  if getattr(ad, 'fixed_positions_macro_no_vocab', False):
    ctx.count('macro_fixed_position_no_vocab_cases')
  lit = {'rows': _lit(rows), 'comp': comp, 'api': mode}

  # ---- reference: one accumulator, one batch --------------------------------
  ref_rowvals = None
  try:
    ref = drv.make()
    if n > 0 or ad.allows_empty_batch:
      out = drv.feed(ref, rows)
      if ad.per_row and mode == 'obj' and n > 0:
        ref_rowvals = ad.row_values(out, n)
  except Exception as e:  # pylint: disable=broad-exception-caught
    if ad.accepts_refusal(A.exc_info(e), 'add'):
      # the configuration is refused outright (also for one batch)
      ctx.count('documented_refusals')
      return
    # The one-batch path itself rejects the generated input: not a C01 event.
    ctx.inconclusive_case('reference path raised: ' + repr(A.exc_info(e)), case)
    return
  ref_obs = drv.observe(ref)

  # ---- the library's own merge-free evaluation of one batch ---------------------
  if mode == 'obj' and ad.one_batch_path and not _all_nan(rows):
    try:
      pure = ad.one_batch_obs(rows)
    except Exception as e:  # pylint: disable=broad-exception-caught
      pure = None
      ctx.observe('one_batch_path_raised', repr(A.exc_info(e)))
    if pure is not None and ref_obs[0] == 'ok':
      ctx.count('one_batch_state_checks')
      d = A.compare_obs(ad, ref_obs, pure)
      if d:
        _violate(ctx, ad, 'add_on_fresh_differs_from_batch_state', case,
                 dict(lit, path=ad.one_batch_path), diffs=d, rows=rows)

  if ref_obs[0] == 'ok' and mode == 'obj':
    d = ad.invariants(rows, ref_obs[1])
    if d:
      _violate(ctx, ad, 'one_batch_result_breaks_conservation', case, lit, diffs=d,
               rows=rows)

  # ---- subject: shards x batches, folded with merge ---------------------------
  def build_subject(shards):
    pos_of, p = [], 0
    for shard in comp:
      pos_of.append(p)
      p += sum(shard)
    hs, rowvals = [], []
    for si in shards:
      h = drv.make()
      p = pos_of[si]
      for b in comp[si]:
        out = drv.feed(h, rows[p:p + b])
        if ad.per_row and mode == 'obj' and b > 0:
          rowvals.append((p, ad.row_values(out, b)))
        p += b
      hs.append(h)
    return hs, rowvals

  def fold(hs):
    if case['nary'] and mode == 'aggfn':
      return drv.merge(hs[0], hs[1:])
    acc = hs[0]
    for h in hs[1:]:
      drv.merge(acc, [h])
    return acc

  try:
    handles, batch_rowvals = build_subject(range(len(comp)))
  except Exception as e:  # pylint: disable=broad-exception-caught
    if ref_obs[0] == 'ok' and ad.accepts_refusal(A.exc_info(e), 'add'):
      ctx.count('documented_refusals')
      return
    if ref_obs[0] == 'ok':
      _violate(ctx, ad, 'batched_add_raises', case,
               dict(lit, want='same as one batch'), exc=A.exc_info(e), rows=rows)
    else:
      ctx.count('both_raise')
    return
  try:
    merged = fold(handles)
    ctx.count('merge_checks', max(0, len(handles) - 1))
  except Exception as e:  # pylint: disable=broad-exception-caught
    if ref_obs[0] != 'ok':
      ctx.count('both_raise')
      return
    if ad.accepts_refusal(A.exc_info(e), 'merge'):
      ctx.count('documented_refusals')
      return
    _violate(ctx, ad, 'merge_raises', case, dict(lit, want='same as one batch'),
             exc=A.exc_info(e), rows=rows)
    # An empty shard broke the fold: still compare the fold of the fed shards.
    fed = [si for si, shard in enumerate(comp) if shard]
    if not fed or len(fed) == len(comp):
      return
    try:
      handles, batch_rowvals = build_subject(fed)
      merged = fold(handles)
      ctx.count('merge_checks', max(0, len(handles) - 1))
      ctx.count('retry_without_empty_shards')
    except Exception as e2:  # pylint: disable=broad-exception-caught
      _violate(ctx, ad, 'merge_raises', case,
               dict(lit, want='same as one batch', shards_merged=fed),
               exc=A.exc_info(e2), rows=rows)
      return
  sub_obs = drv.observe(merged)

  if ad.reservoir:
    ctx.count('reservoir_checks')
    for which, obs in (('reference', ref_obs), ('subject', sub_obs)):
      diffs = ad.reservoir_diffs(obs, rows)
      if diffs:
        _violate(ctx, ad, 'reservoir_' + which, case, lit, diffs=diffs, rows=rows)
  else:
    ctx.count('result_comparisons')
    diffs = A.compare_obs(ad, sub_obs, ref_obs)
    if diffs:
      if diffs[0][0] == '<outcome>' and sub_obs[0] == 'raised':
        _violate(ctx, ad, 'result_raises', case, dict(lit, want='same as one batch'),
                 exc=(sub_obs[1], sub_obs[2]), rows=rows)
      else:
        _violate(ctx, ad, 'result_mismatch', case, lit, diffs=diffs, rows=rows)
    elif ref_obs[0] == 'raised':
      ctx.count('both_raise')

  # ---- per-example clause -----------------------------------------------------
  if ad.per_row and mode == 'obj' and n > 0:
    singles = []
    try:
      for r in rows:
        singles.append(ad.row_values(drv.feed(drv.make(), [r]), 1)[0])
    except Exception as e:  # pylint: disable=broad-exception-caught
      ctx.inconclusive_case('batch of one raised: ' + repr(A.exc_info(e)), case)
      return
    groups = [(0, ref_rowvals)] if ref_rowvals is not None else []
    groups += batch_rowvals
    bad = []
    for start, vals in groups:
      for i, v in enumerate(vals):
        ctx.count('per_row_checks')
        d = ad.compare(v, singles[start + i])
        if d:
          bad += [(f'row[{start + i}]@batch[{start}:{start + len(vals)}]{p}', a, b)
                  for p, a, b in d]
    if bad:
      _violate(ctx, ad, 'per_row_value_depends_on_batch', case, lit, diffs=bad[:24], rows=rows)


# ---------------------------------------------------------------------------
# entry points
# ---------------------------------------------------------------------------


def run_chunk(ctx, spec):
  reg = A.registry()
  tier = spec['tier']
  if spec.get('inventory'):
    A.check_inventory(ctx)
  for name, mode, part, parts in spec['work']:
    ad = reg[name]
    total = spec['cases']
    lo, hi = total * part // parts, total * (part + 1) // parts
    for i in range(lo, hi):
      rng = random.Random(A.stable_int('C01', spec['rseed'], name, mode, i))
      case = gen_case(rng, ad, mode, tier)
      check_case(ctx, case, reg)
      if i == lo and len(ctx.samples) < 2:
        ctx.sample({k: case[k] for k in ('adapter', 'mode', 'n', 'comp')})
  for item in spec.get('scenarios', ()):
    S.run_item(ctx, spec['rseed'], tier, item)


def run_case(ctx, case):
  if case.get('scenario'):
    S.check(ctx, case)
    return
  check_case(ctx, case, A.registry())
